"""Canary mutants: each is a small edit of /repo that still compiles and passes the
existing test suite but breaks a property; the named rule must report it.
Applied only to scratch copies (tools/canary.py); never to /repo itself."""

CANARIES = []


def canary(id, prop, file, old, new, expect='', more=None):
    edits = [{'file': file, 'old': old, 'new': new}]
    for m in more or []:
        edits.append({'file': m[0], 'old': m[1], 'new': m[2]})
    CANARIES.append({'id': id, 'property': prop, 'edits': edits, 'expect': expect})


CTL = 'crates/edp_client/src/control.rs'
PA = 'crates/edp_client/src/pid_allocator.rs'
NODE = 'crates/edp_node/src/node.rs'

# ---- C08 ----
canary('c08-swap-numbers', 'C08', CTL, '    GroupLeader = 7,\n    Exit2 = 8,', '    GroupLeader = 8,\n    Exit2 = 7,', 'TABLE:',
       more=[(CTL, '            7 => Ok(Self::GroupLeader),\n            8 => Ok(Self::Exit2),', '            8 => Ok(Self::GroupLeader),\n            7 => Ok(Self::Exit2),')])
canary('c08-into-term-swap', 'C08', CTL,
       """                OwnedTerm::Integer(ControlMessageType::ExitTt as i64),
                from_pid,
                to_pid,
                trace_token,
                reason,""",
       """                OwnedTerm::Integer(ControlMessageType::ExitTt as i64),
                from_pid,
                to_pid,
                reason,
                trace_token,""", 'into_term:ExitTt')
canary('c08-arity-guard', 'C08', CTL, 'Some(ControlMessageType::Exit2) if elements.len() == 4', 'Some(ControlMessageType::Exit2) if elements.len() == 5', 'from_term:Exit2')
canary('c08-tryfrom-only', 'C08', CTL, '            20 => Ok(Self::DemonitorP),', '            20 => Ok(Self::MonitorP),', 'tryfrom')
canary('c08-from-term-field', 'C08', CTL,
       """                Ok(ControlMessage::MonitorP {
                    from_pid: elements[1].clone(),
                    to_proc: elements[2].clone(),""",
       """                Ok(ControlMessage::MonitorP {
                    from_pid: elements[2].clone(),
                    to_proc: elements[1].clone(),""", 'from_term:MonitorP')
canary('c08-drop-range-guard', 'C08', CTL, 'if !(0..=255).contains(&msg_type_raw) {', 'if !(0..=65535).contains(&msg_type_raw) {', 'C08.4-cast')

# ---- C16 ----
canary('c16-guard-scoped-out', 'C16', PA, 'let _guard = self.wrap_lock.lock()', '{ let _guard = self.wrap_lock.lock()', 'LOCK:',
       more=[(PA, 'PID allocator lock poisoned: {}", e))\n        })?;', 'PID allocator lock poisoned: {}", e))\n        })?; }')])
canary('c16-load-store-counter', 'C16', NODE, 'let id0 = self.reference_counter.fetch_add(1, Ordering::SeqCst);',
       'let id0 = self.reference_counter.load(Ordering::SeqCst); self.reference_counter.store(id0.wrapping_add(1), Ordering::SeqCst);', 'ATOMIC:')
canary('c16-early-unlock', 'C16', PA, '        let next_id = id + 1;\n', '        let next_id = id + 1;\n        drop(_guard);\n', 'LOCK:')
canary('c16-serial-not-advanced', 'C16', PA, 'let new_serial = self.next_serial.fetch_add(1, Ordering::Relaxed) + 1;', 'let new_serial = self.next_serial.load(Ordering::Relaxed) + 1;', 'serial')
canary('c16-creation-const', 'C16', PA, """                id,
                serial,
                self.creation.load(Ordering::Relaxed),""", """                id,
                serial,
                0,""", 'creation')
