"""Canary mutants: each is a small edit of /repo that still compiles and passes the
existing test suite but breaks a property; the named rule must report it.
Applied only to scratch copies (tools/canary.py); never to /repo itself."""

CANARIES = []


def canary(id, prop, file, old, new, expect='', more=None, benign=False):
    edits = [{'file': file, 'old': old, 'new': new}]
    for m in more or []:
        edits.append({'file': m[0], 'old': m[1], 'new': m[2]})
    CANARIES.append({'id': id, 'property': prop, 'edits': edits, 'expect': expect, 'benign': benign})


def benign(id, prop, file, old, new, more=None):
    """a behaviour-preserving refactoring: the property's check must stay silent on it"""
    canary(id, prop, file, old, new, '', more, benign=True)


CTL = 'crates/edp_client/src/control.rs'
PA = 'crates/edp_client/src/pid_allocator.rs'
NODE = 'crates/edp_node/src/node.rs'

# ---- C08 ----
canary('c08-swap-numbers', 'C08', CTL, '    GroupLeader = 7,\n    Exit2 = 8,', '    GroupLeader = 8,\n    Exit2 = 7,', 'TABLE:',
       more=[(CTL, '            7 => Ok(Self::GroupLeader),\n            8 => Ok(Self::Exit2),', '            8 => Ok(Self::GroupLeader),\n            7 => Ok(Self::Exit2),')])
canary('c08-into-term-swap', 'C08', CTL,
       """                OwnedTerm::Integer(ControlMessageType::ExitTt as i64),
                from_pid,
                to_pid,
                trace_token,
                reason,""",
       """                OwnedTerm::Integer(ControlMessageType::ExitTt as i64),
                from_pid,
                to_pid,
                reason,
                trace_token,""", 'into_term:ExitTt')
canary('c08-arity-guard', 'C08', CTL, 'Some(ControlMessageType::Exit2) if elements.len() == 4', 'Some(ControlMessageType::Exit2) if elements.len() == 5', 'from_term:Exit2')
canary('c08-tryfrom-only', 'C08', CTL, '            20 => Ok(Self::DemonitorP),', '            20 => Ok(Self::MonitorP),', 'tryfrom')
canary('c08-from-term-field', 'C08', CTL,
       """                Ok(ControlMessage::MonitorP {
                    from_pid: elements[1].clone(),
                    to_proc: elements[2].clone(),""",
       """                Ok(ControlMessage::MonitorP {
                    from_pid: elements[2].clone(),
                    to_proc: elements[1].clone(),""", 'from_term:MonitorP')
canary('c08-drop-range-guard', 'C08', CTL, 'if !(0..=255).contains(&msg_type_raw) {', 'if !(0..=65535).contains(&msg_type_raw) {', 'C08.4-cast')

# ---- C16 ----
canary('c16-guard-scoped-out', 'C16', PA, 'let _guard = self.wrap_lock.lock()', '{ let _guard = self.wrap_lock.lock()', 'LOCK:',
       more=[(PA, 'PID allocator lock poisoned: {}", e))\n        })?;', 'PID allocator lock poisoned: {}", e))\n        })?; }')])
canary('c16-load-store-counter', 'C16', NODE, 'let id0 = self.reference_counter.fetch_add(1, Ordering::SeqCst);',
       'let id0 = self.reference_counter.load(Ordering::SeqCst); self.reference_counter.store(id0.wrapping_add(1), Ordering::SeqCst);', 'ATOMIC:')
canary('c16-early-unlock', 'C16', PA, '        let next_id = id + 1;\n', '        let next_id = id + 1;\n        drop(_guard);\n', 'LOCK:')
canary('c16-serial-not-advanced', 'C16', PA, 'let new_serial = self.next_serial.fetch_add(1, Ordering::Relaxed) + 1;', 'let new_serial = self.next_serial.load(Ordering::Relaxed) + 1;', 'serial')
canary('c16-creation-const', 'C16', PA, """                id,
                serial,
                self.creation.load(Ordering::Relaxed),""", """                id,
                serial,
                0,""", 'creation')

# ---- C04 ----
SMF = 'crates/edp_client/src/state_machine.rs'
HSF = 'crates/edp_client/src/handshake.rs'
DIG = 'crates/edp_client/src/digest.rs'
CONN = 'crates/edp_client/src/connection.rs'
TRN = 'crates/edp_client/src/transport.rs'
canary('c04-no-verify', 'C04', SMF, """        if !ack.verify(our_challenge, &self.cookie) {
            return Err(Error::AuthenticationFailed);
        }
""", """        let _ = ack.verify(our_challenge, &self.cookie);
""", 'connected-without-verify')
canary('c04-verify-their', 'C04', SMF, """        let our_challenge = self
            .our_challenge
            .ok_or_else(|| Error::InvalidStateMessage("no our_challenge set".to_string()))?;

        if !ack.verify""", """        let our_challenge = self
            .their_challenge
            .ok_or_else(|| Error::InvalidStateMessage("no our_challenge set".to_string()))?;

        if !ack.verify""", 'verify-args')
canary('c04-flags-or', 'C04', SMF, 'challenge.flags.as_u64() & self.flags.as_u64()', 'challenge.flags.as_u64() | self.flags.as_u64()', 'negotiated_flags')
canary('c04-reply-swap', 'C04', SMF, 'ChallengeReply::new(our_challenge, their_challenge, &self.cookie)', 'ChallengeReply::new(their_challenge, our_challenge, &self.cookie)', 'prepare_challenge_reply:args')
canary('c04-reply-digest-ours', 'C04', HSF, """    pub fn new(our_challenge: u32, their_challenge: u32, cookie: &str) -> Self {
        let digest = digest::compute_digest(their_challenge, cookie);""", """    pub fn new(our_challenge: u32, their_challenge: u32, cookie: &str) -> Self {
        let digest = digest::compute_digest(our_challenge, cookie);""", 'ChallengeReply::new')
canary('c04-disconnect-keeps', 'C04', SMF, """        self.state = ConnectionState::Disconnected;
        self.our_challenge = None;""", """        self.state = ConnectionState::Disconnected;""", 'FIELDSET')
canary('c04-digest-order', 'C04', DIG, 'format!("{}{}", cookie, challenge_str)', 'format!("{}{}", challenge_str, cookie)', 'compute_digest')
canary('c04-digest-sep', 'C04', DIG, 'format!("{}{}", cookie, challenge_str)', 'format!("{}:{}", cookie, challenge_str)', 'compute_digest')
canary('c04-complement-width', 'C04', SMF, """        buf.put_u32(high_flags);
        buf.put_u32(self.creation.0);""", """        buf.put_u32(high_flags);
        buf.put_u16(self.creation.0 as u16);""", 'prepare_complement')
canary('c04-reply-tag', 'C04', HSF, "        buf.put_u16(21);\n        buf.put_u8(b'r');", "        buf.put_u16(21);\n        buf.put_u8(b'R');", 'ChallengeReply::encode')
canary('c04-ack-guard', 'C04', HSF, """        if buf.remaining() < 16 {
            return Err(Error::InvalidHandshakeMessage(
                "Insufficient data for digest".to_string(),""", """        if buf.remaining() < 15 {
            return Err(Error::InvalidHandshakeMessage(
                "Insufficient data for digest".to_string(),""", 'PANIC')
canary('c04-frame-mode-early', 'C04', CONN, """        self.receive_challenge_ack().await?;

        self.transport.set_frame_mode(FrameMode::Distribution);""", """        self.transport.set_frame_mode(FrameMode::Distribution);
        self.receive_challenge_ack().await?;
""", 'frame-mode')
canary('c04-ack-unpropagated', 'C04', CONN, '        self.receive_challenge_ack().await?;\n\n        self.transport', '        let _ = self.receive_challenge_ack().await;\n\n        self.transport', 'ORDER')
canary('c04-write-no-timeout', 'C04', TRN, """        tokio::time::timeout(self.timeout, async {
            stream.write_all(data).await?;
            stream.flush().await
        })
        .await
        .map_err(|_| Error::Timeout(self.timeout))?
        .map_err(Error::Io)""", """        async {
            stream.write_all(data).await?;
            stream.flush().await
        }
        .await
        .map_err(Error::Io)""", 'TIMEOUT')
canary('c04-state-pub-write', 'C04', SMF, '    pub fn handle_status(&mut self, data: &[u8]) -> Result<()> {\n', '    pub fn handle_status(&mut self, data: &[u8]) -> Result<()> {\n        if data.len() == 77 { self.state = ConnectionState::Connected; }\n', 'DOM')
canary('c04-challenge-field-order', 'C04', HSF, """        let flags = DistributionFlags::new(buf.get_u64());
        let challenge = buf.get_u32();
        let creation = buf.get_u32();
        let name_len = buf.get_u16() as usize;

        if buf.remaining() < name_len {
            return Err(Error::InvalidHandshakeMessage(format!(
                "Insufficient data for name: expected {} bytes, got {}",
                name_len,
                buf.remaining()
            )));
        }

        let name_bytes = &buf[..name_len];
        let name = str::from_utf8(name_bytes)
            .map_err(|_| Error::InvalidHandshakeMessage("Invalid UTF-8 in node name".to_string()))?
            .to_owned();

        Ok(Self {
            flags,
            challenge,""", """        let flags = DistributionFlags::new(buf.get_u64());
        let creation = buf.get_u32();
        let challenge = buf.get_u32();
        let name_len = buf.get_u16() as usize;

        if buf.remaining() < name_len {
            return Err(Error::InvalidHandshakeMessage(format!(
                "Insufficient data for name: expected {} bytes, got {}",
                name_len,
                buf.remaining()
            )));
        }

        let name_bytes = &buf[..name_len];
        let name = str::from_utf8(name_bytes)
            .map_err(|_| Error::InvalidHandshakeMessage("Invalid UTF-8 in node name".to_string()))?
            .to_owned();

        Ok(Self {
            flags,
            challenge,""", 'Challenge::decode')

# ---- C05 ----
FRM = 'crates/edp_client/src/framing.rs'
canary('c05-cap-after-alloc', 'C05', FRM, """        if len > MAX_MESSAGE_SIZE {
            return Err(io::Error::new(
                io::ErrorKind::InvalidData,
                format!(
                    "Message too large: {} bytes (max: {})",
                    len, MAX_MESSAGE_SIZE
                ),
            ));
        }

        let mut buf = vec![0u8; len];""", """        let mut buf = vec![0u8; len];
        if len > MAX_MESSAGE_SIZE {
            return Err(io::Error::new(
                io::ErrorKind::InvalidData,
                format!(
                    "Message too large: {} bytes (max: {})",
                    len, MAX_MESSAGE_SIZE
                ),
            ));
        }
""", 'alloc-before-cap')
canary('c05-short-read', 'C05', FRM, '        reader.read_exact(&mut buf).await?;\n        trace!("Read message data', '        reader.read(&mut buf).await?;\n        trace!("Read message data', 'WHO:')
canary('c05-write-width', 'C05', FRM, """                let len = data.len() as u32;
                writer.write_u32(len).await?;""", """                let len = data.len() as u16;
                writer.write_u16(len).await?;""", 'write_framed')
canary('c05-le-prefix', 'C05', CONN, 'let len = u32::from_be_bytes(len_bytes);\n                trace!(\n                    "Read message length', 'let len = u32::from_le_bytes(len_bytes);\n                trace!(\n                    "Read message length', 'prefix')
canary('c05-discard-result', 'C05', FRM, '        reader.read_exact(&mut buf).await?;\n        trace!("Read message data', '        let _ = reader.read_exact(&mut buf).await;\n        trace!("Read message data', 'ERRDISC')
canary('c05-node-reader-no-cap', 'C05', CONN, """            if len > MAX_MESSAGE_SIZE {
                return Err(Error::MessageTooLarge {
                    size: len,
                    max: MAX_MESSAGE_SIZE,
                });
            }

            let mut buf = vec![0u8; len];""", """            let mut buf = vec![0u8; len];""", 'alloc-before-cap')
canary('c05-framer-extra-byte', 'C05', FRM, '        buf.put_slice(data);\n        buf.to_vec()', '        buf.put_slice(data);\n        buf.put_u8(0);\n        buf.to_vec()', 'WIRE:framing')

# ---- C17 ----
canary('c17-timeout-remove-dropped', 'C17', NODE, """        if response.is_err() {
            self.pending_rpcs.remove(&pid_str);
        }
""", "", 'PAIR:')
canary('c17-router-get', 'C17', NODE, "if let Some((_key, sender)) = pending_rpcs.remove(&pid_str) {\n                            let _ = sender.send(body);\n                        }",
       "if let Some(entry) = pending_rpcs.get(&pid_str) {\n                            let _ = entry.value();\n                            drop(body);\n                        }", 'TABLE:')
canary('c17-send-failure-leak', 'C17', NODE, """            {
                self.pending_rpcs.remove(&pid_str);
                return Err(e.into());
            }""", """            {
                return Err(e.into());
            }""", 'PAIR:')
canary('c17-key-format-differs', 'C17', NODE, """                        let pid_str = format!("{}.{}.{}", pid.id, pid.serial, pid.creation);""", """                        let pid_str = format!("{}.{}.{}", pid.id, pid.creation, pid.serial);""", 'CONST:')
canary('c17-no-connection-leak', 'C17', NODE, """            tracing::error!("No connection found for node: {}", remote_node);
            self.pending_rpcs.remove(&pid_str);""", """            tracing::error!("No connection found for node: {}", remote_node);""", 'PAIR:')
canary('c17-remove-on-ok', 'C17', NODE, "        if response.is_err() {\n            self.pending_rpcs.remove(&pid_str);", "        if response.is_ok() {\n            self.pending_rpcs.remove(&pid_str);", 'PAIR:')

# ---- C18 ----
REGF = 'crates/edp_node/src/registry.rs'
PROCF = 'crates/edp_node/src/process.rs'
GSF = 'crates/edp_node/src/gen_server.rs'
canary('c18-name-overwrite', 'C18', REGF, """        match names.entry(name.clone()) {
            Entry::Occupied(_) => Err(Error::NameAlreadyRegistered(name)),
            Entry::Vacant(e) => {
                e.insert(pid);
                Ok(())
            }
        }""", """        if names.len() > 100000 { return Err(Error::NameAlreadyRegistered(name)); }
        let _ = Entry::Vacant::<Atom, ExternalPid>;
        names.insert(name, pid);
        Ok(())""", 'TABLE:by_name')
canary('c18-remove-before-propagate', 'C18', PROCF, """        if let Err(e) = propagate_exit_signals(&handle_clone, &registry, exit_reason).await {
            tracing::error!("Failed to propagate exit signals for {}: {}", pid, e);
        }

        registry.remove(&pid).await;""", """        registry.remove(&pid).await;
        if let Err(e) = propagate_exit_signals(&handle_clone, &registry, exit_reason).await {
            tracing::error!("Failed to propagate exit signals for {}: {}", pid, e);
        }
""", 'DOM:')
canary('c18-names-left', 'C18', REGF, "        self.by_name.write().await.retain(|_, p| p != pid);\n", "", 'leaves:by_name')
canary('c18-exit-from-linked', 'C18', PROCF, """                .send(Message::Exit {
                    from: handle.pid.clone(),""", """                .send(Message::Exit {
                    from: linked_pid.clone(),""", 'Exit:pid')
canary('c18-reply-to-self', 'C18', GSF, "if let Some(handle) = self.registry.get(&from_pid).await {", "let me = from_pid.clone(); let _ = &me;\n                if let Some(handle) = self.registry.get(&ExternalPid::new(from_pid.node.clone(), 0, 0, 0)).await {", 'gen_server')
canary('c18-link-one-sided', 'C18', NODE, """            if let Some(to_handle) = self.registry.get(to).await {
                to_handle.add_link(from.clone()).await;
            }""", """            if let Some(to_handle) = self.registry.get(to).await {
                to_handle.add_link(to.clone()).await;
            }""", 'Node::link')
canary('c18-propagate-not-awaited', 'C18', PROCF, """        if let Err(e) = propagate_exit_signals(&handle_clone, &registry, exit_reason).await {
            tracing::error!("Failed to propagate exit signals for {}: {}", pid, e);
        }
""", """        let _unawaited = propagate_exit_signals(&handle_clone, &registry, exit_reason);
""", 'DOM:')
canary('c18-early-return-skips-remove', 'C18', PROCF, "        process.terminate().await;\n", "        process.terminate().await;\n        if pid.id == 424242 { return; }\n", 'PAIR:')

# ---- C19 ----
canary('c19-monitor-exit-to-from', 'C19', NODE, """                    && let OwnedTerm::Reference(ref_val) = reference
                    && let Some(handle) = registry.get(&to).await""", """                    && let OwnedTerm::Reference(ref_val) = reference
                    && let Some(handle) = registry.get(&from).await""", 'route_message:MonitorPExit')
canary('c19-decode-breaks', 'C19', NODE, "                            edp_client::Error::Decode(_)\n                                | edp_client::Error::ContextualDecode(_)", "                            edp_client::Error::ContextualDecode(_)", 'Decode->break')
canary('c19-route-error-breaks', 'C19', NODE, """                            tracing::error!("Failed to route message: {}", e);""", """                            tracing::error!("Failed to route message: {}", e);
                            break;""", 'exit-on-ok-arm')
canary('c19-exit-reason-lost', 'C19', NODE, "handle.send(Message::Exit { from, reason }).await?;", "handle.send(Message::Exit { from, reason: OwnedTerm::Nil }).await?; let _ = reason;", 'route_message:Exit')
canary('c19-remove-in-loop', 'C19', NODE, """                        tracing::error!("Error receiving message from {}: {}", remote_node, e);
                        break;""", """                        tracing::error!("Error receiving message from {}: {}", remote_node, e);
                        if remote_node.is_empty() { return; }
                        break;""", 'remove-skipped')
canary('c19-io-continues', 'C19', NODE, "                                | edp_client::Error::Protocol(_)\n", "                                | edp_client::Error::Protocol(_)\n                                | edp_client::Error::Io(_)\n", 'Io->continue')
canary('c19-regsend-by-pid', 'C19', NODE, """                    && let Some(pid) = registry.whereis(&name).await
                    && let Some(handle) = registry.get(&pid).await
                {
                    handle.send(Message::Regular { from: None, body }).await?;""", """                    && let Some(pid) = registry.whereis(&name).await
                    && let Some(handle) = registry.get(&pid).await
                {
                    handle.send(Message::Regular { from: None, body: OwnedTerm::Atom(name.clone()) }).await?; let _ = body;""", 'route_message:RegSend')

# ---- C09 ----
FRAG = 'crates/edp_client/src/fragmentation.rs'
canary('c09-dup-counted', 'C09', FRAG, """                    if self.fragments[idx].is_some() {
                        trace!("Received duplicate fragment {} - ignoring", fragment_id);
                    } else {
                        self.fragments[idx] = Some(data);
                        self.received_count += 1;
                    }""", """                    self.fragments[idx] = Some(data);
                    self.received_count += 1;""", 'count-without-empty-test')
canary('c09-no-transfer', 'C09', FRAG, """                let pending: Vec<_> = self.pending_fragments.drain().collect();
                for (fragment_id, data) in pending {""", """                let pending: Vec<(u64, Vec<u8>)> = Vec::new();
                for (fragment_id, data) in pending {""", 'no-transfer')
canary('c09-cleanup-uncalled', 'C09', CONN, "            self.fragment_assembler.cleanup_expired();\n", "", 'expiry-unreachable')
canary('c09-index-guard', 'C09', FRAG, "                if idx < self.fragments.len() {\n                    if self.fragments[idx].is_some() {", "                if idx <= self.fragments.len() {\n                    if self.fragments[idx].is_some() {", 'PANIC')
canary('c09-wrong-key', 'C09', FRAG, """            msg.add_fragment(fragment_id, payload);
            self.pending.insert(sequence_id, msg);
        }

        None""", """            msg.add_fragment(fragment_id, payload);
            self.pending.insert(SequenceId(fragment_id), msg);
        }

        None""", 'pending.insert:key')
canary('c09-complete-ge', 'C09', FRAG, ".map(|count| self.received_count == count.get() as usize)", ".map(|count| self.received_count + 1 >= count.get() as usize)", 'is_complete')
canary('c09-reassemble-by-ref', 'C09', FRAG, "    fn reassemble(mut self) -> Option<Vec<u8>> {", "    fn reassemble(&mut self) -> Option<Vec<u8>> {", 'reassemble', more=[
    (FRAG, "        for fragment in self.fragments.into_iter().flatten() {", "        for fragment in std::mem::take(&mut self.fragments).into_iter().flatten() {"),
    (FRAG, """                if let Some(msg) = self.pending.remove(&sequence_id) {
                    return msg.reassemble();
                }
            }
            None
        } else {""", """                return msg.reassemble();
            }
            None
        } else {"""),
    (FRAG, """                msg.reassemble()
            } else {""", """                let mut msg = msg; msg.reassemble()
            } else {"""),
    (FRAG, """                if let Some(msg) = self.pending.remove(&sequence_id) {
                    return msg.reassemble();
                }
            }
        } else {""", """                if let Some(mut msg) = self.pending.remove(&sequence_id) {
                    return msg.reassemble();
                }
            }
        } else {""")])

# ---- C02 ----
DEC = 'crates/erltf/src/decoder.rs'
canary('c02-prealloc-list', 'C02', DEC, "    let mut elements = Vec::with_capacity((len as usize).min(input.len()));\n\n    for _ in 0..len {\n        let (new_remaining, term) = parse_term(remaining, cache)?;",
       "    let mut elements = Vec::with_capacity(len as usize);\n\n    for _ in 0..len {\n        let (new_remaining, term) = parse_term(remaining, cache)?;", 'ALLOC:')
canary('c02-prealloc-fun-borrowed', 'C02', DEC, "    let mut free_vars = Vec::with_capacity((num_free as usize).min(input.len()));\n    for i in 0..num_free {",
       "    let mut free_vars = Vec::with_capacity(num_free as usize);\n    for i in 0..num_free {", 'ALLOC:')
canary('c02-inflate-unlimited', 'C02', DEC, "ZlibDecoder::new(rest).take(uncompressed_size as u64 + 1);", "ZlibDecoder::new(rest);", 'unbounded',
       more=[(DEC, "decoder.get_ref().total_in()", "decoder.total_in()")])
canary('c02-local-ext-slice', 'C02', DEC, "let local_ext_bytes_len = 8 + nested_len;", "let local_ext_bytes_len = 9 + nested_len;", 'PANIC:')
canary('c02-flags-len', 'C02', DEC, "let flags_len = (num_atom_cache_refs as usize) / 2 + 1;", "let flags_len = (num_atom_cache_refs as usize) / 2;", 'PANIC:')
canary('c02-flag-index', 'C02', DEC, "let flag_byte_index = i as usize / 2;", "let flag_byte_index = i as usize;", 'PANIC:')
canary('c02-uniq-len', 'C02', DEC, "    let (input, uniq) = take(16usize)(input)?;\n    let (input, index) = be_u32(input)?;\n    let (input, num_free) = be_u32(input)?;\n\n    let (input, module_term) = parse_term(input, cache)?;",
       "    let (input, uniq) = take(15usize)(input)?;\n    let (input, index) = be_u32(input)?;\n    let (input, num_free) = be_u32(input)?;\n\n    let (input, module_term) = parse_term(input, cache)?;", 'copy_from_slice')
canary('c02-refs-u32-count', 'C02', DEC, "fn parse_newer_reference<'a>(input: &'a [u8], cache: &AtomCache) -> NomResult<'a, OwnedTerm> {\n    let (input, len) = be_u16(input)?;",
       "fn parse_newer_reference<'a>(input: &'a [u8], cache: &AtomCache) -> NomResult<'a, OwnedTerm> {\n    let (input, len) = be_u32(input)?;", 'ALLOC:')
canary('c02-unwrap-utf8', 'C02', DEC, """    let (input, bytes) = take(len as usize)(input)?;
    let name = str::from_utf8(bytes)
        .map_err(|_| nom::Err::Failure(NomError::new(input, ErrorKind::Char)))?;
    Ok((input, OwnedTerm::Atom(Atom::new(name))))
}

fn parse_small_atom_utf8""", """    let (input, bytes) = take(len as usize)(input)?;
    let name = str::from_utf8(bytes).unwrap();
    Ok((input, OwnedTerm::Atom(Atom::new(name))))
}

fn parse_small_atom_utf8""", 'unwrap')
canary('c02-binary-prealloc', 'C02', DEC, """    let (input, data) = take(len as usize)(input)?;
    Ok((input, OwnedTerm::Binary(data.to_vec())))""", """    let mut v: Vec<u8> = Vec::with_capacity(len as usize);
    let (input, data) = take(len as usize)(input)?;
    v.extend_from_slice(data);
    Ok((input, OwnedTerm::Binary(v)))""", 'ALLOC:')

# ---- C03 ----
canary('c03-compressed-inner-remainder', 'C03', DEC, "        Ok((remaining, term)) if remaining.is_empty() => term,\n        _ => return Err(nom::Err::Failure(NomError::new(input, ErrorKind::Fail))),",
       "        Ok((_remaining, term)) => term,\n        _ => return Err(nom::Err::Failure(NomError::new(input, ErrorKind::Fail))),", 'inner-remainder')
canary('c02-inflate-limit-global-cap', 'C02', DEC, "ZlibDecoder::new(rest).take(uncompressed_size as u64 + 1);", "ZlibDecoder::new(rest).take(MAX_BINARY_SIZE as u64 + 1);", 'limit-not-declared-size')
canary('c03-drop-v4-port', 'C03', DEC, "        V4_PORT_EXT => parse_v4_port(input, cache),\n", "", 'missing:120')
canary('c03-pid-ext-creation-width', 'C03', DEC, """    let (input, id) = be_u32(input)?;
    let (input, serial) = be_u32(input)?;
    let (input, creation) = be_u8(input)?;
    Ok((
        input,
        OwnedTerm::Pid(ExternalPid::new(node, id, serial, creation as u32)),""", """    let (input, id) = be_u32(input)?;
    let (input, serial) = be_u32(input)?;
    let (input, creation) = be_u32(input)?;
    Ok((
        input,
        OwnedTerm::Pid(ExternalPid::new(node, id, serial, creation)),""", 'WIRE:')
canary('c03-no-trailing-check', 'C03', DEC, """        let (new_remaining, payload) = parse_term(remaining, cache).map_err(from_nom_error)?;
        if !new_remaining.is_empty() {
            return Err(DecodeError::TrailingData(new_remaining.len()));
        }
        Ok((term, Some(payload)))""", """        let (_new_remaining, payload) = parse_term(remaining, cache).map_err(from_nom_error)?;
        Ok((term, Some(payload)))""", 'ok-without-trailing-check')
canary('c03-latin1-as-utf8', 'C03', DEC, """    // ATOM_EXT / SMALL_ATOM_EXT carry Latin-1: every byte is one code point
    let name: String = bytes.iter().map(|&b| b as char).collect();
    Ok((input, OwnedTerm::Atom(Atom::new(name))))
}

fn parse_atom_utf8""", """    let name = str::from_utf8(bytes)
        .map_err(|_| nom::Err::Failure(NomError::new(input, ErrorKind::Char)))?;
    Ok((input, OwnedTerm::Atom(Atom::new(name))))
}

fn parse_atom_utf8""", 'latin1-as-utf8')
canary('c03-pid-fields-swapped', 'C03', DEC, """    let (input, id) = be_u32(input)?;
    let (input, serial) = be_u32(input)?;
    let (input, creation) = be_u32(input)?;

    // NEW_PID_EXT doesn't need raw bytes preserved""", """    let (input, serial) = be_u32(input)?;
    let (input, id) = be_u32(input)?;
    let (input, creation) = be_u32(input)?;

    // NEW_PID_EXT doesn't need raw bytes preserved""", 'field-order')
canary('c03-newer-ref-creation-u8', 'C03', DEC, """    let (input, creation) = be_u32(input)?;

    let mut remaining = input;
    let mut ids = Vec::with_capacity(len as usize);
    for _ in 0..len {
        let (new_remaining, id) = be_u32(remaining)?;
        ids.push(id);
        remaining = new_remaining;
    }

    Ok((
        remaining,
        OwnedTerm::Reference(""", """    let (input, creation) = be_u8(input)?;
    let creation = creation as u32;

    let mut remaining = input;
    let mut ids = Vec::with_capacity(len as usize);
    for _ in 0..len {
        let (new_remaining, id) = be_u32(remaining)?;
        ids.push(id);
        remaining = new_remaining;
    }

    Ok((
        remaining,
        OwnedTerm::Reference(""", 'WIRE:')
canary('c03-map-count-u16', 'C03', DEC, """fn parse_map<'a>(input: &'a [u8], cache: &AtomCache) -> NomResult<'a, OwnedTerm> {
    let (input, arity) = be_u32(input)?;""", """fn parse_map<'a>(input: &'a [u8], cache: &AtomCache) -> NomResult<'a, OwnedTerm> {
    let (input, arity) = be_u16(input)?;""", 'WIRE:')
canary('c03-bigint-loop-off', 'C03', DEC, """    let (input, sign) = be_u8(input)?;
    let (input, digits) = take(n as usize)(input)?;
    Ok((
        input,
        OwnedTerm::BigInt(BigInt::new(sign != 0, digits.to_vec())),
    ))
}

fn parse_large_big(""", """    let (input, digits) = take(n as usize)(input)?;
    let (input, sign) = be_u8(input)?;
    Ok((
        input,
        OwnedTerm::BigInt(BigInt::new(sign != 0, digits.to_vec())),
    ))
}

fn parse_large_big(""", 'WIRE:')
canary('c03-constructor-swap', 'C03', 'crates/erltf/src/types.rs', """        ExternalPid {
            node,
            id,
            serial,
            creation,
            local_ext_bytes: None,
        }""", """        ExternalPid {
            node,
            id: serial,
            serial: id,
            creation,
            local_ext_bytes: None,
        }""", 'param-field')

# ---- C13 ----
canary('c13-borrowed-cap-removed', 'C13', DEC, """    let (input, len) = be_u32(input)?;
    if len as usize > MAX_LIST_SIZE {
        return Err(nom::Err::Failure(NomError::new(input, ErrorKind::TooLarge)));
    }
    let mut remaining = input;
    let mut elements = Vec::with_capacity((len as usize).min(input.len()));

    for i in 0..len {""", """    let (input, len) = be_u32(input)?;
    let mut remaining = input;
    let mut elements = Vec::with_capacity((len as usize).min(input.len()));

    for i in 0..len {""", 'TWIN:')
canary('c13-borrowed-bits', 'C13', DEC, """    if bits == 0 || bits > 8 {
        return Err(nom::Err::Failure(NomError::new(input, ErrorKind::Verify)));
    }
    if len == 0 && bits != 8 {
        return Err(nom::Err::Failure(NomError::new(input, ErrorKind::Verify)));
    }
    let (input, bytes) = take(len as usize)(input)?;
    Ok((
        input,
        BorrowedTerm::BitBinary {""", """    if bits == 0 || bits > 7 {
        return Err(nom::Err::Failure(NomError::new(input, ErrorKind::Verify)));
    }
    if len == 0 && bits != 8 {
        return Err(nom::Err::Failure(NomError::new(input, ErrorKind::Verify)));
    }
    let (input, bytes) = take(len as usize)(input)?;
    Ok((
        input,
        BorrowedTerm::BitBinary {""", 'TWIN:')
canary('c13-borrowed-width', 'C13', DEC, """fn parse_binary_borrowed(input: &[u8]) -> NomResult<'_, BorrowedTerm<'_>> {
    let (input, len) = be_u32(input)?;""", """fn parse_binary_borrowed(input: &[u8]) -> NomResult<'_, BorrowedTerm<'_>> {
    let (input, len) = be_u16(input)?;""", 'TWIN:')
canary('c13-borrowed-drops-port', 'C13', DEC, "        NEW_PORT_EXT => parse_new_port_borrowed(input, original_len, ctx),\n", "", 'missing:89')
canary('c13-to-owned-string-binary', 'C13', 'crates/erltf/src/borrowed.rs', "BorrowedTerm::String(s) => OwnedTerm::String(s.to_string()),", "BorrowedTerm::String(s) => OwnedTerm::Binary(s.as_bytes().to_vec()),", 'TABLE:to_owned')
canary('c13-offset-shape', 'C13', DEC, "    ctx.byte_offset = original_len - input.len();\n    let (input, tag) = be_u8(input)?;", "    ctx.byte_offset = original_len + 1 - input.len();\n    let (input, tag) = be_u8(input)?;", 'byte_offset')
canary('c13-borrowed-variant', 'C13', DEC, """    Ok((input, BorrowedTerm::Binary(Cow::Borrowed(data))))""", """    Ok((input, BorrowedTerm::BitBinary { bytes: Cow::Borrowed(data), bits: 8 }))""", 'TWIN:')

# ---- C01 ----
ENCF = 'crates/erltf/src/encoder.rs'
canary('c01-binary-u16', 'C01', ENCF, """    buf.put_u8(BINARY_EXT);
    buf.put_u32(len);
    buf.put_slice(data);""", """    buf.put_u8(BINARY_EXT);
    buf.put_u16(len as u16);
    buf.put_slice(data);""", 'WIRE:')
canary('c01-atom-guard-removed', 'C01', ENCF, """    if len > u16::MAX as usize {
        return Err(EncodeError::AtomTooLarge { size: len });
    }

    if len > 255 {""", """    if len > 255 {""", 'no-truncation')
canary('c01-tuple-threshold', 'C01', ENCF, "    if elements.len() <= 255 {\n        buf.put_u8(SMALL_TUPLE_EXT);", "    if elements.len() <= 256 {\n        buf.put_u8(SMALL_TUPLE_EXT);", 'no-truncation')
canary('c01-string-as-list-tag', 'C01', ENCF, "    buf.put_u8(BINARY_EXT);\n    buf.put_u32(len);\n    buf.put_slice(data);", "    buf.put_u8(crate::tags::STRING_EXT);\n    buf.put_u32(len);\n    buf.put_slice(data);", 'WIRE:')
canary('c01-pid-field-order', 'C01', ENCF, "        buf.put_u32(pid.id);\n        buf.put_u32(pid.serial);", "        buf.put_u32(pid.serial);\n        buf.put_u32(pid.id);", 'field-order')
canary('c01-float-as-old', 'C01', ENCF, "    buf.put_u8(NEW_FLOAT_EXT);\n    buf.put_f64(value);", "    buf.put_u8(crate::tags::FLOAT_EXT);\n    buf.put_f64(value);", 'WIRE:')
canary('c01-map-missing-value', 'C01', ENCF, """        encode_term_impl(buf, key, cache)?;
        encode_term_impl(buf, value, cache)?;
    }
    Ok(())""", """        encode_term_impl(buf, key, cache)?;
        let _ = value;
    }
    Ok(())""", 'WIRE:')
canary('c01-numfree-field', 'C01', ENCF, "    temp_buf.put_u32(num_free);\n", "    let _ = num_free;\n    temp_buf.put_u32(fun.num_free);\n", 'WIRE:')
canary('c01-ref-count-u8', 'C01', ENCF, "        buf.put_u8(NEWER_REFERENCE_EXT);\n        buf.put_u16(len);", "        buf.put_u8(NEWER_REFERENCE_EXT);\n        buf.put_u8(len as u8);", 'WIRE:')
canary('c01-fun-old-index-integer-only', 'C01', 'crates/erltf/src/decoder.rs',
       """        OwnedTerm::Integer(i) => u32::try_from(i).ok(),
        OwnedTerm::BigInt(ref big) => u32_from_bigint(big),
        _ => None,""",
       """        OwnedTerm::Integer(i) => u32::try_from(i).ok(),
        _ => None,""", 'nested-integer')
canary('c01-nil-as-string-variant', 'C01', ENCF, "        OwnedTerm::String(s) => encode_string(buf, s),", "        OwnedTerm::String(s) => encode_atom_impl(buf, &Atom::new(s), cache),", 'FLOW:')

# ---- C10 ----
TYP = 'crates/erltf/src/types.rs'
BOR = 'crates/erltf/src/borrowed.rs'
canary('c10-hash-raw', 'C10', TYP, """        self.node.hash(state);
        self.id.hash(state);
        self.serial.hash(state);
        self.creation.hash(state);""", """        self.node.hash(state);
        self.id.hash(state);
        self.serial.hash(state);
        self.creation.hash(state);
        self.local_ext_bytes.hash(state);""", 'uses-raw-bytes')
canary('c10-to-owned-rebuild', 'C10', BOR, "BorrowedTerm::Pid(p) => OwnedTerm::Pid(p.clone()),", "BorrowedTerm::Pid(p) => OwnedTerm::Pid(ExternalPid::new(p.node.clone(), p.id, p.serial, p.creation)),", 'rebuilds-Pid')
canary('c10-encoder-ignores-raw', 'C10', ENCF, """    if let Some(ref local_ext_bytes) = port.local_ext_bytes {
        buf.put_u8(LOCAL_EXT);
        buf.put_slice(local_ext_bytes);
    } else {
        buf.put_u8(V4_PORT_EXT);""", """    if port.local_ext_bytes.is_some() && port.id == u64::MAX {
        buf.put_u8(LOCAL_EXT);
    } else {
        buf.put_u8(V4_PORT_EXT);""", 'WIRE:')
canary('c10-capture-short', 'C10', DEC, "let local_ext_bytes_len = 8 + nested_len;", "let local_ext_bytes_len = nested_len;", 'capture')
canary('c10-port-eq-ignores-creation', 'C10', TYP, "impl PartialEq for ExternalPort {\n    fn eq(&self, other: &Self) -> bool {\n        self.node == other.node && self.id == other.id && self.creation == other.creation", "impl PartialEq for ExternalPort {\n    fn eq(&self, other: &Self) -> bool {\n        self.node == other.node && self.id == other.id", 'FIELDSET:')
canary('c10-reference-not-captured', 'C10', DEC, """        OwnedTerm::Reference(reference) => {
            OwnedTerm::Reference(ExternalReference::with_local_ext_bytes(
                reference.node,
                reference.creation,
                reference.ids,
                local_ext_bytes,
            ))
        }""", """        OwnedTerm::Reference(reference) => {
            let _ = &local_ext_bytes;
            OwnedTerm::Reference(reference)
        }""", 'no-capture')

# ---- C11 / C12 ----
TERM = 'crates/erltf/src/term.rs'
canary('c11-nil-list-greater', 'C11', TERM, """                (OwnedTerm::Nil, OwnedTerm::List(b)) => {
                    if b.is_empty() {
                        Ordering::Equal
                    } else {
                        Ordering::Less
                    }
                }""", """                (OwnedTerm::Nil, OwnedTerm::List(b)) => {
                    if b.is_empty() {
                        Ordering::Equal
                    } else {
                        Ordering::Greater
                    }
                }""", 'MIRROR:')
canary('c11-drop-bigint-float-arm', 'C11', TERM, "                (OwnedTerm::BigInt(a), OwnedTerm::Float(b)) => compare_bigint_float(a, *b),\n", "", 'PAIRS:')
canary('c11-borrowed-helper-drift', 'C11', BOR, """        if big.digits.len() > 8 {
            return Ordering::Greater;
        }
        let abs_i = i.wrapping_neg() as u64;""", """        if big.digits.len() > 7 {
            return Ordering::Greater;
        }
        let abs_i = i.wrapping_neg() as u64;""", 'TWIN:helper')
canary('c11-hash-bits-again', 'C11', TERM, "                let f = if *f == 0.0 { 0.0 } else { *f };\n", "                let f = *f;\n", 'EQHASH')
canary('c11-funs-const', 'C11', TERM, "                (OwnedTerm::InternalFun(_), OwnedTerm::ExternalFun(_)) => Ordering::Greater,", "                (OwnedTerm::InternalFun(_), OwnedTerm::ExternalFun(_)) => Ordering::Less,", 'MIRROR:')
canary('c11-borrowed-arm-differs', 'C11', BOR, "                (BorrowedTerm::Integer(a), BorrowedTerm::Float(b)) => compare_int_float(*a, *b),", "                (BorrowedTerm::Integer(a), BorrowedTerm::Float(b)) => compare_float_int(*b, *a),", 'TWIN:cmp')
canary('c12-swap-port-pid', 'C12', TERM, "        OwnedTerm::Port(_) => 4,\n        OwnedTerm::Pid(_) => 5,", "        OwnedTerm::Port(_) => 5,\n        OwnedTerm::Pid(_) => 4,", 'rank')
canary('c12-bigint-lsb', 'C12', TERM, ".then_with(|| a.digits.iter().rev().cmp(b.digits.iter().rev())),", ".then_with(|| a.digits.cmp(&b.digits)),", 'lsb-first')
canary('c12-map-interleaved', 'C12', TERM, """                    for (k1, k2) in a.keys().zip(b.keys()) {
                        match k1.cmp(k2) {
                            Ordering::Equal => continue,
                            other => return other,
                        }
                    }
                    for (v1, v2) in a.values().zip(b.values()) {
                        match v1.cmp(v2) {
                            Ordering::Equal => continue,
                            other => return other,
                        }
                    }""", """                    for ((k1, v1), (k2, v2)) in a.iter().zip(b.iter()) {
                        match k1.cmp(k2) {
                            Ordering::Equal => match v1.cmp(v2) {
                                Ordering::Equal => continue,
                                other => return other,
                            },
                            other => return other,
                        }
                    }""", 'interleaved')
canary('c12-tuple-elements-first', 'C12', TERM, """                (OwnedTerm::Tuple(a), OwnedTerm::Tuple(b)) => {
                    a.len().cmp(&b.len()).then_with(|| {
                        for (x, y) in a.iter().zip(b.iter()) {
                            match x.cmp(y) {
                                Ordering::Equal => continue,
                                other => return other,
                            }
                        }
                        Ordering::Equal
                    })
                }""", """                (OwnedTerm::Tuple(a), OwnedTerm::Tuple(b)) => {
                    for (x, y) in a.iter().zip(b.iter()) {
                        match x.cmp(y) {
                            Ordering::Equal => continue,
                            other => return other,
                        }
                    }
                    a.len().cmp(&b.len())
                }""", 'size-first')
canary('c12-borrowed-rank', 'C12', BOR, "                BorrowedTerm::Map(_) => 7,", "                BorrowedTerm::Map(_) => 5,", 'rank')

# ---- C14 ----
canary('c14-const-mask-writer', 'C14', ENCF, "let long_atoms_mask = if atoms.len() % 2 == 0 { 0x01 } else { 0x10 };", "let long_atoms_mask = 0x01;", 'constant-longatoms-mask')
canary('c14-const-mask-reader', 'C14', DEC, """    let long_atoms_mask = if num_atom_cache_refs % 2 == 0 {
        0x01
    } else {
        0x10
    };""", "    let long_atoms_mask = 0x01;", 'constant-longatoms-mask')
canary('c14-no-header-when-empty', 'C14', ENCF, "        buf.put_u8(VERSION);\n        buf.put_u8(DIST_HEADER);\n        buf.put_u8(0);\n", "        buf.put_u8(VERSION);\n", 'no-header')
canary('c14-flags-len-writer', 'C14', ENCF, "let flags_len = (atoms.len() / 2) + 1;", "let flags_len = (atoms.len() + 1) / 2;", 'flags-length')
canary('c14-fresh-cache', 'C14', CONN, "decoder::decode_with_atom_cache(&data, &mut self.atom_cache)?;", "decoder::decode_with_atom_cache(&data, &mut AtomCache::new())?;", 'fresh-cache')
canary('c14-atom-len-unguarded', 'C14', ENCF, """        if atom_len > u16::MAX as usize {
            return Err(EncodeError::AtomTooLarge { size: atom_len });
        }
""", "", 'C14.4-cast')

# ---- C06 ----
canary('c06-index-unguarded', 'C06', CONN, "if complete_data.len() >= 2\n            && complete_data[0] == VERSION_TAG", "if complete_data[0] == VERSION_TAG", 'PANIC:')
canary('c06-frag-len-check-removed', 'C06', CONN, """                if remaining.len() < header.num_atom_cache_refs as usize {
                    return Err(Error::Protocol(format!(
                        "Fragment header announces {} bytes of atom cache data, only {} bytes follow",
                        header.num_atom_cache_refs,
                        remaining.len()
                    )));
                }
""", "", 'PANIC:')
canary('c06-tick-returned', 'C06', CONN, """            if data.is_empty() {
                trace!("Received tick (heartbeat), continuing...");
                continue;
            }""", """            if data.is_empty() {
                trace!("Received tick (heartbeat), continuing...");
                return Err(Error::Protocol("tick".to_string()));
            }""", 'tick-returns')
canary('c06-node-tick-removed', 'C06', CONN, """            if len == 0 {
                trace!("Received tick (heartbeat), continuing...");
                continue;
            }

            if len > MAX_MESSAGE_SIZE {
                return Err(Error::MessageTooLarge {""", """            if len > MAX_MESSAGE_SIZE {
                return Err(Error::MessageTooLarge {""", 'tick')
canary('c06-marker-value', 'C06', CONN, "const DIST_FRAG_CONT: u8 = 70;", "const DIST_FRAG_CONT: u8 = 71;", 'CONST:')
canary('c06-fresh-assembler', 'C06', CONN, """                if let Some(complete_data) = self.fragment_assembler.add_fragment(""", """                if let Some(complete_data) = FragmentAssembler::new().add_fragment(""", 'assembler')
canary('c06-passthrough-slice', 'C06', CONN, "            let (control_term, message) = if !data.is_empty() && data[0] == PASS_THROUGH {", "            let (control_term, message) = if data[1] == PASS_THROUGH || data[0] == PASS_THROUGH {", 'PANIC:')

# ---- C07 ----
canary('c07-link-no-gate', 'C07', CONN, """    pub async fn link(&mut self, from_pid: &ExternalPid, to_pid: &ExternalPid) -> Result<()> {
        if !self.is_connected() {
            return Err(Error::InvalidState {
                state: self.state(),
            });
        }
""", """    pub async fn link(&mut self, from_pid: &ExternalPid, to_pid: &ExternalPid) -> Result<()> {
""", 'write-before-connected')
canary('c07-link-swapped', 'C07', CONN, """        let control = ControlMessage::Link {
            from_pid: OwnedTerm::Pid(from_pid.clone()),
            to_pid: OwnedTerm::Pid(to_pid.clone()),
        };""", """        let control = ControlMessage::Link {
            from_pid: OwnedTerm::Pid(to_pid.clone()),
            to_pid: OwnedTerm::Pid(from_pid.clone()),
        };""", 'TABLE:')
canary('c07-len-off-by-one', 'C07', CONN, "                let total_len = 1 + control_encoded.len();\n", "                let total_len = control_encoded.len();\n", 'WIRE:')
canary('c07-unlink-as-unlink', 'C07', CONN, """        let control = ControlMessage::UnlinkId {
            id: unlink_id,
            from_pid: OwnedTerm::Pid(from_pid.clone()),
            to_pid: OwnedTerm::Pid(to_pid.clone()),
        };""", """        let _ = unlink_id;
        let control = ControlMessage::Unlink {
            from_pid: OwnedTerm::Pid(from_pid.clone()),
            to_pid: OwnedTerm::Pid(to_pid.clone()),
        };""", 'TABLE:')
canary('c07-monitor-payload', 'C07', CONN, """            reference: OwnedTerm::Reference(reference.clone()),
        };

        self.send_control_message(control, None).await
    }

    pub async fn demonitor(""", """            reference: OwnedTerm::Reference(reference.clone()),
        };

        self.send_control_message(control, Some(OwnedTerm::Nil)).await
    }

    pub async fn demonitor(""", 'TABLE:')
canary('c07-mode-inverted', 'C07', CONN, ".map(|f| !f.has(DistributionFlags::DIST_HDR_ATOM_CACHE))", ".map(|f| !f.has(DistributionFlags::DIST_MONITOR))", 'mode-selection')
canary('c07-passthrough-marker', 'C07', CONN, "                stream.write_u32(frame_len(total_len)?).await?;\n                stream.write_u8(PASS_THROUGH).await?;\n                stream.write_all(&control_encoded).await?;\n                stream.flush().await?;", "                stream.write_u32(total_len as u32).await?;\n                stream.write_u8(DIST_HEADER).await?;\n                stream.write_all(&control_encoded).await?;\n                stream.flush().await?;", 'WIRE:')

# ---- C15 ----
DEF = 'crates/erltf_serde/src/de.rs'
SERF = 'crates/erltf_serde/src/ser.rs'
canary('c15-u64-no-bigint', 'C15', DEF, """            OwnedTerm::BigInt(big) if big.sign.is_positive() && big.digits.len() <= 8 => {
                let mut bytes = [0u8; 8];
                bytes[..big.digits.len()].copy_from_slice(&big.digits);
                let value = u64::from_le_bytes(bytes);
                visitor.visit_u64(value)
            }
""", "", 'CLOSURE:u64')
canary('c15-unit-atom', 'C15', SERF, """    fn serialize_unit(self) -> Result<OwnedTerm> {
        Ok(OwnedTerm::Atom(Atom::new("nil")))""", """    fn serialize_unit(self) -> Result<OwnedTerm> {
        Ok(OwnedTerm::Atom(Atom::new("unit")))""", 'CONST:serde:unit')
canary('c15-i64-bigint-dropped', 'C15', DEF, """            OwnedTerm::BigInt(big) => bigint_to_i64(big)
                .ok_or_else(|| Error::InvalidValue("big integer out of range for i64".into()))
                .and_then(|v| visitor.visit_i64(v)),
""", "", 'CLOSURE:i64')
canary('c15-str-as-string-variant', 'C15', SERF, "        Ok(OwnedTerm::Binary(v.as_bytes().to_vec()))\n    }\n\n    fn serialize_bytes", "        Ok(OwnedTerm::List(v.bytes().map(|b| OwnedTerm::Integer(b as i64)).collect()))\n    }\n\n    fn serialize_bytes", 'CLOSURE:str')
canary('c15-seq-rejects-nil', 'C15', DEF, """            OwnedTerm::List(l) => visitor.visit_seq(SeqDeserializer::new(l)),
            OwnedTerm::Nil => visitor.visit_seq(SeqDeserializer::new(&[])),
            _ => Err(Error::TypeMismatch {
                expected: "list".into(),""", """            OwnedTerm::List(l) => visitor.visit_seq(SeqDeserializer::new(l)),
            _ => Err(Error::TypeMismatch {
                expected: "list".into(),""", 'CLOSURE:seq')
canary('c15-struct-variant-shape', 'C15', SERF, """        Ok(OwnedTerm::Tuple(vec![
            OwnedTerm::Atom(Atom::new(self.name)),
            OwnedTerm::Map(self.map),
        ]))""", """        let mut m = self.map;
        m.insert(OwnedTerm::Atom(Atom::new("__variant__")), OwnedTerm::Atom(Atom::new(self.name)));
        Ok(OwnedTerm::Map(m))""", 'TABLE:serde:struct_variant')
canary('c15-char-binary-dropped', 'C15', DEF, """            // strings travel as binaries on the wire
            OwnedTerm::Binary(b) => {
                let s = str::from_utf8(b).map_err(|e| Error::InvalidValue(e.to_string()))?;
                let mut chars = s.chars();
                if let Some(c) = chars.next()
                    && chars.next().is_none()
                {
                    return visitor.visit_char(c);
                }
                Err(Error::InvalidValue("expected single char".into()))
            }
""", "", 'CLOSURE:char')

# ---- C20 ----
RNG = 'crates/edp_elixir_terms/src/range.rs'
DT = 'crates/edp_elixir_terms/src/date_time.rs'
canary('c20-step-key', 'C20', RNG, """            OwnedTerm::Atom(Atom::new("step")),
            OwnedTerm::Integer(range.step),""", """            OwnedTerm::Atom(Atom::new("stride")),
            OwnedTerm::Integer(range.step),""", 'CONST:')
canary('c20-truncating-cast', 'C20', DT, 'let day = u8::try_from(map.get(&OwnedTerm::Atom(Atom::new("day")))?.as_integer()?).ok()?;\n\n        Self::try_new(year, month, day)', 'let day = map.get(&OwnedTerm::Atom(Atom::new("day")))?.as_integer()? as u8;\n\n        Self::try_new(year, month, day)', 'no-truncation')
canary('c20-unvalidated', 'C20', DT, "        Self::try_new(year, month, day)\n    }\n}", "        Some(Self { year, month, day })\n    }\n}", 'unvalidated-literal')
canary('c20-len-i64', 'C20', RNG, "        let diff = (self.last as i128 - self.first as i128).unsigned_abs();", "        let diff = ((self.last - self.first) as i128).unsigned_abs();", 'OVERFLOW:')
canary('c20-contains-neg', 'C20', RNG, "                && (self.first as i128 - value as i128) % (-(self.step as i128)) == 0", "                && (self.first as i128 - value as i128) % ((-self.step) as i128) == 0", 'OVERFLOW:')
canary('c20-struct-name', 'C20', 'crates/edp_elixir_terms/src/map_set.rs', 'OwnedTerm::Atom(Atom::new("Elixir.MapSet")),', 'OwnedTerm::Atom(Atom::new("Elixir.Mapset")),', 'CONST:')
canary('c06-per-call-bufreader', 'C06', 'crates/edp_client/src/framing.rs',
       "    pub async fn read_framed<R: AsyncRead + Unpin>(&self, reader: &mut R) -> io::Result<Vec<u8>> {\n",
       "    pub async fn read_framed<R: AsyncRead + Unpin>(&self, reader: &mut R) -> io::Result<Vec<u8>> {\n        let mut reader = tokio::io::BufReader::new(reader);\n", 'local-reader')
canary('c05-per-call-bufreader', 'C05', 'crates/edp_client/src/framing.rs',
       "    pub async fn read_framed<R: AsyncRead + Unpin>(&self, reader: &mut R) -> io::Result<Vec<u8>> {\n",
       "    pub async fn read_framed<R: AsyncRead + Unpin>(&self, reader: &mut R) -> io::Result<Vec<u8>> {\n        let mut reader = tokio::io::BufReader::new(reader);\n", 'local-reader')
canary('c10-fun-pid-inline', 'C10', ENCF, "    encode_pid_impl(&mut temp_buf, &fun.pid, cache)?;\n",
       "    temp_buf.put_u8(NEW_PID_EXT);\n    encode_atom_impl(&mut temp_buf, &fun.pid.node, cache)?;\n    temp_buf.put_u32(fun.pid.id);\n    temp_buf.put_u32(fun.pid.serial);\n    temp_buf.put_u32(fun.pid.creation);\n",
       'inline-identifier-tag')
canary('c10-term-cmp-pid-no-serial', 'C10', 'crates/erltf/src/term.rs', "                    .then_with(|| a.id.cmp(&b.id))\n                    .then_with(|| a.serial.cmp(&b.serial))\n",
       "                    .then_with(|| a.id.cmp(&b.id))\n", 'OwnedTerm_as_core::cmp::Ord>::cmp:Pid:fields')
canary('c10-term-cmp-self', 'C10', 'crates/erltf/src/borrowed.rs', "a.serial.cmp(&b.serial)", "a.serial.cmp(&a.serial)", 'SELFCMP')
canary('c12-map-entries-cmp', 'C12', 'crates/erltf/src/term.rs', """                    for (k1, k2) in a.keys().zip(b.keys()) {
                        match k1.cmp(k2) {
                            Ordering::Equal => continue,
                            other => return other,
                        }
                    }
                    for (v1, v2) in a.values().zip(b.values()) {
                        match v1.cmp(v2) {
                            Ordering::Equal => continue,
                            other => return other,
                        }
                    }
                    Ordering::Equal""", "                    a.iter().cmp(b.iter())", 'Map:interleaved')
canary('c12-map-then-with', 'C12', 'crates/erltf/src/term.rs', """                    for (k1, k2) in a.keys().zip(b.keys()) {
                        match k1.cmp(k2) {
                            Ordering::Equal => continue,
                            other => return other,
                        }
                    }
                    for (v1, v2) in a.values().zip(b.values()) {
                        match v1.cmp(v2) {""", """                    for ((k1, v1), (k2, v2)) in a.iter().zip(b.iter()) {
                        match k1.cmp(k2).then_with(|| v1.cmp(v2)) {""", 'Map:interleaved')
canary('c12-bigint-neg-len-direct', 'C12', 'crates/erltf/src/term.rs', """            .then_with(|| a.digits.iter().rev().cmp(b.digits.iter().rev()))
            .reverse(),""", """            .then_with(|| b.digits.iter().rev().cmp(a.digits.iter().rev())),""", 'orientation')
canary('c12-bigint-mixed-sign', 'C12', 'crates/erltf/src/borrowed.rs', "(Sign::Positive, Sign::Negative) => Ordering::Greater,", "(Sign::Positive, Sign::Negative) => Ordering::Less,", 'signs:Positive-Negative')
canary('c11-pid-derive-hash', 'C11', 'crates/erltf/src/types.rs', """impl Hash for ExternalPid {
    fn hash<H: Hasher>(&self, state: &mut H) {
        self.node.hash(state);""", """impl Hash for ExternalPid {
    fn hash<H: Hasher>(&self, state: &mut H) {
        self.local_ext_bytes.hash(state);
        self.node.hash(state);""", 'EQHASH')
canary('c13-borrowed-cmp-self', 'C13', 'crates/erltf/src/borrowed.rs', "a.serial.cmp(&b.serial)", "a.serial.cmp(&a.serial)", 'SELFCMP')
canary('c13-borrowed-cmp-no-serial', 'C13', 'crates/erltf/src/borrowed.rs', "                    .then_with(|| a.id.cmp(&b.id))\n                    .then_with(|| a.serial.cmp(&b.serial))\n",
       "                    .then_with(|| a.id.cmp(&b.id))\n", 'TWIN:order-fields')
canary('c11-cmp-wrong-field', 'C11', 'crates/erltf/src/term.rs', "a.serial.cmp(&b.serial)", "a.serial.cmp(&b.creation)", 'CMPFIELDS')
canary('c14-long-atoms-by-chars', 'C14', ENCF, "let long_atoms = atoms.iter().any(|a| a.name.len() > 255);", "let long_atoms = atoms.iter().any(|a| a.name.chars().count() > 255);", 'PREMISE')
canary('c01-long-atoms-by-chars', 'C01', ENCF, "let long_atoms = atoms.iter().any(|a| a.name.len() > 255);", "let long_atoms = atoms.iter().any(|a| a.name.chars().count() > 255);", 'PREMISE')
canary('c14-too-many-atoms-256', 'C14', ENCF, "    if atom_set.len() > 255 {", "    if atom_set.len() > 256 {", 'PREMISE')
canary('c14-scratch-cache-dropped', 'C14', DEC, "    let (remaining, term) = parse_versioned_term_with_cache(data, cache).map_err(from_nom_error)?;",
       "    let mut scratch = cache.clone();\n    let (remaining, term) = parse_versioned_term_with_cache(data, &mut scratch).map_err(from_nom_error)?;", 'cache-copy-not-written-back')
canary('c15-option-nil-is-none', 'C15', 'crates/erltf_serde/src/de.rs', "            _ => visitor.visit_some(self),\n", "            OwnedTerm::Nil => visitor.visit_none(),\n            _ => visitor.visit_some(self),\n", 'none-for:Nil')

# ---- behaviour-preserving refactorings (must stay silent) ----
_KEY_HELPER = [(NODE, """    async fn route_message(""", """    fn rpc_key(pid: &ExternalPid) -> String {
        format!("{}.{}.{}", pid.id, pid.serial, pid.creation)
    }

    async fn route_message("""),
               (NODE, """        let pid_str = format!(
            "{}.{}.{}",
            reply_to_pid.id, reply_to_pid.serial, reply_to_pid.creation
        );""", """        let pid_str = Self::rpc_key(&reply_to_pid);""")]
benign('benign-c17-key-helper', 'C17', NODE, """                        let pid_str = format!("{}.{}.{}", pid.id, pid.serial, pid.creation);""", """                        let pid_str = Self::rpc_key(&pid);""", more=_KEY_HELPER)
benign('benign-c19-key-helper', 'C19', NODE, """                        let pid_str = format!("{}.{}.{}", pid.id, pid.serial, pid.creation);""", """                        let pid_str = Self::rpc_key(&pid);""", more=_KEY_HELPER)
canary('c17-key-without-creation', 'C17', NODE, """                        let pid_str = format!("{}.{}.{}", pid.id, pid.serial, pid.creation);""", """                        let pid_str = format!("{}.{}", pid.id, pid.serial);""", 'rpc-key-fields',
       more=[(NODE, """        let pid_str = format!(
            "{}.{}.{}",
            reply_to_pid.id, reply_to_pid.serial, reply_to_pid.creation
        );""", """        let pid_str = format!("{}.{}", reply_to_pid.id, reply_to_pid.serial);""")])
canary('c19-deadline-before-loop', 'C19', 'crates/edp_client/src/connection.rs', """        loop {
            let len = {
                trace!("Attempting to read message length (4 bytes, distribution protocol)...");
                let mut len_bytes = [0u8; 4];
                tokio::time::timeout(timeout, read_half.read_exact(&mut len_bytes))""", """        let deadline = tokio::time::Instant::now() + timeout;
        loop {
            let len = {
                trace!("Attempting to read message length (4 bytes, distribution protocol)...");
                let mut len_bytes = [0u8; 4];
                tokio::time::timeout_at(deadline, read_half.read_exact(&mut len_bytes))""", 'deadline-outside-loop')
canary('c19-route-key-no-creation', 'C19', NODE, """                        let pid_str = format!("{}.{}.{}", pid.id, pid.serial, pid.creation);""", """                        let pid_str = format!("{}.{}.{}", pid.id, pid.serial, 0);""", 'route-rpc-key')
canary('c20-contains-anchor-last', 'C20', 'crates/edp_elixir_terms/src/range.rs', "                && (self.first as i128 - value as i128) % (-(self.step as i128)) == 0", "                && (value as i128 - self.last as i128) % (-(self.step as i128)) == 0", 'anchor-last')
canary('c20-component-helper-truncates', 'C20', 'crates/edp_elixir_terms/src/date_time.rs', """        let month = u8::try_from(
            map.get(&OwnedTerm::Atom(Atom::new("month")))?
                .as_integer()?,
        )
        .ok()?;""", """        let month = small_component(map.get(&OwnedTerm::Atom(Atom::new("month")))?.as_integer()?)?;""", 'no-truncation',
       more=[('crates/edp_elixir_terms/src/date_time.rs', "/// Represents an Elixir Date (`~D[2025-12-25]`).", "fn small_component(value: i64) -> Option<u8> {\n    if value < 0 {\n        return None;\n    }\n    Some(value as u8)\n}\n\n/// Represents an Elixir Date (`~D[2025-12-25]`).")])
canary('c18-remove-first-name-only', 'C18', 'crates/edp_node/src/registry.rs', "        self.by_name.write().await.retain(|_, p| p != pid);", """        let mut names = self.by_name.write().await;
        let name = names.iter().find_map(|(name, p)| (p == pid).then(|| name.clone()));
        if let Some(name) = name {
            names.remove(&name);
        }""", 'single-name')
canary('c18-notice-try-send', 'C18', 'crates/edp_node/src/process.rs', """            let _ = linked_handle
                .send(Message::Exit {
                    from: handle.pid.clone(),
                    reason: reason.clone(),
                })
                .await;""", """            let _ = linked_handle.mailbox_sender.try_send(Message::Exit {
                from: handle.pid.clone(),
                reason: reason.clone(),
            });""", 'lossy-delivery')
benign('benign-c11-helper-relayout', 'C11', 'crates/erltf/src/term.rs', "        result |= (byte as u64) << (i * 8);", "        let shifted = (byte as u64) << (i * 8);\n        result |= shifted;")
_NN_OLD = """            .then_with(|| a.digits.iter().rev().cmp(b.digits.iter().rev()))
            .reverse(),"""
_NN_NEW = """            .then_with(|| a.digits.iter().rev().cmp(b.digits.iter().rev())),"""
benign('benign-c12-negatives-swapped', 'C12', 'crates/erltf/src/term.rs', """        (Sign::Negative, Sign::Negative) => a
            .digits
            .len()
            .cmp(&b.digits.len())
            .then_with(|| a.digits.iter().rev().cmp(b.digits.iter().rev()))
            .reverse(),""", """        (Sign::Negative, Sign::Negative) => b
            .digits
            .len()
            .cmp(&a.digits.len())
            .then_with(|| b.digits.iter().rev().cmp(a.digits.iter().rev())),""",
       more=[('crates/erltf/src/borrowed.rs', """        (Sign::Negative, Sign::Negative) => a
            .digits
            .len()
            .cmp(&b.digits.len())
            .then_with(|| a.digits.iter().rev().cmp(b.digits.iter().rev()))
            .reverse(),""", """        (Sign::Negative, Sign::Negative) => b
            .digits
            .len()
            .cmp(&a.digits.len())
            .then_with(|| b.digits.iter().rev().cmp(a.digits.iter().rev())),""")])
benign('benign-c18-remove-names-loop', 'C18', 'crates/edp_node/src/registry.rs', "        self.by_name.write().await.retain(|_, p| p != pid);", """        let mut names = self.by_name.write().await;
        let doomed: Vec<_> = names.iter().filter(|(_, p)| *p == pid).map(|(n, _)| n.clone()).collect();
        for n in doomed {
            names.remove(&n);
        }""")
benign('benign-c14-scratch-cache-committed', 'C14', DEC, """    let (remaining, term) = parse_versioned_term_with_cache(data, cache).map_err(from_nom_error)?;

    if !remaining.is_empty() {
        let (new_remaining, payload) = parse_term(remaining, cache).map_err(from_nom_error)?;
        if !new_remaining.is_empty() {
            return Err(DecodeError::TrailingData(new_remaining.len()));
        }
        Ok((term, Some(payload)))
    } else {
        Ok((term, None))
    }""", """    let mut scratch = cache.clone();
    let parsed = parse_versioned_term_with_cache(data, &mut scratch).map_err(from_nom_error);
    *cache = scratch;
    let (remaining, term) = parsed?;

    if !remaining.is_empty() {
        let (new_remaining, payload) = parse_term(remaining, cache).map_err(from_nom_error)?;
        if !new_remaining.is_empty() {
            return Err(DecodeError::TrailingData(new_remaining.len()));
        }
        Ok((term, Some(payload)))
    } else {
        Ok((term, None))
    }""")
# the same with the copy written back on the successful way only: the entries of a header whose control term is refused are lost,
# although the peer has entered them (demonstrated by seeded/C03-19 and seeded/C08-20) - until round 10 this was wrongly listed as benign
canary('c14-scratch-cache-committed-on-success-only', 'C14', DEC, """    let (remaining, term) = parse_versioned_term_with_cache(data, cache).map_err(from_nom_error)?;

    if !remaining.is_empty() {
        let (new_remaining, payload) = parse_term(remaining, cache).map_err(from_nom_error)?;""", """    let mut scratch = cache.clone();
    let (remaining, term) = parse_versioned_term_with_cache(data, &mut scratch).map_err(from_nom_error)?;
    *cache = scratch;

    if !remaining.is_empty() {
        let (new_remaining, payload) = parse_term(remaining, cache).map_err(from_nom_error)?;""", 'cache-copy-not-written-back')
benign('benign-c19-deadline-per-iteration', 'C19', 'crates/edp_client/src/connection.rs', """                let mut len_bytes = [0u8; 4];
                tokio::time::timeout(timeout, read_half.read_exact(&mut len_bytes))""", """                let mut len_bytes = [0u8; 4];
                let now = tokio::time::Instant::now();
                let deadline = now.checked_add(timeout).unwrap_or(now + Duration::from_secs(86400 * 365 * 30));
                tokio::time::timeout_at(deadline, read_half.read_exact(&mut len_bytes))""")
benign('benign-c03-inner-remainder-if', 'C03', DEC, """    let owned_term = match parse_term(&decompressed, cache) {
        Ok((remaining, term)) if remaining.is_empty() => term,
        _ => return Err(nom::Err::Failure(NomError::new(input, ErrorKind::Fail))),
    };""", """    let (remaining, owned_term) = match parse_term(&decompressed, cache) {
        Ok(x) => x,
        Err(_) => return Err(nom::Err::Failure(NomError::new(input, ErrorKind::Fail))),
    };
    if !remaining.is_empty() {
        return Err(nom::Err::Failure(NomError::new(input, ErrorKind::Fail)));
    }""")
benign('benign-c02-inflate-exact-limit', 'C02', DEC, "ZlibDecoder::new(rest).take(uncompressed_size as u64 + 1);", "ZlibDecoder::new(rest).take(u64::from(uncompressed_size) + 1);")
benign('benign-c07-gate-helper', 'C07', 'crates/edp_client/src/connection.rs', """        message: OwnedTerm,
    ) -> Result<()> {
        if !self.is_connected() {
            return Err(Error::InvalidState {
                state: self.state(),
            });
        }

        let control = ControlMessage::Send {""", """        message: OwnedTerm,
    ) -> Result<()> {
        self.ensure_connected()?;

        let control = ControlMessage::Send {""",
       more=[('crates/edp_client/src/connection.rs', "    pub async fn send_raw(&mut self, data: &[u8]) -> Result<()> {", """    fn ensure_connected(&self) -> Result<()> {
        if !self.is_connected() {
            return Err(Error::InvalidState {
                state: self.state(),
            });
        }
        Ok(())
    }

    pub async fn send_raw(&mut self, data: &[u8]) -> Result<()> {""")])
benign('benign-c20-component-helper', 'C20', 'crates/edp_elixir_terms/src/date_time.rs', """        let month = u8::try_from(
            map.get(&OwnedTerm::Atom(Atom::new("month")))?
                .as_integer()?,
        )
        .ok()?;""", """        let month = small_component(map.get(&OwnedTerm::Atom(Atom::new("month")))?.as_integer()?)?;""",
       more=[('crates/edp_elixir_terms/src/date_time.rs', "/// Represents an Elixir Date (`~D[2025-12-25]`).", "fn small_component(value: i64) -> Option<u8> {\n    u8::try_from(value).ok()\n}\n\n/// Represents an Elixir Date (`~D[2025-12-25]`).")])
benign('benign-c02-no-prealloc', 'C02', DEC, "    let mut elements = Vec::with_capacity((len as usize).min(input.len()));", "    let mut elements = Vec::new();")
benign('benign-c15-option-arms-reordered', 'C15', 'crates/erltf_serde/src/de.rs', "            _ => visitor.visit_some(self),\n", "            OwnedTerm::Nil => visitor.visit_some(self),\n            _ => visitor.visit_some(self),\n")
benign('benign-c01-integer-range-contains', 'C01', ENCF, "    } else if value >= i32::MIN as i64 && value <= i32::MAX as i64 {\n        buf.put_u8(INTEGER_EXT);\n        buf.put_i32(value as i32);",
       "    } else if let Ok(small) = i32::try_from(value) {\n        buf.put_u8(INTEGER_EXT);\n        buf.put_i32(small);")
benign('benign-c15-integer-range-contains', 'C15', ENCF, "    } else if value >= i32::MIN as i64 && value <= i32::MAX as i64 {\n        buf.put_u8(INTEGER_EXT);\n        buf.put_i32(value as i32);",
       "    } else if (i64::from(i32::MIN)..=i64::from(i32::MAX)).contains(&value) {\n        buf.put_u8(INTEGER_EXT);\n        buf.put_i32(value as i32);")
benign('benign-c10-pid-match', 'C10', ENCF, """    if let Some(local_bytes) = &pid.local_ext_bytes {
        buf.put_u8(LOCAL_EXT);
        buf.put_slice(local_bytes);
    } else {
        buf.put_u8(NEW_PID_EXT);
        encode_atom_impl(buf, &pid.node, cache)?;
        buf.put_u32(pid.id);
        buf.put_u32(pid.serial);
        buf.put_u32(pid.creation);
    }
    Ok(())""", """    match pid.local_ext_bytes.as_ref() {
        Some(local_bytes) => {
            buf.put_u8(LOCAL_EXT);
            buf.put_slice(local_bytes);
            Ok(())
        }
        None => {
            buf.put_u8(NEW_PID_EXT);
            encode_atom_impl(buf, &pid.node, cache)?;
            buf.put_u32(pid.id);
            buf.put_u32(pid.serial);
            buf.put_u32(pid.creation);
            Ok(())
        }
    }""")
benign('benign-c01-pid-match', 'C01', ENCF, """    if let Some(local_bytes) = &pid.local_ext_bytes {
        buf.put_u8(LOCAL_EXT);
        buf.put_slice(local_bytes);
    } else {
        buf.put_u8(NEW_PID_EXT);
        encode_atom_impl(buf, &pid.node, cache)?;
        buf.put_u32(pid.id);
        buf.put_u32(pid.serial);
        buf.put_u32(pid.creation);
    }
    Ok(())""", """    match pid.local_ext_bytes.as_ref() {
        Some(local_bytes) => {
            buf.put_u8(LOCAL_EXT);
            buf.put_slice(local_bytes);
            Ok(())
        }
        None => {
            buf.put_u8(NEW_PID_EXT);
            encode_atom_impl(buf, &pid.node, cache)?;
            buf.put_u32(pid.id);
            buf.put_u32(pid.serial);
            buf.put_u32(pid.creation);
            Ok(())
        }
    }""")
benign('benign-c16-allocate-single-return', 'C16', PA, """        let next_id = id + 1;
        if id >= MAX_PROCESSES_PER_NODE {
            self.next_id.store(1, Ordering::Relaxed);
            let new_serial = self.next_serial.fetch_add(1, Ordering::Relaxed) + 1;
            let wrapped_serial = (new_serial % (u32::MAX as u64 + 1)) as u32;

            Ok(ExternalPid::new(
                self.node_name.clone(),
                id,
                wrapped_serial,
                self.creation.load(Ordering::Relaxed),
            ))
        } else {
            self.next_id.store(next_id, Ordering::Relaxed);

            Ok(ExternalPid::new(
                self.node_name.clone(),
                id,
                serial,
                self.creation.load(Ordering::Relaxed),
            ))
        }""", """        let next_id = id + 1;
        let pid_serial = if id >= MAX_PROCESSES_PER_NODE {
            self.next_id.store(1, Ordering::Relaxed);
            let new_serial = self.next_serial.fetch_add(1, Ordering::Relaxed) + 1;
            (new_serial % (u32::MAX as u64 + 1)) as u32
        } else {
            self.next_id.store(next_id, Ordering::Relaxed);
            serial
        };
        let creation = self.creation.load(Ordering::Relaxed);
        Ok(ExternalPid::new(self.node_name.clone(), id, pid_serial, creation))""")
benign('benign-c04-disconnect-reordered', 'C04', 'crates/edp_client/src/state_machine.rs', """        self.state = ConnectionState::Disconnected;
        self.our_challenge = None;
        self.their_challenge = None;
        self.negotiated_flags = None;""", """        self.negotiated_flags = None;
        self.their_challenge.take();
        self.our_challenge = None;
        self.state = ConnectionState::Disconnected;""")
_RF_OLD = """                let len = reader.read_u16().await?;
                trace!("Read length: {} bytes", len);
                len as usize"""
_RF_NEW = """                let mut len_bytes = [0u8; 2];
                reader.read_exact(&mut len_bytes).await?;
                let len = u16::from_be_bytes(len_bytes);
                trace!("Read length: {} bytes", len);
                usize::from(len)"""
benign('benign-c05-prefix-read-exact', 'C05', FRM, _RF_OLD, _RF_NEW)
benign('benign-c06-prefix-read-exact', 'C06', FRM, _RF_OLD, _RF_NEW)
benign('benign-c05-tick-match', 'C05', FRM, """        if len == 0 {
            trace!("Received 0-byte message (heartbeat/tick)");
            return Ok(Vec::new());
        }

        if len > MAX_MESSAGE_SIZE {""", """        match len {
            0 => {
                trace!("Received 0-byte message (heartbeat/tick)");
                return Ok(Vec::new());
            }
            _ => {}
        }

        if len > MAX_MESSAGE_SIZE {""")
benign('benign-c08-link-arm-swapped-order', 'C08', CTL, """            Some(ControlMessageType::Link) if elements.len() == 3 => Ok(ControlMessage::Link {
                from_pid: mem::take(&mut elements[1]),
                to_pid: mem::take(&mut elements[2]),
            }),""", """            Some(ControlMessageType::Link) if elements.len() == 3 => {
                let to_pid = mem::take(&mut elements[2]);
                let from_pid = mem::take(&mut elements[1]);
                Ok(ControlMessage::Link { from_pid, to_pid })
            }""")
benign('benign-c09-dup-test-match', 'C09', 'crates/edp_client/src/fragmentation.rs', """                    if self.fragments[idx].is_some() {
                        trace!("Received duplicate fragment {} - ignoring", fragment_id);
                    } else {
                        self.fragments[idx] = Some(data);
                        self.received_count += 1;
                    }""", """                    match &self.fragments[idx] {
                        Some(_) => trace!("Received duplicate fragment {} - ignoring", fragment_id),
                        None => {
                            self.received_count += 1;
                            self.fragments[idx] = Some(data);
                        }
                    }""")
benign('benign-c03-trailing-len-test', 'C03', DEC, """    if !remaining.is_empty() {
        ctx.byte_offset = original_len - remaining.len();""", """    if remaining.len() != 0 {
        ctx.byte_offset = original_len - remaining.len();""")
benign('benign-c06-tick-len-test', 'C06', 'crates/edp_client/src/connection.rs', """            if data.is_empty() {
                trace!("Received tick (heartbeat), continuing...");
                continue;
            }""", """            if data.len() < 1 {
                trace!("Received tick (heartbeat), continuing...");
                continue;
            }""")
benign('benign-c15-integer-try-from', 'C15', ENCF, "    } else if value >= i32::MIN as i64 && value <= i32::MAX as i64 {\n        buf.put_u8(INTEGER_EXT);\n        buf.put_i32(value as i32);",
       "    } else if let Ok(small) = i32::try_from(value) {\n        buf.put_u8(INTEGER_EXT);\n        buf.put_i32(small);")
canary('c20-range-bounds-small-only', 'C20', 'crates/edp_elixir_terms/src/range.rs', "        let first = i64_bound(map.get(&first_key)?)?;", "        let first = map.get(&first_key)?.as_integer()?;", 'wide-field-as_integer')
canary('c02-context-key-truncate', 'C02', 'crates/erltf/src/errors.rs', "    pub fn push(&mut self, segment: PathSegment) {\n", """    pub fn push(&mut self, mut segment: PathSegment) {
        if let PathSegment::MapValue(key) = &mut segment {
            if key.len() > 64 {
                key.truncate(64);
            }
        }
""", 'truncate')
canary('c02-bigint-strip-zeros-unbounded', 'C02', 'crates/erltf/src/term.rs', "fn compare_int_bigint(i: i64, big: &BigInt) -> Ordering {\n", """fn compare_int_bigint(i: i64, big: &BigInt) -> Ordering {
    let mut sig = big.digits.len();
    while sig > 0 && big.digits[sig - 1] == 0 && big.digits[sig] == 0 {
        sig -= 1;
    }
""", 'PANIC:erltf::term::compare_int_bigint')
_CM_OLD = """        (Sign::Positive, Sign::Positive) => a
            .digits
            .len()
            .cmp(&b.digits.len())
            .then_with(|| a.digits.iter().rev().cmp(b.digits.iter().rev())),
        (Sign::Negative, Sign::Negative) => a
            .digits
            .len()
            .cmp(&b.digits.len())
            .then_with(|| a.digits.iter().rev().cmp(b.digits.iter().rev()))
            .reverse(),
    }
}
"""
_CM_HELPER = """
fn compare_magnitude(a: &[u8], b: &[u8]) -> Ordering {
    a.len().cmp(&b.len()).then_with(|| {
        for i in (%s..a.len()).rev() {
            match a[i].cmp(&b[i]) {
                Ordering::Equal => continue,
                other => return other,
            }
        }
        Ordering::Equal
    })
}
"""
_CM_NEW = """        (Sign::Positive, Sign::Positive) => compare_magnitude(&a.digits, &b.digits),
        (Sign::Negative, Sign::Negative) => compare_magnitude(&a.digits, &b.digits).reverse(),
    }
}
"""
benign('benign-c12-magnitude-helper', 'C12', 'crates/erltf/src/term.rs', _CM_OLD, _CM_NEW + _CM_HELPER % '0')
canary('c12-magnitude-helper-skips-lsd', 'C12', 'crates/erltf/src/term.rs', _CM_OLD, _CM_NEW + _CM_HELPER % '1', 'lsb-first')
canary('c12-magnitude-helper-ascending', 'C12', 'crates/erltf/src/term.rs', _CM_OLD, _CM_NEW + (_CM_HELPER % '0').replace('.rev()', ''), 'lsb-first')
benign('benign-c16-advance-helper', 'C16', PA, "            self.next_id.store(next_id, Ordering::Relaxed);\n", "            self.bump(next_id);\n",
       more=[(PA, "    pub fn node_name(&self) -> &Atom {", "    fn bump(&self, next_id: u32) {\n        self.next_id.store(next_id, Ordering::Relaxed);\n    }\n\n    pub fn node_name(&self) -> &Atom {")])
benign('benign-c09-trace-payload-size', 'C09', 'crates/edp_client/src/fragmentation.rs', "        self.last_update = Instant::now();\n\n        if fragment_id == 0 {", "        self.last_update = Instant::now();\n        trace!(\"fragment {} carries {} bytes\", fragment_id, data.len());\n\n        if fragment_id == 0 {")
benign('benign-c10-local-ext-matches-guard', 'C10', DEC, "    // Calculate how many bytes the nested term consumed\n    let nested_len = input.len() - remaining.len();", """    if !matches!(term, OwnedTerm::Pid(_) | OwnedTerm::Port(_) | OwnedTerm::Reference(_)) {
        return Ok((remaining, term));
    }
    // Calculate how many bytes the nested term consumed
    let nested_len = input.len() - remaining.len();""")
benign('benign-c12-unsigned-abs', 'C12', 'crates/erltf/src/term.rs', "        let abs_i = i.wrapping_neg() as u64;", "        let abs_i = i.unsigned_abs();",
       more=[('crates/erltf/src/borrowed.rs', "        let abs_i = i.wrapping_neg() as u64;", "        let abs_i = i.unsigned_abs();")])
benign('benign-c01-u32-from-le-bytes', 'C01', DEC, """    Some(
        big.digits
            .iter()
            .take(4)
            .rev()
            .fold(0u32, |acc, &d| (acc << 8) | u32::from(d)),
    )""", """    let mut bytes = [0u8; 4];
    for (slot, &d) in bytes.iter_mut().zip(big.digits.iter()) {
        *slot = d;
    }
    Some(u32::from_le_bytes(bytes))""")
canary('c07-prefix-truncating-cast', 'C07', CONN, "stream.write_u32(frame_len(total_len)?).await?;", "stream.write_u32(total_len as u32).await?;", 'prefix-not-truncated')
_FAST = """        if discriminant(self) == discriminant(other) {
            match (self, other) {
                (OwnedTerm::Integer(a), OwnedTerm::Integer(b)) => return a.cmp(b),
                (OwnedTerm::Atom(a), OwnedTerm::Atom(b)) => return a.name.cmp(&b.name),
                (OwnedTerm::Binary(a), OwnedTerm::Binary(b)) => return a.cmp(b),
                (OwnedTerm::String(a), OwnedTerm::String(b)) => return a.cmp(b),
                (OwnedTerm::Nil, OwnedTerm::Nil) => return Ordering::Equal,
                _ => {}
            }
        }

"""
benign('benign-c11-no-fast-path', 'C11', 'crates/erltf/src/term.rs', _FAST, "")
benign('benign-c12-no-fast-path', 'C12', 'crates/erltf/src/term.rs', _FAST, "")
benign('benign-c13-no-fast-path', 'C13', 'crates/erltf/src/term.rs', _FAST, "")
benign('benign-c08-take-helper', 'C08', CTL, """            Some(ControlMessageType::Link) if elements.len() == 3 => Ok(ControlMessage::Link {
                from_pid: mem::take(&mut elements[1]),
                to_pid: mem::take(&mut elements[2]),
            }),""", """            Some(ControlMessageType::Link) if elements.len() == 3 => Ok(ControlMessage::Link {
                from_pid: take_field(&mut elements, 1),
                to_pid: take_field(&mut elements, 2),
            }),""", more=[(CTL, "impl ControlMessage {", "fn take_field(elements: &mut [OwnedTerm], i: usize) -> OwnedTerm {\n    mem::take(&mut elements[i])\n}\n\nimpl ControlMessage {")])
benign('benign-c08-link-clone', 'C08', CTL, """                from_pid: mem::take(&mut elements[1]),
                to_pid: mem::take(&mut elements[2]),
            }),

            Some(ControlMessageType::Send)""", """                from_pid: elements[1].clone(),
                to_pid: elements[2].clone(),
            }),

            Some(ControlMessageType::Send)""")
benign('benign-c04-verify-if-else', 'C04', 'crates/edp_client/src/state_machine.rs', """        if !ack.verify(our_challenge, &self.cookie) {
            return Err(Error::AuthenticationFailed);
        }

        self.state = ConnectionState::Connected;
        Ok(())""", """        let verified = ack.verify(our_challenge, &self.cookie);
        if verified {
            self.state = ConnectionState::Connected;
            Ok(())
        } else {
            Err(Error::AuthenticationFailed)
        }""")
benign('benign-c07-verify-if-else', 'C07', 'crates/edp_client/src/state_machine.rs', """        if !ack.verify(our_challenge, &self.cookie) {
            return Err(Error::AuthenticationFailed);
        }

        self.state = ConnectionState::Connected;
        Ok(())""", """        let verified = ack.verify(our_challenge, &self.cookie);
        if verified {
            self.state = ConnectionState::Connected;
            Ok(())
        } else {
            Err(Error::AuthenticationFailed)
        }""")
benign('benign-c04-verify-match', 'C04', 'crates/edp_client/src/state_machine.rs', """        if !ack.verify(our_challenge, &self.cookie) {
            return Err(Error::AuthenticationFailed);
        }

        self.state = ConnectionState::Connected;
        Ok(())""", """        match ack.verify(our_challenge, &self.cookie) {
            true => {
                self.state = ConnectionState::Connected;
                Ok(())
            }
            false => Err(Error::AuthenticationFailed),
        }""")
benign('benign-c09-entry-api', 'C09', 'crates/edp_client/src/fragmentation.rs', """        if let Some(msg) = self.pending.get_mut(&sequence_id) {
            trace!(
                "Received header for sequence {} which already has buffered fragments",
                sequence_id.0
            );
            msg.set_total_fragments(count);
            msg.atom_cache_data = atom_cache_data;
            msg.add_fragment(fragment_id, payload);

            if msg.is_complete() {
                trace!("Fragment sequence {} now complete", sequence_id.0);
                if let Some(msg) = self.pending.remove(&sequence_id) {
                    return msg.reassemble();
                }
            }
            None
        } else {
            let mut msg = FragmentedMessage::new(sequence_id.0, Some(count), atom_cache_data);
            msg.add_fragment(fragment_id, payload);

            if msg.is_complete() {
                trace!("Fragment sequence {} complete immediately", sequence_id.0);
                msg.reassemble()
            } else {
                self.pending.insert(sequence_id, msg);
                None
            }
        }""", """        let msg = match self.pending.entry(sequence_id) {
            Entry::Occupied(entry) => {
                let msg = entry.into_mut();
                msg.set_total_fragments(count);
                msg.atom_cache_data = atom_cache_data;
                msg
            }
            Entry::Vacant(entry) => entry.insert(FragmentedMessage::new(
                sequence_id.0,
                Some(count),
                atom_cache_data,
            )),
        };
        msg.add_fragment(fragment_id, payload);

        if msg.is_complete() {
            trace!("Fragment sequence {} now complete", sequence_id.0);
            return self
                .pending
                .remove(&sequence_id)
                .and_then(FragmentedMessage::reassemble);
        }
        None""")
canary('c07-dist-hdr-flag-bit', 'C07', 'crates/edp_client/src/flags.rs', "const DIST_HDR_ATOM_CACHE = 0x2000;", "const DIST_HDR_ATOM_CACHE = 0x1000;", 'CONST:edp_client::flags::DistributionFlags::DIST_HDR_ATOM_CACHE')
canary('c04-dist-hdr-flag-bit', 'C04', 'crates/edp_client/src/flags.rs', "const DIST_HDR_ATOM_CACHE = 0x2000;", "const DIST_HDR_ATOM_CACHE = 0x1000;", 'CONST:edp_client::flags::DistributionFlags::DIST_HDR_ATOM_CACHE')
benign('benign-c04-flag-literal-spelling', 'C04', 'crates/edp_client/src/flags.rs', "const DIST_HDR_ATOM_CACHE = 0x2000;", "const DIST_HDR_ATOM_CACHE = 1 << 13;")
canary('c08-tag-space-halfopen', 'C08', 'crates/edp_client/src/control.rs', "if !(0..=255).contains(&msg_type_raw) {", "if !(0..255).contains(&msg_type_raw) {", 'tag-space')
benign('benign-c08-tag-range-compare', 'C08', 'crates/edp_client/src/control.rs', "if !(0..=255).contains(&msg_type_raw) {", "if msg_type_raw < 0 || msg_type_raw > 255 {")
benign('benign-c08-tag-tryfrom', 'C08', 'crates/edp_client/src/control.rs', """        if !(0..=255).contains(&msg_type_raw) {
            return Err(Error::InvalidControlMessage(format!(
                "Message type out of range: {}",
                msg_type_raw
            )));
        }
        let msg_type = msg_type_raw as u8;""", """        let msg_type = u8::try_from(msg_type_raw).map_err(|_| {
            Error::InvalidControlMessage(format!("Message type out of range: {}", msg_type_raw))
        })?;""")
canary('c13-twin-sign-eq-one', 'C13', 'crates/erltf/src/decoder.rs', "BorrowedTerm::BigInt(BigInt::new(sign != 0, digits.to_vec())),", "BorrowedTerm::BigInt(BigInt::new(sign == 1, digits.to_vec())),", 'values')
benign('benign-c13-twin-sign-gt-zero', 'C13', 'crates/erltf/src/decoder.rs', "BorrowedTerm::BigInt(BigInt::new(sign != 0, digits.to_vec())),", "BorrowedTerm::BigInt(BigInt::new(sign > 0, digits.to_vec())),")
canary('c13-fun-ctor-args-swapped', 'C13', 'crates/erltf/src/decoder.rs', "arity, uniq_array, index, num_free, module, old_index, old_uniq, pid, free_vars,\n        ))),\n    ))\n}\n\n", "arity, uniq_array, index, num_free, module, old_uniq, old_index, pid, free_vars,\n        ))),\n    ))\n}\n\n", 'ORDER:')
canary('c14-atom-walk-capped', 'C14', 'crates/erltf/src/encoder.rs', "fn collect_atoms<'a>(term: &'a OwnedTerm, atoms: &mut HashSet<&'a Atom>) {\n", "fn collect_atoms<'a>(term: &'a OwnedTerm, atoms: &mut HashSet<&'a Atom>) {\n    if atoms.len() >= 255 {\n        return;\n    }\n", 'walk-capped')
benign('benign-c14-atom-walk-stops-over-limit', 'C14', 'crates/erltf/src/encoder.rs', "fn collect_atoms<'a>(term: &'a OwnedTerm, atoms: &mut HashSet<&'a Atom>) {\n", "fn collect_atoms<'a>(term: &'a OwnedTerm, atoms: &mut HashSet<&'a Atom>) {\n    if atoms.len() > 255 {\n        return;\n    }\n")
canary('c14-cache-ref-default-index', 'C14', 'crates/erltf/src/encoder.rs', """    if let Some(atom_index_map) = cache
        && let Some(&cache_index) = atom_index_map.get(&atom)
    {""", """    if let Some(atom_index_map) = cache {
        let cache_index = atom_index_map.get(&atom).copied().unwrap_or_default();""", 'cache-ref-without-hit')
canary('c11-pid-ord-tuple-fields-crossed', 'C11', 'crates/erltf/src/types.rs', "            other.id,\n            other.serial,\n            other.creation,\n        ))", "            other.id,\n            other.creation,\n            other.serial,\n        ))", 'CMPFIELDS')
canary('c15-bigint-i64-max-rejected', 'C15', 'crates/erltf_serde/src/de.rs', "if magnitude <= i64::MAX as u64 {", "if magnitude < i64::MAX as u64 {", 'rejects-fitting-value')
canary('c15-bigint-eight-digits-rejected', 'C15', 'crates/erltf_serde/src/de.rs', "    if big.digits.len() > 8 {\n        return None;", "    if big.digits.len() >= 8 {\n        return None;", 'rejects-short-digits')
canary('c15-char-byte-length', 'C15', 'crates/erltf_serde/src/de.rs', """                let s = str::from_utf8(b).map_err(|e| Error::InvalidValue(e.to_string()))?;
                let mut chars = s.chars();
                if let Some(c) = chars.next()
                    && chars.next().is_none()""", """                let s = str::from_utf8(b).map_err(|e| Error::InvalidValue(e.to_string()))?;
                let mut chars = s.chars();
                if let Some(c) = chars.next()
                    && b.len() == 1""", 'char-byte-length')
benign('benign-c15-char-length-prefilter', 'C15', 'crates/erltf_serde/src/de.rs', """                let s = str::from_utf8(b).map_err(|e| Error::InvalidValue(e.to_string()))?;
                let mut chars = s.chars();
                if let Some(c) = chars.next()
                    && chars.next().is_none()""", """                let s = str::from_utf8(b).map_err(|e| Error::InvalidValue(e.to_string()))?;
                let mut chars = s.chars();
                if b.len() <= 4
                    && let Some(c) = chars.next()
                    && chars.next().is_none()""")
canary('c20-mapset-guard-and', 'C20', 'crates/edp_elixir_terms/src/map_set.rs', 'if tuple.len() != 3 || tuple[0].atom_name() != Some("set") {', 'if tuple.len() != 3 && tuple[0].atom_name() != Some("set") {', 'PANIC:')
canary('c20-iterator-wrapping-step', 'C20', 'crates/edp_elixir_terms/src/range.rs', "self.current = self.current.saturating_add(self.range.step);", "self.current = self.current.wrapping_add(self.range.step);", 'wrapping_add')
benign('benign-c20-iterator-checked-step', 'C20', 'crates/edp_elixir_terms/src/range.rs', "self.current = self.current.saturating_add(self.range.step);", "self.current = self.current.checked_add(self.range.step).unwrap_or(i64::MAX);")
canary('c19-table-guard-across-reply-wait', 'C19', 'crates/edp_node/src/node.rs', "        tracing::trace!(\"Looking up connection for node: {}\", remote_node);\n        if let Some(conn) = self.connections.get(remote_node) {", "        tracing::trace!(\"Looking up connection for node: {}\", remote_node);\n        let conn = self.connections.get(remote_node);\n        if let Some(conn) = conn.as_ref() {", 'table-guard-across')
benign('benign-c19-clone-arc-release-guard', 'C19', 'crates/edp_node/src/node.rs', "        tracing::trace!(\"Looking up connection for node: {}\", remote_node);\n        if let Some(conn) = self.connections.get(remote_node) {", "        tracing::trace!(\"Looking up connection for node: {}\", remote_node);\n        let conn = self.connections.get(remote_node).map(|c| c.value().clone());\n        if let Some(conn) = conn {")
canary('c17-outer-timeout-cancels-call', 'C17', 'crates/edp_node/src/node.rs', """        let response = self
            .rpc_call_raw_with_timeout(remote_node, module, function, args, timeout)
            .await?;
        response.into_rex_response().map_err(Error::from)""", """        let response = tokio::time::timeout(
            timeout,
            self.rpc_call_raw_with_timeout(remote_node, module, function, args, timeout),
        )
        .await
        .map_err(|_| Error::RpcTimeout(timeout))??;
        response.into_rex_response().map_err(Error::from)""", 'cancels')
canary('c19-oversize-recoverable-error', 'C19', CONN, """                return Err(Error::MessageTooLarge {
                    size: len,
                    max: MAX_MESSAGE_SIZE,
                });
            }

            let mut buf = vec![0u8; len];""", """                return Err(Error::Protocol(format!("Message of {} bytes is too large", len)));
            }

            let mut buf = vec![0u8; len];""", 'body-unread')
# benign variants for the round-4 rules
_NESTED_OLD = """    let (input, old_index_term) = parse_term(input, cache)?;
    let old_index = match old_index_term {
        OwnedTerm::Integer(i) => u32::try_from(i).ok(),
        OwnedTerm::BigInt(ref big) => u32_from_bigint(big),
        _ => None,
    }
    .ok_or_else(|| nom::Err::Failure(NomError::new(input, ErrorKind::Tag)))?;

    let (input, old_uniq_term) = parse_term(input, cache)?;
    let old_uniq = match old_uniq_term {
        OwnedTerm::Integer(i) => u32::try_from(i).ok(),
        OwnedTerm::BigInt(ref big) => u32_from_bigint(big),
        _ => None,
    }
    .ok_or_else(|| nom::Err::Failure(NomError::new(input, ErrorKind::Tag)))?;
"""
_NESTED_NEW = """    let (input, first) = parse_term(input, cache)?;
    let a = nested_u32(&first).ok_or_else(|| nom::Err::Failure(NomError::new(input, ErrorKind::Tag)))?;
    let (input, second) = parse_term(input, cache)?;
    let b = nested_u32(&second).ok_or_else(|| nom::Err::Failure(NomError::new(input, ErrorKind::Tag)))?;
    let (old_index, old_uniq) = (a, b);
"""
_NESTED_HELPER = """fn nested_u32(term: &OwnedTerm) -> Option<u32> {
    match term {
        OwnedTerm::Integer(i) => u32::try_from(*i).ok(),
        OwnedTerm::BigInt(big) => u32_from_bigint(big),
        _ => None,
    }
}

fn parse_new_fun_ext<'a>(input: &'a [u8], cache: &AtomCache) -> NomResult<'a, OwnedTerm> {"""
for _pid in ('C01', 'C03', 'C13'):
    benign('benign-%s-fun-nested-helper' % _pid.lower(), _pid, 'crates/erltf/src/decoder.rs', _NESTED_OLD, _NESTED_NEW,
           more=[('crates/erltf/src/decoder.rs', "fn parse_new_fun_ext<'a>(input: &'a [u8], cache: &AtomCache) -> NomResult<'a, OwnedTerm> {", _NESTED_HELPER)])
    canary('%s-fun-nested-helper-crossed' % _pid.lower(), _pid, 'crates/erltf/src/decoder.rs', _NESTED_OLD, _NESTED_NEW.replace("(a, b);", "(b, a);"), 'ORDER:',
           more=[('crates/erltf/src/decoder.rs', "fn parse_new_fun_ext<'a>(input: &'a [u8], cache: &AtomCache) -> NomResult<'a, OwnedTerm> {", _NESTED_HELPER)])
canary('c04-cookie-trimmed', 'C04', 'crates/edp_client/src/state_machine.rs', "        Self {\n            state: ConnectionState::Disconnected,", "        let cookie = cookie.trim_end().to_owned();\n        Self {\n            state: ConnectionState::Disconnected,", 'cookie-rewritten')
canary('c09-buffer-store-no-refresh', 'C09', 'crates/edp_client/src/fragmentation.rs', "    fn add_fragment(&mut self, fragment_id: u64, data: Vec<u8>) {\n        self.last_update = Instant::now();\n", "    fn add_fragment(&mut self, fragment_id: u64, data: Vec<u8>) {\n", 'store-without-refresh')
canary('c09-slots-reset-counter-kept', 'C09', 'crates/edp_client/src/fragmentation.rs', "                self.fragments.resize(count.get() as usize, None);", "                self.fragments = vec![None; count.get() as usize];", 'slots-reset-counter-kept')
_MODE_OLD = """        let use_pass_through = self
            .negotiated_flags()
            .as_ref()
            .map(|f| !f.has(DistributionFlags::DIST_HDR_ATOM_CACHE))
            .unwrap_or(true);
"""
_MODE_HELPER = """    fn uses_dist_header(&self) -> bool {
        %s
            .as_ref()
            .map(|f| f.has(DistributionFlags::DIST_HDR_ATOM_CACHE))
            .unwrap_or(false)
    }

    async fn send_control_message("""
benign('benign-c07-mode-helper', 'C07', CONN, _MODE_OLD, "        let use_pass_through = !self.uses_dist_header();\n",
       more=[(CONN, "    async fn send_control_message(", _MODE_HELPER % "self.negotiated_flags()")])
canary('c07-mode-from-configured-flags', 'C07', CONN, _MODE_OLD, "        let use_pass_through = !self.uses_dist_header();\n", 'mode-selection',
       more=[(CONN, "    async fn send_control_message(", _MODE_HELPER % "Some(self.config.flags)")])
canary('c07-mode-polarity', 'C07', CONN, ".map(|f| !f.has(DistributionFlags::DIST_HDR_ATOM_CACHE))", ".map(|f| f.has(DistributionFlags::DIST_HDR_ATOM_CACHE))", 'mode-polarity')
benign('benign-c07-mode-default-unreachable', 'C07', CONN, "            .map(|f| !f.has(DistributionFlags::DIST_HDR_ATOM_CACHE))\n            .unwrap_or(true);", "            .map(|f| !f.has(DistributionFlags::DIST_HDR_ATOM_CACHE))\n            .unwrap_or(false);")
canary('c03-compressed-remainder-whole', 'C03', DEC, "    Ok((&rest[consumed..], owned_term))", "    Ok((&rest[rest.len()..], owned_term))", 'remainder-not-consumed-count')
canary('c03-old-float-is-normal', 'C03', DEC, "        .map_err(|_| nom::Err::Failure(NomError::new(input, ErrorKind::Float)))?;\n    Ok((input, OwnedTerm::Float(value)))", "        .map_err(|_| nom::Err::Failure(NomError::new(input, ErrorKind::Float)))?;\n    if !value.is_normal() {\n        return Err(nom::Err::Failure(NomError::new(input, ErrorKind::Float)));\n    }\n    Ok((input, OwnedTerm::Float(value)))", 'float-is_normal')
benign('benign-c03-old-float-finite-only', 'C03', DEC, "        .map_err(|_| nom::Err::Failure(NomError::new(input, ErrorKind::Float)))?;\n    Ok((input, OwnedTerm::Float(value)))", "        .map_err(|_| nom::Err::Failure(NomError::new(input, ErrorKind::Float)))?;\n    let _finite = value.is_finite();\n    Ok((input, OwnedTerm::Float(value)))")
canary('c06-payload-error-swallowed', 'C06', CONN, """                let message = if !remaining.is_empty() {
                    let (msg, _) = decoder::decode_with_trailing(remaining)?;
                    trace!("Decoded message term from pass-through message");
                    Some(msg)
                } else {
                    None
                };""", """                let message = decoder::decode_with_trailing(remaining)
                    .ok()
                    .map(|(msg, _)| msg);""", 'decode-error-swallowed')
benign('benign-c06-payload-len-test', 'C06', CONN, """                let message = if !remaining.is_empty() {
                    let (msg, _) = decoder::decode_with_trailing(remaining)?;
                    trace!("Decoded message term from pass-through message");
                    Some(msg)
                } else {
                    None
                };""", """                let message = match remaining.len() {
                    0 => None,
                    _ => {
                        let (msg, _) = decoder::decode_with_trailing(remaining)?;
                        Some(msg)
                    }
                };""")
canary('c10-replay-extra-condition', 'C10', 'crates/erltf/src/encoder.rs', "    if let Some(local_bytes) = &pid.local_ext_bytes {", "    if let Some(local_bytes) = &pid.local_ext_bytes\n        && local_bytes.len() > 12\n    {", 'plain-form-with-raw-bytes')
_CIF_OLD = "    let i_as_f = i as f64;\n    i_as_f.partial_cmp(&f).unwrap_or(Ordering::Equal)\n}"
canary('c11-float-saturating-narrow', 'C11', 'crates/erltf/src/term.rs', _CIF_OLD, "    if f.abs() >= 9_007_199_254_740_992.0 {\n        return i.cmp(&(f as i64));\n    }\n" + _CIF_OLD, 'float-as-int')
benign('benign-c11-float-bounded-narrow', 'C11', 'crates/erltf/src/term.rs', _CIF_OLD, "    if f.abs() < 1.0 && i == 0 {\n        let _t = f as i64;\n    }\n" + _CIF_OLD,
       more=[('crates/erltf/src/borrowed.rs', _CIF_OLD, "    if f.abs() < 1.0 && i == 0 {\n        let _t = f as i64;\n    }\n" + _CIF_OLD)])
benign('benign-c09-refresh-at-stores', 'C09', 'crates/edp_client/src/fragmentation.rs', "    fn add_fragment(&mut self, fragment_id: u64, data: Vec<u8>) {\n        self.last_update = Instant::now();\n", "    fn add_fragment(&mut self, fragment_id: u64, data: Vec<u8>) {\n",
       more=[('crates/edp_client/src/fragmentation.rs', "                        self.fragments[idx] = Some(data);\n                        self.received_count += 1;\n                    }\n                }\n            }\n        } else if let Entry::Vacant(e) = self.pending_fragments.entry(fragment_id) {\n            e.insert(data);",
              "                        self.fragments[idx] = Some(data);\n                        self.received_count += 1;\n                        self.last_update = Instant::now();\n                    }\n                }\n            }\n        } else if let Entry::Vacant(e) = self.pending_fragments.entry(fragment_id) {\n            e.insert(data);\n            self.last_update = Instant::now();")])
benign('benign-c18-links-btreeset', 'C18', 'crates/edp_node/src/process.rs', "    links: Arc<RwLock<HashSet<ExternalPid>>>,", "    links: Arc<RwLock<std::collections::BTreeSet<ExternalPid>>>,",
       more=[('crates/edp_node/src/process.rs', "            links: Arc::new(RwLock::new(HashSet::new())),", "            links: Arc::new(RwLock::new(std::collections::BTreeSet::new())),")])
benign('benign-c16-creation-allocator-first', 'C16', 'crates/edp_node/src/node.rs', "        self.creation.store(creation, Ordering::SeqCst);\n        self.pid_allocator.set_creation(creation);", "        self.pid_allocator.set_creation(creation);\n        self.creation.store(creation, Ordering::SeqCst);")
benign('benign-c04-cookie-owned-copy', 'C04', 'crates/edp_client/src/state_machine.rs', "        Self {\n            state: ConnectionState::Disconnected,", "        let cookie = String::from(cookie.as_str());\n        Self {\n            state: ConnectionState::Disconnected,")
benign('benign-c03-list-tail-matches', 'C03', DEC, "    if tail == OwnedTerm::Nil {\n        Ok((remaining, OwnedTerm::List(elements)))", "    if matches!(tail, OwnedTerm::Nil) {\n        Ok((remaining, OwnedTerm::List(elements)))")
canary('c03-list-tail-is-list', 'C03', DEC, "    if tail == OwnedTerm::Nil {\n        Ok((remaining, OwnedTerm::List(elements)))", "    if tail.is_list() {\n        Ok((remaining, OwnedTerm::List(elements)))", 'tail-dropped-unless-nil')
benign('benign-c08-generic-insert-front', 'C08', 'crates/edp_client/src/control.rs', """                message_type,
                fields,
            } => {
                let mut elements = vec![OwnedTerm::Integer(message_type as i64)];
                elements.extend(fields);
                OwnedTerm::Tuple(elements)""", """                message_type,
                mut fields,
            } => {
                fields.insert(0, OwnedTerm::Integer(message_type as i64));
                OwnedTerm::Tuple(fields)""")
canary('c08-generic-swap', 'C08', 'crates/edp_client/src/control.rs', """                message_type,
                fields,
            } => {
                let mut elements = vec![OwnedTerm::Integer(message_type as i64)];
                elements.extend(fields);
                OwnedTerm::Tuple(elements)""", """                message_type,
                mut fields,
            } => {
                fields.push(OwnedTerm::Integer(message_type as i64));
                let last = fields.len() - 1;
                fields.swap(0, last);
                OwnedTerm::Tuple(fields)""", 'Generic:reorders')
canary('c05-empty-write-skipped', 'C05', 'crates/edp_client/src/transport.rs', "    pub async fn write(&mut self, data: &[u8]) -> Result<()> {\n", "    pub async fn write(&mut self, data: &[u8]) -> Result<()> {\n        if data.is_empty() {\n            return Ok(());\n        }\n", 'success-path-writes-nothing')
canary('c04-complement-skipped', 'C04', 'crates/edp_client/src/state_machine.rs', "        let high_flags = (flags_u64 >> 32) as u32;\n", "        let high_flags = (flags_u64 >> 32) as u32;\n        if high_flags == 0 {\n            return Ok(Vec::new());\n        }\n", 'success-path-writes-nothing')
_FF_OLD1 = """    let long_atoms_flag_byte = flags[flags_len - 1];
    let long_atoms_mask = if num_atom_cache_refs % 2 == 0 {
        0x01
    } else {
        0x10
    };
    let long_atoms = (long_atoms_flag_byte & long_atoms_mask) != 0;
"""
_FF_NEW1 = """    let flag_field = |k: usize| -> u8 {
        let byte = flags[k / 2];
        if k %% 2 == 0 { byte & 0x0F } else { byte >> 4 }
    };
    let long_atoms = (flag_field(%s) & 0x01) != 0;
"""
_FF_OLD2 = """        let flag_byte_index = i as usize / 2;
        let flag_nibble = if i % 2 == 0 {
            flags[flag_byte_index] & 0x0F
        } else {
            (flags[flag_byte_index] >> 4) & 0x0F
        };
"""
_FF_NEW2 = "        let flag_nibble = flag_field(i as usize);\n"
benign('benign-c14-flag-field-accessor', 'C14', DEC, _FF_OLD1, _FF_NEW1 % 'num_atom_cache_refs as usize', more=[(DEC, _FF_OLD2, _FF_NEW2)])
canary('c14-flag-field-accessor-last-field', 'C14', DEC, _FF_OLD1, _FF_NEW1 % 'flags_len * 2 - 1', 'longatoms-wrong-field', more=[(DEC, _FF_OLD2, _FF_NEW2)])
_DLV_ARM_OLD = """                if let OwnedTerm::Pid(from) = from_pid
                    && let OwnedTerm::Pid(to) = to_pid
                    && let Some(handle) = registry.get(&to).await
                {
                    handle.send(Message::Exit { from, reason }).await?;
                }"""
_DLV_ARM_NEW = """                if let OwnedTerm::Pid(from) = from_pid
                    && let OwnedTerm::Pid(to) = to_pid
                {
                    registry
                        .deliver(&to, Message::Exit { from, reason })
                        .await?;
                }"""
_DLV_ANCHOR = "    pub async fn register(&self, name: Atom, pid: ExternalPid) -> Result<()> {"
_DLV_HELPER_GOOD = """    pub async fn deliver(&self, pid: &ExternalPid, msg: crate::mailbox::Message) -> Result<bool> {
        let handle = self.get(pid).await;
        match handle {
            Some(handle) => handle.send(msg).await.map(|_| true),
            None => Ok(false),
        }
    }

""" + _DLV_ANCHOR
_DLV_HELPER_BAD = """    pub async fn deliver(&self, pid: &ExternalPid, msg: crate::mailbox::Message) -> Result<bool> {
        match self.by_pid.read().await.get(pid) {
            Some(handle) => handle.send(msg).await.map(|_| true),
            None => Ok(false),
        }
    }

""" + _DLV_ANCHOR
benign('benign-c19-deliver-helper', 'C19', 'crates/edp_node/src/node.rs', _DLV_ARM_OLD, _DLV_ARM_NEW, more=[('crates/edp_node/src/registry.rs', _DLV_ANCHOR, _DLV_HELPER_GOOD)])
canary('c19-deliver-helper-holds-table', 'C19', 'crates/edp_node/src/node.rs', _DLV_ARM_OLD, _DLV_ARM_NEW, 'rwlock-guard-across-await', more=[('crates/edp_node/src/registry.rs', _DLV_ANCHOR, _DLV_HELPER_BAD)])

# ---- round 10: state that outlives the call -------------------------------------------------------------------------
_ENC_OLD = """    let mut buf = BytesMut::with_capacity(capacity);
    buf.put_u8(VERSION);
    encode_term(&mut buf, term)?;
    Ok(buf.to_vec())
}

pub fn encode_to_writer"""
_TL = """thread_local! {
    static ENCODE_BUF: std::cell::RefCell<BytesMut> = std::cell::RefCell::new(BytesMut::new());
}

pub fn encode_to_writer"""
benign('benign-c20-thread-local-buffer-emptied-first', 'C20', ENCF, _ENC_OLD, """    ENCODE_BUF.with_borrow_mut(|buf| {
        buf.clear();
        buf.reserve(capacity);
        buf.put_u8(VERSION);
        encode_term(buf, term)?;
        Ok(buf.to_vec())
    })
}

""" + _TL)
canary('c20-thread-local-buffer-emptied-on-success-only', 'C20', ENCF, _ENC_OLD, """    ENCODE_BUF.with_borrow_mut(|buf| {
        buf.reserve(capacity);
        buf.put_u8(VERSION);
        encode_term(buf, term)?;
        Ok(buf.split().to_vec())
    })
}

""" + _TL, 'thread-local-buffer-not-emptied-first')

_PC_OLD = """    let owned_term = match parse_term(&decompressed, cache) {
        Ok((remaining, term)) if remaining.is_empty() => term,
        _ => return Err(nom::Err::Failure(NomError::new(input, ErrorKind::Fail))),
    };

    Ok((&rest[consumed..], owned_term))
}
"""
_PC_TL = """
thread_local! {
    static COMPRESSED_NESTING: std::cell::Cell<u32> = const { std::cell::Cell::new(0) };
}
"""
# a nesting counter for COMPRESSED inside COMPRESSED, kept on the thread: put back before the result is looked at ...
benign('benign-c02-nesting-counter-restored', 'C02', DEC, _PC_OLD, """    let nesting = COMPRESSED_NESTING.get();
    if nesting >= 8 {
        return Err(nom::Err::Failure(NomError::new(input, ErrorKind::TooLarge)));
    }
    COMPRESSED_NESTING.set(nesting + 1);
    let parsed = parse_term(&decompressed, cache);
    COMPRESSED_NESTING.set(nesting);
    let owned_term = match parsed {
        Ok((remaining, term)) if remaining.is_empty() => term,
        _ => return Err(nom::Err::Failure(NomError::new(input, ErrorKind::Fail))),
    };

    Ok((&rest[consumed..], owned_term))
}
""" + _PC_TL)
# ... and the same with the restore after the early return: every refused compressed term leaves the counter one higher, after eight of them
# every compressed term is refused on that thread
canary('c02-nesting-counter-left-advanced', 'C02', DEC, _PC_OLD, """    let nesting = COMPRESSED_NESTING.get();
    if nesting >= 8 {
        return Err(nom::Err::Failure(NomError::new(input, ErrorKind::TooLarge)));
    }
    COMPRESSED_NESTING.set(nesting + 1);
    let owned_term = match parse_term(&decompressed, cache) {
        Ok((remaining, term)) if remaining.is_empty() => term,
        _ => return Err(nom::Err::Failure(NomError::new(input, ErrorKind::Fail))),
    };
    COMPRESSED_NESTING.set(nesting);

    Ok((&rest[consumed..], owned_term))
}
""" + _PC_TL, 'thread-local-not-restored-on-every-exit')

