//! Positive fixtures for /verif: tiny functions that (a) calibrate how this
//! compiler lowers certain idioms (format templates), and (b) deliberately
//! violate zero-expected-count rules so that every run proves the rule can fire.
#![allow(dead_code, unused)]

use std::sync::Mutex;
use std::sync::atomic::{AtomicU32, Ordering};

/// calibration: the template this compiler emits for "{}{}"
pub fn fmt_two_display(a: &str, b: &str) -> String {
    format!("{}{}", a, b)
}

pub struct Counter {
    lock: Mutex<()>,
    next: AtomicU32,
}

impl Counter {
    /// LOCK positive: access outside the guard's live range
    pub fn bad_unlocked(&self) -> u32 {
        {
            let _g = self.lock.lock().unwrap();
        }
        let v = self.next.load(Ordering::Relaxed);
        self.next.store(v + 1, Ordering::Relaxed);
        v
    }
    /// LOCK negative
    pub fn good_locked(&self) -> u32 {
        let _g = self.lock.lock().unwrap();
        let v = self.next.load(Ordering::Relaxed);
        self.next.store(v + 1, Ordering::Relaxed);
        v
    }
}

/// CAST positive: unguarded narrowing
pub fn bad_cast(x: u64) -> u8 {
    x as u8
}

/// CAST negative: guarded narrowing
pub fn good_cast(x: u64) -> Option<u8> {
    if x > 255 {
        return None;
    }
    Some(x as u8)
}

/// PANIC positive: unguarded index
pub fn bad_index(v: &[u8], n: usize) -> u8 {
    v[n]
}

/// PANIC negative
pub fn good_index(v: &[u8], n: usize) -> u8 {
    if n < v.len() { v[n] } else { 0 }
}

/// ALLOC positive: capacity straight from a 32-bit wire count
pub fn bad_alloc(n: u32) -> Vec<u64> {
    Vec::with_capacity(n as usize)
}

/// ALLOC negative
pub fn good_alloc(n: u32, input: &[u8]) -> Vec<u64> {
    Vec::with_capacity((n as usize).min(input.len()))
}

/// REC positive: unbounded recursion on input
pub fn bad_rec(d: &[u8]) -> usize {
    if d.is_empty() { 0 } else { 1 + bad_rec(&d[1..]) }
}

/// REC negative: depth-bounded
pub fn good_rec(d: &[u8], depth: usize) -> Option<usize> {
    if depth > 64 {
        return None;
    }
    if d.is_empty() { Some(0) } else { good_rec(&d[1..], depth + 1).map(|x| x + 1) }
}

pub struct Ident {
    pub id: u32,
    pub creation: u32,
}

/// SELFCMP positive: the second comparison has the same operand on both sides.
pub fn bad_selfcmp(a: &Ident, b: &Ident) -> std::cmp::Ordering {
    a.id.cmp(&b.id).then_with(|| a.creation.cmp(&a.creation))
}

pub fn good_selfcmp(a: &Ident, b: &Ident) -> std::cmp::Ordering {
    a.id.cmp(&b.id).then_with(|| a.creation.cmp(&b.creation))
}

/// PANIC/char-boundary positive: byte 8 may fall inside a multi-byte character.
pub fn bad_truncate(mut s: String) -> String {
    if s.len() > 8 {
        s.truncate(8);
    }
    s
}

pub fn good_truncate(mut s: String) -> String {
    if s.is_char_boundary(8) {
        s.truncate(8);
    }
    s
}

/// ERR positive: the error of a fallible function of this crate is turned into a default.
pub fn fallible_len(input: &[u8]) -> Result<usize, String> {
    if input.is_empty() {
        Err("empty".to_string())
    } else {
        Ok(input.len())
    }
}

pub fn bad_swallow(input: &[u8]) -> Result<usize, String> {
    let n = fallible_len(input).unwrap_or_default();
    Ok(n + 1)
}

pub fn good_swallow(input: &[u8]) -> Result<usize, String> {
    let n = fallible_len(input)?;
    Ok(n + 1)
}
