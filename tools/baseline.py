#!/usr/bin/env python3
"""Run the repository's test suite (guard off: there are no hooks) and compare with /root/.vp/BASELINE.json stable_pass."""
import json, subprocess, re, sys, os
base = json.load(open('/root/.vp/BASELINE.json'))
want = set(base['stable_pass'])
env = dict(os.environ, CARGO_NET_OFFLINE='true')
r = subprocess.run(['cargo', 'nextest', 'run', '--workspace', '--no-fail-fast', '--test-threads', '8', '--offline'],
                   cwd='/repo', env=env, stdout=subprocess.PIPE, stderr=subprocess.STDOUT, text=True)
passed = set()
failed = set()
for line in r.stdout.splitlines():
    m = re.match(r'\s*(PASS|FAIL|TIMEOUT|SIGABRT|SIGSEGV)\s+\[[^\]]*\]\s+(?:\(\s*\d+/\d+\)\s+)?(\S+)\s+(\S+)', line)
    if m:
        crate_bin, name = m.group(2), m.group(3)
        tid = crate_bin.replace('::', '::') + '::' + name
        (passed if m.group(1) == 'PASS' else failed).add(tid)
missing = sorted(w for w in want if w not in passed)
print('stable_pass: %d, passed now: %d, stable tests not passing now: %d' % (len(want), len(passed), len(missing)))
for m in missing[:40]:
    print('  NOT PASSING:', m)
sys.exit(1 if missing else 0)
