#!/bin/bash
# usage: tools/dbg.sh <name> <patch> [Cxx ...]   - persistent scratch copy /tmp/vdbg/<name> with the patch applied; runs the given checks
name=$1; patch=$2; shift 2
D=/tmp/vdbg/$name
if [ ! -d $D/repo ]; then mkdir -p $D; rsync -a --exclude target --exclude .git /repo/ $D/repo/; patch -p1 -s -d $D/repo -i $patch || echo PATCH-FAILED; fi
for c in "$@"; do VERIF_REPO=$D/repo VERIF_CACHE=$D/cache VERIF_TARGET_DIR=${VERIF_CANARY_TARGET:-/verif/.cache/target-canary2} VERIF_EVIDENCE_DIR=$D/ev timeout 600 /verif/check $c | grep -E "^VIOL|quick:|^    " | cut -c1-400; done
