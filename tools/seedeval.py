#!/usr/bin/env python3
"""Evaluate one seeded change produced by an independent sub-agent.

usage: tools/seedeval.py <dir with patch.diff, meta.json, demo file> [--skip-confirm]
 1. confirm in a scratch git worktree of /repo (under /tmp): demo passes without the patch; with the
    patch the workspace compiles, the existing tests of the touched crates pass, the demo fails;
 2. run all twenty ./check commands against a scratch copy with the patch applied and list which report it.
Prints a JSON summary.  Nothing is applied to /repo itself.
"""
import os, sys, json, subprocess, shutil, tempfile, re

VERIF = os.path.dirname(os.path.dirname(os.path.abspath(__file__)))
sys.path.insert(0, VERIF)
from tools import canary as ctool

os.environ.setdefault('VERIF_CANARY_TARGET', '/verif/.cache/target-seedeval')
ENV = dict(os.environ, CARGO_NET_OFFLINE='true', CARGO_TARGET_DIR=os.environ.get('SEEDEVAL_TARGET', '/tmp/seed/target-eval'))


def sh(cmd, cwd, timeout=1800):
    r = subprocess.run(cmd, cwd=cwd, env=ENV, shell=True, stdout=subprocess.PIPE, stderr=subprocess.STDOUT, text=True, timeout=timeout)
    return r.returncode, r.stdout


def crates_of(patch):
    return sorted(set(re.findall(r'^\+\+\+ b/crates/([^/]+)/', open(patch).read(), re.M)))


def confirm(d, meta):
    wt = tempfile.mkdtemp(prefix='seedeval-wt-')
    shutil.rmtree(wt)
    subprocess.check_call(['git', '-C', '/repo', 'worktree', 'add', '--detach', wt, 'HEAD', '-q'])
    res = {}
    try:
        demo_src = os.path.join(d, meta['demo_file'])
        demo_dst = os.path.join(wt, meta['demo_install_path'])
        os.makedirs(os.path.dirname(demo_dst), exist_ok=True)
        shutil.copy(demo_src, demo_dst)
        cmd = meta['demo_cmd']
        cmd = re.sub(r'CARGO_TARGET_DIR=\S+\s*', '', cmd)
        cmd = re.sub(r'CARGO_NET_OFFLINE=\S+\s*', '', cmd)
        cmd = re.sub(r'^cd \S+ && ', '', cmd)
        rc0, out0 = sh(cmd, wt)
        res['demo_without_patch'] = 'pass' if rc0 == 0 else 'FAIL'
        rc, out = sh('git apply %s' % os.path.join(d, 'patch.diff'), wt)
        res['patch_applies'] = rc == 0
        if rc != 0:
            res['apply_error'] = out[-400:]
            return res
        rc1, out1 = sh(cmd, wt)
        res['demo_with_patch'] = 'fail' if rc1 != 0 else 'PASSES'
        res['demo_failure_excerpt'] = '\n'.join([l for l in out1.splitlines() if 'panicked' in l or 'assert' in l or 'FAILED' in l or 'error' in l][:6])
        # existing tests of the touched crates (the demo file is removed for this run)
        os.unlink(demo_dst)
        tests = {}
        for c in crates_of(os.path.join(d, 'patch.diff')):
            rc2, out2 = sh('cargo test -p %s --offline 2>&1 | tail -400' % c, wt)
            failed = re.findall(r'^test (\S+) \.\.\. FAILED', out2, re.M)
            comp_err = 'error[' in out2 or 'could not compile' in out2
            tests[c] = {'compile_error': comp_err, 'failed': failed[:20]}
        res['existing_tests'] = tests
        return res
    finally:
        subprocess.call(['git', '-C', '/repo', 'worktree', 'remove', '--force', wt])


def run_checks(d):
    sd = ctool.scratch_copy()
    out = {}
    try:
        r = subprocess.run(['git', 'apply', '--directory', os.path.relpath(sd + '/repo', '/'), os.path.join(d, 'patch.diff')], cwd='/', capture_output=True, text=True)
        if r.returncode != 0:
            r = subprocess.run(['patch', '-p1', '-s', '-d', sd + '/repo', '-i', os.path.join(d, 'patch.diff')], capture_output=True, text=True)
            if r.returncode != 0:
                return {'error': 'patch does not apply: ' + (r.stderr or r.stdout)[-300:]}
        for i in range(1, 21):
            pid = 'C%02d' % i
            rc, o = ctool.run_check(sd, pid)
            fired = [l.split('#', 1)[-1] for l in o.splitlines() if l.startswith('VIOLATION')]
            if 'fact extraction failed' in o:
                return {'error': 'does not compile under the analysis build', 'log': o[-600:]}
            if fired:
                out[pid] = fired[:6]
        return out
    finally:
        shutil.rmtree(sd, ignore_errors=True)


def main():
    d = os.path.abspath(sys.argv[1])
    meta = json.load(open(os.path.join(d, 'meta.json')))
    summary = {'dir': d, 'property': meta.get('property'), 'summary': meta.get('summary', '')[:300]}
    if '--skip-confirm' not in sys.argv:
        summary['confirm'] = confirm(d, meta)
    if '--skip-checks' not in sys.argv:
        summary['reported_by'] = run_checks(d)
    print(json.dumps(summary, indent=1))


if __name__ == '__main__':
    main()
