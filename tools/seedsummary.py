#!/usr/bin/env python3
"""Per seeding round: how many changes, how many the check as it stood before the round missed, how many the property's own check reports today."""
import os, json, glob
VERIF = os.path.dirname(os.path.dirname(os.path.abspath(__file__)))
rounds = {}
for mp in sorted(glob.glob(os.path.join(VERIF, 'seeded', 'C*-*', 'meta.json'))):
    sid = mp.split('/')[-2]
    n = int(sid.split('-')[1])
    r = (n + 1) // 2
    m = json.load(open(mp))
    d = rounds.setdefault(r, {'n': 0, 'missed_first': 0, 'reported_now': 0, 'not_reported': []})
    d['n'] += 1
    d['missed_first'] += 1 if m.get('missed_by_first_version') else 0
    if m.get('caught_by'):
        d['reported_now'] += 1
    else:
        d['not_reported'].append(sid)
print('| round | changes | missed by the check as it stood before the round | reported by the property\'s own check today | not reported |')
print('|---|---|---|---|---|')
for r in sorted(rounds):
    d = rounds[r]
    print('| %d | %d | %d | %d | %s |' % (r, d['n'], d['missed_first'], d['reported_now'], ', '.join(d['not_reported']) or '-'))
