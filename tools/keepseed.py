#!/usr/bin/env python3
"""Keep the seeded changes produced by independent sub-agents under /verif/seeded/<Cxx-n>/ and (re)compute which
checks report each of them.

usage: tools/keepseed.py import <agent-output-root> <eval-dir>   # copy confirmed seeds (patch.diff, demo, meta.json)
       tools/keepseed.py recheck [Cxx-n ...]                     # run all 20 quick checks on a scratch copy with the patch applied
Scratch copies live under /tmp and are removed afterwards; /repo itself is never touched."""
import os, sys, json, glob, shutil, subprocess

VERIF = os.path.dirname(os.path.dirname(os.path.abspath(__file__)))
sys.path.insert(0, VERIF)
sys.path.insert(0, os.path.join(VERIF, 'tools'))
os.environ.setdefault('VERIF_CANARY_TARGET', os.path.join(VERIF, '.cache', 'target-seedeval'))
import canary as ctool

SEEDED = os.path.join(VERIF, 'seeded')


def do_import(root, evald):
    for ev in sorted(glob.glob(os.path.join(evald, 'C*-*.json'))):
        sid = os.path.basename(ev)[:-5]
        d = json.load(open(ev))
        c = d.get('confirm', {})
        src = d['dir']
        meta = json.load(open(os.path.join(src, 'meta.json')))
        ok = c.get('demo_without_patch') == 'pass' and c.get('demo_with_patch') == 'fail' and c.get('patch_applies') \
            and not any(v['compile_error'] for v in c.get('existing_tests', {}).values())
        if not ok:
            print('SKIP (not confirmed)', sid, c)
            continue
        dst = os.path.join(SEEDED, sid)
        os.makedirs(dst, exist_ok=True)
        shutil.copy(os.path.join(src, 'patch.diff'), os.path.join(dst, 'patch.diff'))
        shutil.copy(os.path.join(src, meta['demo_file']), os.path.join(dst, meta['demo_file']))
        failing = {k: v['failed'] for k, v in c.get('existing_tests', {}).items() if v['failed']}
        out = {
            'property': meta['property'],
            'summary': meta.get('summary'),
            'needs_to_manifest': meta.get('needs_to_manifest'),
            'files_changed': meta.get('files_changed'),
            'demo_file': meta['demo_file'],
            'demo_install_path': meta['demo_install_path'],
            'demo_cmd': meta['demo_cmd'],
            'origin': 'written by an independent sub-agent that saw only the property text and a scratch worktree of /repo',
            'what_was_run': {
                'by_the_author': meta.get('checked'),
                'confirmation': 'in a fresh scratch git worktree of /repo (removed afterwards): demo installed, `%s` passes without the patch; `git apply patch.diff` succeeds; '
                                'the same command then fails; `cargo test -p <touched crate> --offline` without the demo compiles and has no failure outside the baseline always_fail set%s'
                                % (meta['demo_cmd'], (' (failing, all in BASELINE.always_fail: %s)' % failing) if failing else ''),
                'demo_failure_excerpt': c.get('demo_failure_excerpt'),
            },
        }
        old = os.path.join(dst, 'meta.json')
        if os.path.exists(old):
            prev = json.load(open(old))
            for k in ('caught_by', 'also_reported_by', 'missed_by_first_version'):
                if k in prev:
                    out[k] = prev[k]
        json.dump(out, open(old, 'w'), indent=1)
        print('kept', sid)


def recheck(ids):
    dirs = sorted(glob.glob(os.path.join(SEEDED, 'C*-*')))
    for d in dirs:
        sid = os.path.basename(d)
        if ids and sid not in ids:
            continue
        mp = os.path.join(d, 'meta.json')
        meta = json.load(open(mp))
        sd = ctool.scratch_copy()
        try:
            r = subprocess.run(['patch', '-p1', '-s', '-d', sd + '/repo', '-i', os.path.join(d, 'patch.diff')], capture_output=True, text=True)
            if r.returncode != 0:
                print(sid, 'PATCH DOES NOT APPLY', (r.stdout + r.stderr)[-200:])
                continue
            rep = {}
            own_only = os.environ.get('KEEPSEED_OWN_ONLY') == '1'
            for i in range(1, 21):
                pid = 'C%02d' % i
                if own_only and pid != meta['property']:
                    continue
                rc, o = ctool.run_check(sd, pid)
                if 'fact extraction failed' in o:
                    rep = {'error': o[-400:]}
                    break
                fired = [l.split('#', 1)[-1] for l in o.splitlines() if l.startswith('VIOLATION')]
                if fired:
                    rep[pid] = fired[:6]
            own = meta['property']
            if 'error' in rep:
                print(sid, 'EXTRACT-FAILED (meta.json left as it was)', rep['error'][-160:].replace('\n', ' '))
                continue
            meta['caught_by'] = rep.get(own, [])
            if not own_only:
                meta['also_reported_by'] = {k: v for k, v in rep.items() if k != own}
            json.dump(meta, open(mp, 'w'), indent=1)
            print(sid, 'own:', meta['caught_by'][:2], 'others:', sorted(meta.get('also_reported_by') or {}))
        finally:
            shutil.rmtree(sd, ignore_errors=True)


if __name__ == '__main__':
    if sys.argv[1] == 'import':
        do_import(sys.argv[2], sys.argv[3])
    else:
        recheck(sys.argv[2:])
