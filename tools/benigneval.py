#!/usr/bin/env python3
"""Run all twenty quick checks against a scratch copy of /repo with a behaviour-preserving patch applied and list every
alarm (each one is a false alarm to be fixed in the machinery).

usage: tools/benigneval.py <patch.diff> [<out.json>]
Scratch copies live under /tmp and are removed afterwards; /repo itself is never touched."""
import os, sys, json, subprocess, shutil

VERIF = os.path.dirname(os.path.dirname(os.path.abspath(__file__)))
sys.path.insert(0, VERIF)
sys.path.insert(0, os.path.join(VERIF, 'tools'))
import canary as ctool


def main(argv):
    patch = os.path.abspath(argv[0])
    d = ctool.scratch_copy()
    res = {'patch': patch, 'alarms': {}, 'applies': False}
    try:
        r = subprocess.run(['patch', '-p1', '-s', '-d', d + '/repo', '-i', patch], capture_output=True, text=True)
        res['applies'] = r.returncode == 0
        if r.returncode == 0:
            for i in range(1, 21):
                pid = 'C%02d' % i
                rc, out = ctool.run_check(d, pid)
                if 'fact extraction failed' in out:
                    res['alarms'][pid] = ['NOCOMPILE']
                    break
                v = [l.split('#', 1)[1] if '#' in l else l for l in out.splitlines() if l.startswith('VIOLATION')]
                if v or rc != 0:
                    res['alarms'][pid] = v or ['exit %d' % rc]
    finally:
        shutil.rmtree(d, ignore_errors=True)
    txt = json.dumps(res, indent=1)
    if len(argv) > 1:
        open(argv[1], 'w').write(txt)
    print(txt)
    return 0


if __name__ == '__main__':
    sys.exit(main(sys.argv[1:]))
