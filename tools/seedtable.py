#!/usr/bin/env python3
"""Print the markdown table of kept seeded changes (for DESIGN.md): id, what was changed, what it needs to show up,
which rule of the property's own check reports it, which other properties' checks report it too."""
import os, json, glob
VERIF = os.path.dirname(os.path.dirname(os.path.abspath(__file__)))
rows = []
for d in sorted(glob.glob(os.path.join(VERIF, 'seeded', 'C*-*'))):
    m = json.load(open(os.path.join(d, 'meta.json')))
    sid = os.path.basename(d)
    files = ', '.join(os.path.basename(f) for f in (m.get('files_changed') or []))
    summ = (m.get('summary') or '').replace('|', '/').replace('\n', ' ')
    summ = summ[:150] + ('…' if len(summ) > 150 else '')
    own = m.get('caught_by') or []
    own_s = '; '.join(('`%s`' % x[:70]) for x in own[:2]) or '**not reported**'
    oth = ', '.join(sorted((m.get('also_reported_by') or {}).keys())) or '—'
    first = 'missed' if m.get('missed_by_first_version') else 'caught'
    rows.append('| %s | %s | %s | %s | %s | %s |' % (sid, files, summ, first, own_s, oth))
print('| id | file(s) | change (abridged) | first version | reported by the property\'s own check (rule keys) | also reported under |')
print('|----|---------|-------------------|---------------|--------------------------------------------------|---------------------|')
print('\n'.join(rows))
