"""Interactive helper: `from tools.shell import *` gives F (facts), P (program), B(path), Ranges, canon."""
import os, sys
sys.path.insert(0, os.path.dirname(os.path.dirname(os.path.abspath(__file__))))
from sa import extract
from sa.facts import Facts
from sa.core import Program, callee_of, callee_names, is_call_to, unwrap, fold
from sa.ranges import Ranges, canon
facts_dir, info = extract.ensure_facts()
F = Facts(facts_dir)
Ranges.FNS = F.fns
P = Program(F)
B = P.B
