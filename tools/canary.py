#!/usr/bin/env python3
"""Apply one canary mutant (canaries/table.py) or a patch file to a scratch copy of /repo,
run ./check for the property against the copy, report whether the rule fired.

usage: tools/canary.py <canary-id>|--patch <file> <Cxx> [--keep]
       tools/canary.py --all [Cxx]
Scratch copies live under /tmp and are removed afterwards; the cargo target dir for
dependencies is shared with /verif/.cache/target (member crates are always rebuilt).
"""
import os, sys, subprocess, shutil, tempfile, json

VERIF = os.path.dirname(os.path.dirname(os.path.abspath(__file__)))
sys.path.insert(0, VERIF)


def scratch_copy():
    d = tempfile.mkdtemp(prefix='verif-canary-')
    subprocess.check_call(['rsync', '-a', '--exclude', 'target', '--exclude', '.git', '/repo/', d + '/repo/'])
    return d


def run_check(d, pid, tier='quick'):
    env = dict(os.environ, VERIF_REPO=d + '/repo', VERIF_CACHE=d + '/cache',
               VERIF_TARGET_DIR=os.environ.get('VERIF_CANARY_TARGET', os.path.join(VERIF, '.cache', 'target-canary')), VERIF_EVIDENCE_DIR=d + '/ev')
    r = subprocess.run([os.path.join(VERIF, 'check'), pid, '--tier', tier], env=env,
                       stdout=subprocess.PIPE, stderr=subprocess.STDOUT, text=True)
    return r.returncode, r.stdout


def apply_edit(d, file, old, new, count=1):
    p = os.path.join(d, 'repo', file)
    s = open(p).read()
    if s.count(old) < 1:
        raise SystemExit('canary: anchor text not found in %s: %r' % (file, old[:60]))
    s = s.replace(old, new, count)
    open(p, 'w').write(s)


def run_canary(c, keep=False, verbose=True):
    d = scratch_copy()
    try:
        for e in c['edits']:
            apply_edit(d, e['file'], e['old'], e['new'], e.get('count', 1))
        rc, out = run_check(d, c['property'])
        fired = [l for l in out.splitlines() if l.startswith('VIOLATION')]
        hit = [l for l in fired if c.get('expect', '') in l]
        compiled = 'fact extraction failed' not in out
        ok = bool(hit) and compiled
        if c.get('benign'):
            # behaviour-preserving edit: the check must stay silent
            ok = compiled and not fired and rc == 0
            if verbose:
                print('%s %-6s %-40s %s' % ('SILENT' if ok else ('NOCOMPILE' if not compiled else 'FALSE-ALARM'), c['property'], c['id'], (fired[0] if fired else '')[:150]))
            return ok, out
        if verbose:
            print('%s %-6s %-40s %s' % ('CAUGHT' if ok else ('NOCOMPILE' if not compiled else 'MISSED'), c['property'], c['id'],
                                        (hit[0].split('#', 1)[1] if hit else (fired[0] if fired else out.strip().splitlines()[-1]))[:150]))
        return ok, out
    finally:
        if not keep:
            shutil.rmtree(d, ignore_errors=True)
        else:
            print('kept', d)


def main(argv):
    from canaries.table import CANARIES
    if argv and argv[0] == '--patch':
        patch, pid = argv[1], argv[2]
        d = scratch_copy()
        try:
            subprocess.check_call(['patch', '-p1', '-s', '-d', d + '/repo', '-i', os.path.abspath(patch)])
            rc, out = run_check(d, pid)
            print(out)
            return rc
        finally:
            if '--keep' not in argv:
                shutil.rmtree(d, ignore_errors=True)
    if argv and argv[0] == '--all':
        sel = [c for c in CANARIES if len(argv) < 2 or c['property'] == argv[1]]
        bad = 0
        for c in sel:
            ok, _ = run_canary(c)
            bad += 0 if ok else 1
        print('%d canaries, %d missed' % (len(sel), bad))
        return 1 if bad else 0
    cid = argv[0]
    for c in CANARIES:
        if c['id'] == cid:
            ok, out = run_canary(c, keep='--keep' in argv)
            if '-v' in argv:
                print(out)
            return 0 if ok else 1
    print('unknown canary', cid)
    return 2


if __name__ == '__main__':
    sys.exit(main(sys.argv[1:]))
