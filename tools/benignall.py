#!/usr/bin/env python3
"""Run every kept behaviour-preserving refactoring (benign/b1/<id>/patch.diff, written by independent sub-agents) against all
twenty quick checks and list the alarms; writes benign/b1/STATUS.json.  Every alarm is a false alarm (DESIGN.md 10.5a / 10.6).

usage: tools/benignall.py [b1|b2] [<id> ...]      (scratch copies under /tmp, removed afterwards; /repo is never touched)"""
import os, sys, json, glob, subprocess

VERIF = os.path.dirname(os.path.dirname(os.path.abspath(__file__)))


def main(argv):
    rnd = 'b1'
    if argv and argv[0] in ('b1', 'b2'):
        rnd, argv = argv[0], argv[1:]
    ids = argv or sorted(os.path.basename(d) for d in glob.glob(os.path.join(VERIF, 'benign', rnd, 'C*-*')))
    status = {}
    sp = os.path.join(VERIF, 'benign', rnd, 'STATUS.json')
    if os.path.exists(sp):
        status = json.load(open(sp))
    for i in ids:
        patch = os.path.join(VERIF, 'benign', rnd, i, 'patch.diff')
        r = subprocess.run([sys.executable, os.path.join(VERIF, 'tools', 'benigneval.py'), patch], capture_output=True, text=True)
        try:
            res = json.loads(r.stdout)
        except Exception:
            res = {'alarms': {'?': [r.stdout[-300:] + r.stderr[-300:]]}, 'applies': False}
        status[i] = {'applies': res.get('applies'), 'alarms': res.get('alarms')}
        print(i, 'SILENT' if res.get('applies') and not res.get('alarms') else 'ALARMS %s' % {k: len(v) for k, v in (res.get('alarms') or {}).items()})
        json.dump(status, open(sp, 'w'), indent=1, sort_keys=True)
    n = sum(1 for v in status.values() if v['applies'] and not v['alarms'])
    print('%d of %d refactorings silent on all twenty checks' % (n, len(status)))
    return 0


if __name__ == '__main__':
    sys.exit(main(sys.argv[1:]))
