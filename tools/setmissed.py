#!/usr/bin/env python3
"""Record in seeded/<id>/meta.json whether the check as it stood before a seeding round reported the change.
usage: tools/setmissed.py <own-check.txt> <id offset>     (lines `Cxx/n: MISSED` or `Cxx/n: <keys>`; id = Cxx-(n+offset))"""
import sys, os, json, re
VERIF = os.path.dirname(os.path.dirname(os.path.abspath(__file__)))
f, off = sys.argv[1], int(sys.argv[2])
seen = {}
for line in open(f):
    m = re.match(r'(C\d\d)/(\d+):\s*(.*)$', line.strip())
    if m:
        seen['%s-%d' % (m.group(1), int(m.group(2)) + off)] = m.group(3).strip() == 'MISSED'
for sid, missed in sorted(seen.items()):
    p = os.path.join(VERIF, 'seeded', sid, 'meta.json')
    if not os.path.exists(p):
        print('no such seed', sid)
        continue
    d = json.load(open(p))
    d['missed_by_first_version'] = missed
    json.dump(d, open(p, 'w'), indent=1)
print(sum(seen.values()), 'missed of', len(seen))
