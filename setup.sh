#!/bin/bash
# Build the fact extractor offline and pre-warm dependency metadata.
set -e
cd "$(dirname "$0")"
export CARGO_NET_OFFLINE=true
(cd engine/mirfacts && cargo +nightly build --release --offline 2>&1 | tail -3)
python3 -m sa.extract --force
