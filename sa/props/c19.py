"""C19 — inbound routing is exact and the connection's receiver outlives bad input.

TABLE+PROV on route_message (who receives what, with which fields), CFG (a routing
error stays in the loop), static classification of the receiver loop's exits over
the set of errors the receive function can produce, DOM (deregistration only after
the loop, on every loop exit).
"""
from ..core import callee_of, callee_names, is_call_to, unwrap, receiver_root, dominating_edges
from ..families import produced_errors, display_table, text_may_contain, bodies_of_fn
from ..families import operand_chain as _chain19
from ..wire import _sccs

LOOP = 'edp_node::node::Node::spawn_receiver_task::{closure#0}'
ROUTE = 'edp_node::node::Node::route_message::{closure#0}'
RECV = 'edp_client::connection::Connection::receive_message_from_read_half'
CERR = 'edp_client::errors::Error'
CM = 'edp_client::control::ControlMessage'
MSG = 'edp_node::mailbox::Message'

# what the property requires of each error kind (statement of C19): the receiver keeps running across
# undecodable frames / odd control tuples / marker errors and quiet periods (read timeout while the peer ticks);
# it stops only when the peer closes the stream or breaks framing.
REQUIRED = {
    'Decode': 'continue', 'ContextualDecode': 'continue', 'InvalidControlMessage': 'continue', 'TermConversion': 'continue',
    'Protocol': 'continue', 'Timeout': 'continue',
    'Io': 'break', 'MessageTooLarge': 'break', 'ConnectionClosed': 'break', 'UnexpectedEof': 'break',
}

# expected routing table: control variant -> (recipient field, message variant, {message field: control field | 'payload'})
ROUTING = {
    'Send': ('to_pid', 'Regular', {'body': 'payload'}),
    'RegSend': ('to_name', 'Regular', {'body': 'payload'}),
    'Exit': ('to_pid', 'Exit', {'from': 'from_pid', 'reason': 'reason'}),
    'MonitorPExit': ('to_pid', 'MonitorExit', {'monitored': 'from_proc', 'reference': 'reference', 'reason': 'reason'}),
}


def cm_field(B, op, cm_local_names=('control_msg',)):
    """which field of the routed ControlMessage (or 'payload') an operand derives from"""
    base, projs = receiver_root(B, op)
    names = [p for p in projs if isinstance(p, str)]
    for p in names:
        if p == 'upvar:payload' or p == 'payload':
            return 'payload'
    # fields of the control message appear as projections after a downcast `as:Variant`
    var = None
    fld = None
    for i, p in enumerate(names):
        if p.startswith('as:') and p[3:] in ROUTING:
            var = p[3:]
            if i + 1 < len(names):
                fld = names[i + 1]
    if fld:
        return fld
    if base is not None and base[0] in ('local', 'arg'):
        n = B.local_name(base[1])
        if n == 'payload':
            return 'payload'
    return None


def run(ctx):
    P = ctx.P
    # ---------------- clause 1: routing table -------------------------------------------------------------
    ctx.rule('C19.1-routing', 'route_message delivers Send/RegSend/Exit/MonitorPExit to the recipient named by the control message with sender, reference and reason intact', floor=4)
    B = ctx.body(ROUTE)
    if B is not None:
        sends = [(bb, t) for bb, t in B.calls() if is_call_to(t, 'edp_node::process::ProcessHandle::send')]
        found = {}
        # delivery through a helper `deliver(pid, msg)` of the registry: same thing, one level down
        helpers_ = {}
        for q_ in ctx.F.bodies:
            if not (q_.startswith('edp_node::registry::') or q_.startswith('edp_node::process::')) or ctx.F.bodies[q_]['kind'] != 'AssocFn':
                continue
            for HB in bodies_of_fn(P, q_):
                for hb, ht in HB.calls():
                    if is_call_to(ht, 'edp_node::process::ProcessHandle::send') and len(ht['args']) > 1:
                        mroot = receiver_root(HB, ht['args'][1])[0]
                        chain = ' '.join(str(x) for x in _chain19(HB, ht['args'][0])) + str(HB.origin(ht['args'][0]))
                        if mroot and mroot[0] == 'arg' and ('::get' in chain):
                            # which parameter keys the lookup?
                            b0 = ctx.F.bodies[q_]
                            pidx = [i_ for i_ in range(1, b0.get('argc', 0) + 1) if 'ExternalPid' in b0['locals'][i_]['ty']]
                            midx = [i_ for i_ in range(1, b0.get('argc', 0) + 1) if 'Message' in b0['locals'][i_]['ty']]
                            if len(pidx) == 1 and len(midx) == 1:
                                helpers_[q_] = (pidx[0] - 1, midx[0] - 1)
        for bb, t in B.calls():
            hn = [n for n in callee_names(t) if n in helpers_]
            if not hn:
                continue
            pi_, mi_ = helpers_[hn[0]]
            arm = None
            for (src, vals, dst) in dominating_edges(B, bb):
                sd = B.switch_on_discr(src)
                if sd and sd[1] == CM and 'else' not in vals and len(vals) == 1:
                    arm = ctx.F.adts[CM]['variants'][vals[0]]['n']
            mo = B.origin(t['args'][mi_])
            mrv = mo[1] if mo[0] == 'agg' else None
            pb, pp = unwrap(B.origin(t['args'][pi_]))
            if pb is not None and pb[0] == 'call' and pb[1] and pb[1].endswith('ProcessRegistry::whereis'):
                wt = B.blocks[pb[2]]['t']
                found.setdefault(arm, []).append((bb, mrv, cm_field(B, wt['args'][1]), 'whereis'))
            else:
                found.setdefault(arm, []).append((bb, mrv, cm_field(B, t['args'][pi_]), 'pid'))
        for bb, t in sends:
            # which control variant arm are we in?
            arm = None
            for (src, vals, dst) in dominating_edges(B, bb):
                sd = B.switch_on_discr(src)
                if sd and sd[1] == CM and 'else' not in vals and len(vals) == 1:
                    arm = ctx.F.adts[CM]['variants'][vals[0]]['n']
            mo = B.origin(t['args'][1])
            mrv = mo[1] if mo[0] == 'agg' else None
            # recipient: handle <- registry.get(pid) ; pid <- (to_pid as Pid).0  or whereis(to_name)
            hbase, hprojs = unwrap(B.origin(t['args'][0]))
            recip = None
            via = None
            if hbase is not None and hbase[0] == 'call' and hbase[1] and hbase[1].endswith('ProcessRegistry::get'):
                gt = B.blocks[hbase[2]]['t']
                pb, pp = unwrap(B.origin(gt['args'][1]))
                if pb is not None and pb[0] == 'call' and pb[1] and pb[1].endswith('ProcessRegistry::whereis'):
                    wt = B.blocks[pb[2]]['t']
                    recip = cm_field(B, wt['args'][1])
                    via = 'whereis'
                else:
                    recip = cm_field(B, gt['args'][1])
                    via = 'pid'
            found.setdefault(arm, []).append((bb, mrv, recip, via))
        # a delivery that goes through an intermediate value (the arm only builds `Step { to, message }`, one send further down serves
        # several arms): the message literal of the arm, the send it flows into, and the recipient packed next to it
        for var, (rf, mvar, fmap) in ROUTING.items():
            if found.get(var):
                continue
            for lb, j_, st_ in B.stmts():
                if st_['k'] != '=' or st_['rv']['k'] != 'agg' or st_['rv'].get('adt') != MSG or st_['rv'].get('var') != mvar or lb not in B.live_blocks() or st_['pl'].get('p'):
                    continue
                arm = None
                for (src, vals, dst) in dominating_edges(B, lb):
                    sd = B.switch_on_discr(src)
                    if sd and sd[1].replace('&', '') == CM and 'else' not in vals and len(vals) == 1:
                        arm = ctx.F.adts[CM]['variants'][vals[0]]['n']
                if arm != var:
                    continue
                d_ = B.derived_locals([st_['pl']['l']]) | {st_['pl']['l']}
                reached = [bb for bb, t in sends if len(t['args']) > 1 and any(l in d_ for l in B._op_locals(t['args'][1]))]
                if not reached:
                    continue
                recip = None
                for wb, wj, wst in B.stmts():
                    if wst['k'] == '=' and wst['rv']['k'] == 'agg' and wst['rv'].get('adt') != MSG and wb in B.live_blocks() and any(l in d_ for o_ in wst['rv'].get('ops') or [] for l in B._op_locals(o_)):
                        for o_ in wst['rv'].get('ops') or []:
                            f_ = cm_field(B, o_) if o_.get('k') in ('cp', 'mv') else None
                            if f_ and f_ != 'payload' and not any(l in d_ for l in B._op_locals(o_)):
                                recip = recip or f_
                found.setdefault(var, []).append((reached[0], st_['rv'], recip, 'pid'))
        for var, (rf, mvar, fmap) in ROUTING.items():
            ents = found.get(var, [])
            if not ents:
                ctx.bad('C19.1-routing', var, 'no delivery found for %s in route_message' % var, ctx.where(B), key='TABLE:route_message:%s:missing' % var)
                continue
            for bb, mrv, recip, via in ents:
                problems = []
                if recip != rf:
                    problems.append('recipient resolved from %s, expected %s' % (recip, rf))
                if var == 'RegSend' and via != 'whereis':
                    problems.append('name not resolved through whereis')
                if mrv is None or mrv.get('adt') != MSG:
                    problems.append('delivered value is not a mailbox Message literal')
                else:
                    if mrv['var'] != mvar:
                        problems.append('delivers Message::%s, expected %s' % (mrv['var'], mvar))
                    for mf, cf in fmap.items():
                        if mf in mrv['fn']:
                            got = cm_field(B, mrv['ops'][mrv['fn'].index(mf)])
                            if got != cf:
                                problems.append('%s carries %s, expected %s' % (mf, got, cf))
                        else:
                            problems.append('message has no field %s' % mf)
                if problems:
                    ctx.bad('C19.1-routing', var, '; '.join(problems), ctx.where(B, bb), key='TABLE:route_message:%s' % var)
                else:
                    ctx.ok('C19.1-routing', var, '-> registry.get(%s%s) <- Message::%s %s' % (rf, ' via whereis' if via == 'whereis' else '', mvar, fmap), ctx.where(B, bb))
        for arm in found:
            if arm not in ROUTING:
                ctx.info_note('route_message also delivers in arm %s' % arm)

    ctx.rule('C19.1-lossless-delivery', 'route_message delivers through ProcessHandle::send, which waits for room in the recipient\'s mailbox instead of dropping the message when it is full', floor=1)
    from .c18 import handle_send_lossless
    handle_send_lossless(ctx, 'C19.1-lossless-delivery')

    # a message for an outstanding remote call: the lookup key identifies the reply pid completely
    ctx.rule('C19.1-rpc-key', 'the router finds an outstanding remote call by a key that depends on id, serial and creation of the addressed pid: '
             'a message for a pid that merely shares some of them (an unknown recipient) must not be handed to a waiting caller', floor=1)
    if B is not None:
        from ..families import key_fields
        from .c17 import map_calls
        rems = map_calls(B, 'pending_rpcs', 'remove') + map_calls(B, 'pending_rpcs', 'get') + map_calls(B, 'pending_rpcs', 'get_mut')
        ctx.anchor(len(rems) >= 1, ROUTE + ':pending_rpcs lookup')
        for rb_, rt_ in rems:
            fs, helpers = key_fields(P, B, rt_['args'][1], 'erltf::types::ExternalPid')
            want = {'id', 'serial', 'creation'}
            if fs >= want:
                ctx.ok('C19.1-rpc-key', 'route_message:lookup', 'key depends on %s' % sorted(fs), ctx.where(B, rb_))
            elif not fs:
                ctx.undecided('C19.1-rpc-key', 'route_message:lookup', 'key not traced to the addressed pid')
            else:
                ctx.bad('C19.1-rpc-key', 'route_message:lookup', 'the lookup key depends only on %s of the addressed pid (%s ignored): a message for an unknown pid that agrees in those fields is consumed by an outstanding call'
                        % (sorted(fs), sorted(want - fs)), ctx.where(B, rb_), key='CONST:route-rpc-key:missing:%s' % ','.join(sorted(want - fs)))

    # ---------------- loop structure -------------------------------------------------------------------------
    L = ctx.body(LOOP)
    if L is None:
        return
    recvs = [(bb, t) for bb, t in L.calls() if is_call_to(t, RECV)]
    routes = [(bb, t) for bb, t in L.calls() if is_call_to(t, 'edp_node::node::Node::route_message')]
    if not ctx.anchor(len(recvs) == 1 and len(routes) == 1, LOOP + ':{receive,route}'):
        return
    rb = recvs[0][0]
    comps = _sccs(L, L.live_blocks())
    loop = None
    for c in comps:
        if rb in c and len(c) > 1:
            loop = set(c)
    if not ctx.anchor(loop is not None, LOOP + ':receive loop'):
        return
    exits = [(u, v) for u in sorted(loop) for v in L.succ(u) if v not in loop]

    # the `match result` switch
    msw = None
    for bb in sorted(loop):
        sd = L.switch_on_discr(bb)
        if sd and sd[1].startswith('core::result::Result<(edp_client::control::ControlMessage'):
            msw = (bb, sd)
    if not ctx.anchor(msw is not None, LOOP + ':match result'):
        return
    mbb, (pl, ty, cases, els) = msw
    ok_t = [b for v, b in cases if v == 0]
    err_t = [b for v, b in cases if v == 1] or [els]
    ok_region = L.reachable(ok_t[0], removed_blocks=[rb]) if ok_t else set()
    err_region = L.reachable(err_t[0], removed_blocks=[rb])

    # ---------------- clause 2: routing errors stay in the loop ---------------------------------------------------
    ctx.rule('C19.2-route-error-continues', 'no loop exit lies on the Ok(message) arm: a routing failure or unknown recipient never ends the receiver', floor=1)
    ok_exits = [(u, v) for (u, v) in exits if u in ok_region and u not in err_region]
    if ok_exits:
        ctx.bad('C19.2-route-error-continues', 'ok-arm', 'the receiver loop can be left after a successfully received message (%d exit edges on the Ok arm)' % len(ok_exits),
                ctx.where(L, ok_exits[0][0]), key='CFG:%s:exit-on-ok-arm' % LOOP)
    else:
        ctx.ok('C19.2-route-error-continues', 'ok-arm', 'all %d loop exits are on the Err arm of the receive result' % len(exits), ctx.where(L, routes[0][0]))

    # ---------------- clause 3: classification of loop exits over the producible error set -----------------------------
    ctx.rule('C19.3-exit-classification', 'for every error the receive function can return, the loop continues on decode / control-parse / marker errors and read timeouts, and breaks only on I/O errors and over-long frames', floor=6)
    errs = produced_errors(P, RECV, CERR)
    ctx.anchor(len(errs) >= 5, RECV + ':producible error set')
    texts = display_table(P, CERR)
    # recognise the predicate on the Err arm
    pred = None
    for bb in sorted(err_region & loop):
        sb = L.switch_bool_edges(bb)
        if not sb:
            continue
        source, t_t, f_t = sb
        if source[0] == 'call' and is_call_to(source[2], 'core::str::<impl str>::contains'):
            needle = L.origin(source[2]['args'][1])
            hay = unwrap(L.origin(source[2]['args'][0]))[0]
            if needle[0] == 'const' and isinstance(needle[1], str):
                t_in = _stays(L, t_t, loop, rb)
                f_in = _stays(L, f_t, loop, rb)
                pred = ('substr', needle[1], 'continue' if t_in else 'break', 'continue' if f_in else 'break', bb)
    dsw = None
    if pred is None:
        for bb in sorted(err_region & loop):
            sd = L.switch_on_discr(bb)
            if sd and sd[1] == CERR:
                dsw = (bb, sd)
                break
    if pred is None and dsw is None:
        # no predicate at all: every error takes the same way
        same = 'continue' if _stays(L, err_t[0], loop, rb) else 'break'
        pred = ('const', None, same, same, err_t[0])
    variants = ctx.F.adts[CERR]['variants']

    def loop_does(v):
        if pred is not None and pred[0] == 'substr':
            m = text_may_contain(texts.get(v) if texts else None, pred[1])
            return 'either' if m == 'maybe' else (pred[2] if m == 'yes' else pred[3])
        if pred is not None:
            return pred[2]
        bb_, (pl_, ty_, cases_, els_) = dsw
        idx_ = [i for i, x in enumerate(variants) if x['n'] == v][0]
        return 'continue' if _stays(L, dict(cases_).get(idx_, els_), loop, rb) else 'break'
    # whatever a decoding-layer error is converted into (by `?`) must be one of the kinds the loop survives: the conversion,
    # not only the variant name, decides what an undecodable frame looks like to the loop
    from ..families import from_impl_variants
    conv = from_impl_variants(P, CERR)
    for src in sorted(conv):
        if not (src.rsplit('::', 1)[-1] in ('DecodeError', 'ContextualDecodeError', 'TermConversionError')):
            continue
        for v in sorted(conv[src]):
            inst = 'From<%s>->%s' % (src.rsplit('::', 1)[1], v)
            got = loop_does(v)
            if got == 'continue':
                ctx.ok('C19.3-exit-classification', inst, 'an undecodable term becomes Error::%s, on which the loop continues' % v)
            elif got == 'either':
                ctx.undecided('C19.3-exit-classification', inst, 'Error::%s: loop behaviour not decided' % v)
            else:
                ctx.bad('C19.3-exit-classification', inst, 'a %s (an undecodable term in a correctly framed message) is converted into Error::%s, on which the receiver loop breaks: '
                        'one bad frame ends the receiver and deregisters the connection although the peer neither closed the stream nor broke framing' % (src.rsplit('::', 1)[1], v),
                        ctx.where(L, pred[4] if pred else dsw[0]), key='EXIT:%s:From<%s>->%s->break' % (LOOP, src.rsplit('::', 1)[1], v))
    for v in sorted(errs):
        if v.startswith('?'):
            ctx.undecided('C19.3-exit-classification', v, errs[v])
            continue
        if pred is not None and pred[0] == 'substr':
            m = text_may_contain(texts.get(v) if texts else None, pred[1])
            if m == 'maybe':
                got = 'either'
            else:
                got = pred[2] if m == 'yes' else pred[3]
            how = 'Display text %s the substring %r' % ({'yes': 'contains', 'no': 'does not contain', 'maybe': 'is entirely a hole; may contain'}[m], pred[1])
        elif pred is not None:
            got = pred[2]
            how = 'no predicate on the error: every error takes the same edge'
        else:
            bb, (pl, ty, cases, els) = dsw
            idx = [i for i, x in enumerate(variants) if x['n'] == v][0]
            tgt = dict(cases).get(idx, els)
            got = 'continue' if _stays(L, tgt, loop, rb) else 'break'
            how = 'discriminant switch'
        want = REQUIRED.get(v)
        where = ctx.where(L, pred[4] if pred else dsw[0])
        if want is None or got == 'either':
            ctx.undecided('C19.3-exit-classification', v, 'loop does %s (%s); no requirement stated for this error kind (%s)' % (got, how, errs[v]), where)
        elif got == want:
            ctx.ok('C19.3-exit-classification', v, '%s (%s) [%s]' % (got, how, errs[v]), where)
        else:
            ctx.bad('C19.3-exit-classification', v, 'receiver loop does `%s` on Error::%s but must `%s` (%s; %s)' % (got, v, want, how, errs[v]), where,
                    key='EXIT:%s:%s->%s' % (LOOP, v, got))

    # ---------------- clause 5: a tick restarts the wait ------------------------------------------------------------------
    ctx.rule('C19.5-tick-restarts-wait', 'inside the read loop of the split receive function every read waits for a duration counted from that read (tokio::time::timeout), never against a deadline '
             'fixed before the loop: otherwise a peer that only ticks runs the receiver into a timeout although it is alive', floor=2)
    RB = P.B(RECV + '::{closure#0}')
    if ctx.anchor(RB is not None, RECV + '::{closure#0}'):
        rcomps = _sccs(RB, RB.live_blocks())
        reads = [bb for bb, t in RB.calls() if any(n.endswith('read_exact') for n in callee_names(t))]
        rloop = None
        for c in rcomps:
            if len(c) > 1 and any(r_ in c for r_ in reads):
                rloop = set(c) if rloop is None or len(c) > len(rloop) else rloop
        if ctx.anchor(rloop is not None, RECV + ':read loop'):
            k = 0
            rscope = set(rloop)
            for x_ in sorted(rloop):
                rscope |= RB.reachable(x_)
            for bb, t in RB.calls():
                names = callee_names(t)
                if bb not in rscope or not any(n.startswith('tokio::time::') for n in names):
                    continue
                nm = names[0].rsplit('::', 1)[1]
                if nm not in ('timeout', 'timeout_at', 'sleep', 'sleep_until', 'interval_at'):
                    continue
                k += 1
                inst = 'read-loop:%s#%d' % (nm, k)
                if nm in ('timeout', 'sleep'):
                    ctx.ok('C19.5-tick-restarts-wait', inst, 'relative wait, restarted on every iteration', ctx.where(RB, bb))
                    continue
                # absolute deadline: where is it computed?
                from ..core import value_path
                dl = t['args'][0]
                cur, defbb = dl, None
                for _ in range(12):
                    if cur.get('k') not in ('cp', 'mv'):
                        break
                    d_ = RB.single_def(cur['pl']['l'])
                    if d_ is None:
                        break
                    defbb = d_[1]
                    if d_[0] == 't':
                        break
                    rv_ = d_[3]['rv']
                    if rv_['k'] in ('use', 'cast'):
                        cur = rv_['op']
                    elif rv_['k'] == 'ref':
                        cur = {'k': 'cp', 'pl': {'l': rv_['pl']['l']}}
                    else:
                        break
                if defbb is not None and defbb in rloop:
                    ctx.ok('C19.5-tick-restarts-wait', inst, 'deadline computed inside the loop', ctx.where(RB, bb))
                elif defbb is None:
                    ctx.undecided('C19.5-tick-restarts-wait', inst, 'origin of the deadline not found')
                else:
                    ctx.bad('C19.5-tick-restarts-wait', inst, 'the read waits against a deadline computed before the loop (bb%d): ticks, which send the loop round again, do not extend it, '
                            'so a connection whose peer only ticks for longer than the timeout fails with Timeout and the receiver stops' % defbb, ctx.where(RB, bb),
                            key='DOM:%s:deadline-outside-loop' % RECV)

    # ---------------- clause 4: deregistration only after the loop, on every exit ------------------------------------------
    ctx.rule('C19.4-deregister-after-loop', 'connections.remove runs only after the receiver loop has ended, and on every path from a loop exit to the end of the task', floor=1)
    rems = []
    for bb, t in L.calls():
        if any(n == 'dashmap::DashMap::<K, V, S>::remove' for n in callee_names(t)):
            base, projs = unwrap(L.origin(t['args'][0]))
            if any('connections' in str(p) for p in projs) or (base[0] in ('local', 'arg') and L.local_name(base[1]) == 'connections'):
                rems.append(bb)
    if not ctx.anchor(len(rems) >= 1, LOOP + ':connections.remove'):
        return
    inside = [b for b in rems if b in loop]
    after_all = all(L.all_paths_pass(v, rems) for (u, v) in exits)
    if inside:
        ctx.bad('C19.4-deregister-after-loop', 'remove', 'connections.remove is executed inside the receiver loop', ctx.where(L, inside[0]), key='DOM:%s:remove-inside-loop' % LOOP)
    elif not after_all:
        ctx.bad('C19.4-deregister-after-loop', 'remove', 'a loop exit reaches the end of the task without connections.remove', ctx.where(L, rems[0]), key='DOM:%s:remove-skipped' % LOOP)
    else:
        ctx.ok('C19.4-deregister-after-loop', 'remove', 'outside the loop; every one of the %d exit edges leads through it' % len(exits), ctx.where(L, rems[0]))

    # dependency: Atom::new
    ctx.rule('C19.1-atom-interning', 'registered names and exit / monitor reasons arrive as atoms created with Atom::new: its interning tables agree entry by entry ("reason intact")', floor=1)
    from ..etf import check_atom_tables
    check_atom_tables(ctx, 'C19.1-atom-interning')

    # deregistration (connections.remove in the receiver task) takes the write lock of a table shard: it waits for every entry guard on it
    ctx.rule('C19.4-table-guard-scope', 'a task that holds an entry guard of a node table (DashMap get / get_mut / entry / iter) across an await only awaits the connection\'s own mutex or one of its send operations; '
             'it never waits for a reply, a timer or a channel with the guard alive - the receiver could not deregister the connection (nor route the reply) until that wait ends; a rule about what must not be there, so it may have no instance', floor=0)
    from ..families import guard_flow
    n_g = 0
    for q in sorted(ctx.F.bodies):
        if 'edp_node::' not in q:
            continue
        GB = P.B(q)
        if GB is None:
            continue
        ys = [i for i, blk in enumerate(GB.blocks) if blk['t']['k'] == 'yield' and i in GB.live_blocks()]
        if not ys:
            continue
        polls = [(bb, t) for bb, t in GB.calls() if (callee_of(t)[0] or '').endswith('Future::poll')]
        for bb, t in GB.calls():
            n = callee_of(t)[0] or ''
            if not (n.startswith('dashmap::DashMap') and n.rsplit('::', 1)[-1] in ('get', 'get_mut', 'entry', 'iter', 'iter_mut')):
                continue
            sin, _bt = guard_flow(GB, bb)
            held = [y for y in ys if sin.get(y)]
            if not held:
                continue
            n_g += 1
            inst = '%s:%s@%d' % (q.replace('edp_node::', '').split('::{')[0], n.rsplit('::', 1)[-1], n_g)
            foreign = []
            for y in held:
                ps = [(pb, pt) for pb, pt in polls if GB.block_dominates(pb, y)]
                if not ps:
                    foreign.append((y, 'an unidentified future'))
                    continue
                pb, pt = max(ps, key=lambda x: sum(1 for y_ in ps if GB.block_dominates(y_[0], x[0])))      # the innermost dominating poll (block numbers say nothing after inlining)
                o = GB.origin(pt['args'][0])
                fut = str(o[1]) if o and o[0] == 'call' else 'an unidentified future'
                if fut.startswith('tokio::sync::mutex::Mutex') or fut.startswith('edp_client::connection::Connection::'):
                    continue
                foreign.append((y, fut))
            if foreign:
                ctx.bad('C19.4-table-guard-scope', inst, 'the table guard taken here is still alive while the task awaits %s: until that completes the receiver cannot remove the connection from the table' % foreign[0][1],
                        ctx.where(GB, foreign[0][0]), key='LOCK:%s:table-guard-across-%s' % (q.split('::{')[0], foreign[0][1].rsplit('::', 1)[-1]))
            else:
                ctx.ok('C19.4-table-guard-scope', inst, 'held across %d await(s): the connection mutex and its send operation only' % len(held), ctx.where(GB, bb))

    # an error raised between the length prefix and the body leaves the body in the stream: going on reading would take its
    # bytes for frames.  Such an error must be of a kind the receiver loop stops on.
    ctx.rule('C19.3-sync-after-error', 'every error the split receive function constructs after it has read a length prefix and before it has read that many body bytes is of a kind on which the receiver loop stops: '
             'continuing would parse the unread body as further frames (and deliver what they happen to spell)', floor=1)
    n_se = 0
    for RB in bodies_of_fn(P, RECV):
        reads = [(bb, t) for bb, t in RB.calls() if any(n.endswith('::read_exact') for n in callee_names(t))]
        if len(reads) < 2:
            continue
        first = [r for r in reads if not any(RB.block_dominates(o[0], r[0]) and o[0] != r[0] for o in reads)]
        later = [r for r in reads if r not in first]
        for bb, j, st in RB.stmts():
            if not (st['k'] == '=' and st['rv']['k'] == 'agg' and st['rv'].get('adt') == CERR):
                continue
            v = st['rv']['var']
            if not any(RB.block_dominates(f[0], bb) for f in first):
                continue
            if any(RB.block_dominates(l_[0], bb) for l_ in later):
                continue
            n_se += 1
            inst = '%s#%d' % (v, n_se)
            does = loop_does(v)
            where = ctx.where(RB, ln=st['ln'])
            if does == 'break':
                ctx.ok('C19.3-sync-after-error', inst, 'Error::%s is raised with the body unread; the loop stops on it' % v, where)
            elif does == 'either':
                ctx.undecided('C19.3-sync-after-error', inst, 'Error::%s is raised with the body unread; what the loop does on it is not decided' % v, where)
            else:
                ctx.bad('C19.3-sync-after-error', inst, 'Error::%s is raised after the length prefix was read and before the body was: the receiver loop continues on this kind of error and reads the unread body as the next frames'
                        % v, where, key='EXIT:%s:%s-with-body-unread->continue' % (RECV, v))
    ctx.anchor(n_se >= 1, 'an error raised between length and body reads in ' + RECV)

    # what is delivered is what the peer sent: the payload rule of the receive paths (C06.4) re-run
    from .c06 import payload_rules as _payload_rules
    _payload_rules(ctx, 'C19.1-payload-kept')

    from ..families import check_error_swallow as _swallow
    ctx.rule('C19.2-errors-surface', 'in the functions of this property that can themselves report failure, the Result of one of the repository\'s own fallible functions is never turned into "nothing" or a default (ok(), unwrap_or*, map_or*): an error must surface as an error, not as a value the callee never produced; a rule about what must not be there (exercised on the fixture every run)', floor=0)
    _swallow(ctx, P, 'C19.2-errors-surface', ('edp_node::node::Node::spawn_receiver_task', 'edp_node::node::Node::route_message', 'edp_client::connection::Connection::receive_message_from_read_half'))

    # a reply reaches its outstanding call only if nobody else empties the table of outstanding calls: rule C17.4 re-run
    ctx.rule('C19.1-call-table-untouched', 'the table of outstanding remote calls is touched only by the call itself and by the router, and every call registers under a pid freshly taken from the allocator (rules C17.4-table-accessors and '
             'C17.2-fresh-key re-run): a receiver that clears the table when ITS peer goes away cancels the calls waiting on every other peer; a reply pid that is handed to a later call again makes the router deliver the late answer '
             'of an expired call to that later call', floor=2)
    from ..order import SubCtx as _Sub19
    from . import c17 as _c17
    if type(ctx).__name__ != 'SubCtx':     # (C17 re-runs rules of this module: do not chase the circle)
        _c17.run(_Sub19(ctx, 'C19.1-call-table-untouched', 'c17', allow=('C17.4-table-accessors', 'C17.2-fresh-key', 'C17.1-register-before-send')))

    # "exactly that recipient": the tables are keyed by pid, so what a pid IS (node, id, serial, creation) decides who gets the message
    # REG_SEND goes to whoever holds the name: the name table is the registry's
    ctx.rule('C19.1-name-table', 'a message to a registered name reaches the process that registered it: a name is never overwritten, the names of a process leave the table when (and only when) that process goes, '
             'and tables that index the same registrations stay in step (rules C18.2-vacant-insert, C18.1-exit-cleans-registry, C18.2-paired-indexes re-run): a refused registration that leaves a trace '
             'takes the name away from its live owner when the refused process exits', floor=3)
    from ..order import SubCtx as _Sub19n
    from . import c18 as _c18_19
    if type(ctx).__name__ != 'SubCtx':
        _c18_19.run(_Sub19n(ctx, 'C19.1-name-table', 'c18', allow=('C18.2-vacant-insert', 'C18.1-exit-cleans-registry', 'C18.2-paired-indexes')))

    ctx.rule('C19.1-recipient-identity', 'equality, hash and order of the identifier types read all their logical fields - creation included (rule C10.3-logical-fields re-run): '
             'a pid of an earlier incarnation of the node (same id and serial, other creation) must not resolve to a live process', floor=9)
    from ..order import SubCtx as _SubRI
    from . import c10 as _c10ri
    _c10ri.run(_SubRI(ctx, 'C19.1-recipient-identity', 'c10', allow=('C10.3-logical-fields',)))

    from .c18 import rwlock_guard_rules as _rwl
    _rwl(ctx, 'C19.4-table-guards-not-across-awaits')

    # "the receiver outlives bad input": a panic in the receive function kills the receiver task - no error value, no loop to go on with
    ctx.rule('C19.2-receive-path-total', 'the functions the receiver task calls for every frame (the split receive function, the frame classification and decoding glue spliced into it, decode_complete_fragment) '
             'have no undischarged panic-capable site (rule C06.1-no-panic re-run): a frame that makes them panic ends the task and with it every later delivery', floor=3)
    from ..order import SubCtx as _Sub19p
    from . import c06 as _c06_19
    if type(ctx).__name__ != 'SubCtx':
        _c06_19.run(_Sub19p(ctx, 'C19.2-receive-path-total', 'c06', allow=('C06.1-no-panic', 'C06.1-fragment-decoders-total')))


def _outcomes(L, start, loop, recv_bb):
    """Outcomes {'continue','break'} reachable from `start`, propagating constant bools assigned on the
    path (the lowering of `matches!(e, A | B)` assigns true/false per arm and branches on it later)."""
    out = set()
    seen = set()
    stack = [(start, ())]
    while stack:
        bb, env = stack.pop()
        if (bb, env) in seen:
            continue
        seen.add((bb, env))
        if bb not in loop:
            out.add('break')
            continue
        if bb == recv_bb:
            out.add('continue')
            continue
        e = dict(env)
        for st in L.blocks[bb]['s']:
            if st['k'] == '=' and not st['pl'].get('p'):
                rv = st['rv']
                if rv['k'] == 'use' and rv['op']['k'] == 'c' and rv['op'].get('ty') == 'bool' and 'v' in rv['op']:
                    e[st['pl']['l']] = rv['op']['v']
                elif rv['k'] == 'use' and rv['op']['k'] in ('cp', 'mv') and not rv['op']['pl'].get('p') and rv['op']['pl']['l'] in e:
                    e[st['pl']['l']] = e[rv['op']['pl']['l']]
                else:
                    e.pop(st['pl']['l'], None)
        t = L.blocks[bb]['t']
        nxt = L.succ(bb)
        if t['k'] == 'switch' and t['dty'] == 'bool' and t['d']['k'] in ('cp', 'mv') and not t['d']['pl'].get('p') and t['d']['pl']['l'] in e:
            val = e[t['d']['pl']['l']]
            tgt = dict((v, b) for v, b in t['cases']).get(val, t['else'])
            nxt = [tgt]
        if t['k'] == 'call' and not t['dst'].get('p'):
            e.pop(t['dst']['l'], None)
        env2 = tuple(sorted(e.items()))
        for s_ in nxt:
            stack.append((s_, env2))
    return out


def _stays(L, start, loop, recv_bb):
    o = _outcomes(L, start, loop, recv_bb)
    return o == {'continue'}


def _stays_old(L, start, loop, recv_bb):
    """does control from `start` come back to the receive call without leaving the loop (on every path)?"""
    if start not in loop:
        return False
    seen = {start}
    stack = [start]
    while stack:
        x = stack.pop()
        if x == recv_bb:
            continue
        for s in L.succ(x):
            if s not in loop:
                return False
            if s not in seen:
                seen.add(s)
                stack.append(s)
    return True
