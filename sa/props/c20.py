"""C20 — Elixir wrappers and proplist/map helpers convert back to what went in.

CONST: keys / struct names written by `From<T> for OwnedTerm` vs read by from_term;
CAST over every from_term; validating-constructor rule; overflow PANIC over range.rs;
wire closure of 64-bit fields; sibling agreement of the proplist helpers.
"""
from ..core import callee_of, callee_names, is_call_to, unwrap, fold, exclusive_blocks
from ..ranges import Ranges, canon, ty_range, INT
from ..families import check_casts, check_panics, bodies_of_fn, describe

CR = 'edp_elixir_terms::'
WRAPPERS = {
    'ElixirRange': 'range::ElixirRange', 'ElixirMapSet': 'map_set::ElixirMapSet', 'ElixirDate': 'date_time::ElixirDate',
    'ElixirTime': 'date_time::ElixirTime', 'ElixirNaiveDateTime': 'date_time::ElixirNaiveDateTime', 'ElixirDateTime': 'date_time::ElixirDateTime',
}


def atom_strings(B):
    """string constants that are wrapped into atoms (Atom::new("..")) or compared as struct names in body B"""
    out = set()
    for bb, t in B.calls():
        g, r = callee_of(t)
        if g and (g.endswith('types::Atom::new') or g.endswith('Atom::new')):
            for a in t['args']:
                o = B.origin(a)
                if o[0] == 'const' and isinstance(o[1], str):
                    out.add(o[1])
    for bb, j, st in B.stmts():
        if st['k'] == '=' and st['rv']['k'] == 'use' and st['rv']['op']['k'] == 'c' and 's' in st['rv']['op']:
            out.add(st['rv']['op']['s'])
        if st['k'] == '=' and st['rv']['k'] == 'agg':
            for o in st['rv']['ops']:
                if o['k'] == 'c' and 's' in o:
                    out.add(o['s'])
    for bb, t in B.calls():
        for a in t['args']:
            if a['k'] == 'c' and 's' in a:
                out.add(a['s'])
    return out


def run(ctx):
    P = ctx.P
    # ---------------- clause 1: keys written == keys read ---------------------------------------------------
    ctx.rule('C20.1-keys', 'for each wrapper the atom keys and the struct module name written by `From<T> for OwnedTerm` are the ones from_term reads', floor=6)
    import re
    pairs = {}
    for p in ctx.F.bodies:
        m = re.search(r'<impl core::convert::From<(edp_elixir_terms::[A-Za-z0-9_:]+)> for erltf::term::OwnedTerm>::from$', p)
        if m:
            pairs[m.group(1)] = p
    ctx.anchor(len(pairs) >= 6, 'From<wrapper> for OwnedTerm impls (>= 6)')
    for ty, to_path in sorted(pairs.items()):
        name = ty.rsplit('::', 1)[1]
        to = P.B(to_path)
        fr = P.B(ty + '::from_term')
        if fr is None:
            ctx.info_note('%s has a to-term conversion but no from_term' % name)
            continue
        def reach_strings(root, stop_suffix):
            out = set()
            for q in P.reachable_from([root]):
                if ctx.F.bodies[q]['crate'] != 'edp_elixir_terms':
                    continue
                if q != root and q.split('::{')[0].endswith(stop_suffix):
                    continue
                out |= atom_strings(P.B(q))
            return out
        # wrappers may build / read their map through helper methods (to_term, exception helpers)
        w = reach_strings(to.path, '::from_term')
        r = reach_strings(fr.path, '>::from')
        w = {x for x in w if x and x not in ('__struct__', '__exception__', 'calendar', 'true', 'false', 'nil') and not x.startswith('Elixir.Calendar')}
        struct_w = {x for x in w if x.startswith('Elixir.')}
        struct_r = {x for x in r if x.startswith('Elixir.')}
        keys_w = {x for x in w if not x.startswith('Elixir.') and x not in ('Etc/UTC', 'UTC')}
        missing = {x for x in keys_w if x not in r}
        if struct_w and not (struct_w <= struct_r):
            ctx.bad('C20.1-keys', name + ':struct', 'writes __struct__ = %s, from_term tests for %s' % (sorted(struct_w), sorted(struct_r)), ctx.where(fr), key='CONST:%s:struct-name' % ty)
        elif missing:
            ctx.bad('C20.1-keys', name, 'writes the keys %s which from_term never looks up (it reads %s): the field is lost or the conversion fails' % (sorted(missing), sorted(x for x in r if not x.startswith('Elixir.'))[:12]),
                    ctx.where(fr), key='CONST:%s:keys:%s' % (ty, ','.join(sorted(missing))))
        else:
            ctx.ok('C20.1-keys', name, 'struct %s, keys %s' % (sorted(struct_w), sorted(keys_w)))

    # ---------------- clause 2: no fabricated values ------------------------------------------------------------------
    ctx.rule('C20.2-no-truncation', 'a term field narrowed to u8/u32/i32 in a from_term is range-checked (an out-of-range field must be rejected, not wrapped into a plausible value); zero sites today, the rule is exercised on the positive fixture every run')
    ctx.rule('C20.2-validated', 'a wrapper that has a validating constructor (try_new) builds its from_term result through it, so out-of-range calendar fields are rejected', floor=2)
    roots = []
    for p in sorted(ctx.F.bodies):
        if not p.startswith(CR):
            continue
        base = p.split('::{')[0]
        if base.rsplit('::', 1)[-1] in ('from_term', 'try_from_term', 'from_map', 'parse') or 'from_term' in base:
            roots.append(p)
    # the conversion functions and every helper of the crate they call (field extraction is often factored out)
    scope = sorted(q for q in P.reachable_from(roots) if q.startswith(CR) and ctx.F.bodies[q]['kind'] in ('Fn', 'AssocFn', 'Closure'))
    ctx.anchor(len(roots) >= 6, 'from_term conversions (>= 6)')
    for q in scope:
        check_casts(ctx, P.B(q), 'C20.2-no-truncation', include_float=False)
    ctx.info_note('C20.2-no-truncation scanned %d functions reachable from %d from_term conversions' % (len(scope), len(roots)))
    # a term of the wrong shape is rejected, which means: None / Err, not a panic on the first missing element
    ctx.rule('C20.2-shape-before-access', 'in every from_term conversion (and the helpers it calls) each positional access tuple[i] / list[i] / slice is dominated by a test that establishes the length it needs: '
             'a term of the wrong shape is turned away, it does not panic the conversion', floor=1)
    n_sites = 0
    for q in scope:
        n_sites += check_panics(ctx, P.B(q), 'C20.2-shape-before-access', kinds=('bounds', 'index', 'slice', 'map-index'), key_prefix='PANIC')
    # (how many positional accesses there are is a matter of style - `t[1]` behind a length test or a slice pattern; the scan of the scope is the instance)
    ctx.anchor(len(scope) >= 6, 'from_term conversions and their helpers (at least six bodies examined for positional accesses)')
    for name, path in WRAPPERS.items():
        ty = CR + path
        if P.B(ty + '::try_new') is None:
            continue
        fr = P.B(ty + '::from_term')
        if fr is None:
            continue
        lits = [(bb, st) for bb, j, st in fr.stmts() if st['k'] == '=' and st['rv']['k'] == 'agg' and st['rv'].get('adt') == ty and 0 in fr.derived_locals([st['pl']['l']])]
        calls = [(bb, t) for bb, t in fr.calls() if is_call_to(t, ty + '::try_new')]
        if calls and not lits:
            ctx.ok('C20.2-validated', name, 'from_term returns the result of try_new', ctx.where(fr))
        elif lits:
            ctx.bad('C20.2-validated', name, 'from_term builds %s with a struct literal although the type has the validating constructor try_new: month 13, hour 99 or precision 200 are accepted as they come' % name,
                    ctx.where(fr, lits[0][0]), key='WHO:%s::from_term:unvalidated-literal' % ty)
        else:
            ctx.undecided('C20.2-validated', name, 'construction not recognised')

    # ---------------- clause 3: range arithmetic ------------------------------------------------------------------------
    ctx.rule('C20.3-range-arith', 'length, membership test and iteration of a range never overflow: no unchecked Sub / Neg / abs / Add on the 64-bit bounds', floor=8)
    for p in sorted(ctx.F.bodies):
        if (CR + 'range::') in p and ctx.F.bodies[p]['kind'] in ('Fn', 'AssocFn', 'Closure'):
            check_panics(ctx, P.B(p), 'C20.3-range-arith', kinds=('overflow', 'div0', 'partial'), key_prefix='OVERFLOW')
            check_casts(ctx, P.B(p), 'C20.3-range-arith', include_float=False)

    # wrapping arithmetic does not panic, it silently yields a value on the other side of the number line: on the bounds of a
    # range that is an overflow all the same (an iterator that walks past i64::MIN and comes back from i64::MAX)
    ctx.rule('C20.3-no-silent-wrap', 'no wrapping_add / wrapping_sub / wrapping_mul / wrapping_neg on the 64-bit bounds, cursor or step of a range unless the interval analysis shows the exact result fits the type', floor=0)
    from ..ranges import Ranges as _R, ty_range as _tyr
    for p in sorted(ctx.F.bodies):
        if not ((CR + 'range::') in p and ctx.F.bodies[p]['kind'] in ('Fn', 'AssocFn', 'Closure')):
            continue
        WB = P.B(p)
        R_ = None
        k_ = 0
        for bb, t in WB.calls():
            nm = callee_of(t)[0] or ''
            short = nm.rsplit('::', 1)[-1]
            if not (nm.startswith('core::num::') and short in ('wrapping_add', 'wrapping_sub', 'wrapping_mul', 'wrapping_neg')):
                continue
            R_ = R_ or _R(WB)
            k_ += 1
            ty = (t.get('aty') or ['i64'])[0]
            tr = _tyr(ty) or (-2 ** 63, 2 ** 63 - 1)
            a = R_.range_of(t['args'][0], bb)
            b = R_.range_of(t['args'][1], bb) if len(t['args']) > 1 else (0, 0)
            if short == 'wrapping_add':
                lo, hi = a[0] + b[0], a[1] + b[1]
            elif short == 'wrapping_sub':
                lo, hi = a[0] - b[1], a[1] - b[0]
            elif short == 'wrapping_mul':
                c_ = [a[0] * b[0], a[0] * b[1], a[1] * b[0], a[1] * b[1]]
                lo, hi = min(c_), max(c_)
            else:
                lo, hi = -a[1], -a[0]
            inst = '%s:%s#%d' % (p, short, k_)
            if lo >= tr[0] and hi <= tr[1]:
                ctx.ok('C20.3-no-silent-wrap', inst, 'exact result in [%s, %s] fits %s' % (lo, hi, ty), ctx.where(WB, bb))
            elif any(R_.uninterpreted_mentions(bb, canon(WB, x)) for x in t['args']):
                ctx.undecided('C20.3-no-silent-wrap', inst, 'a dominating condition mentions the operands but the result range [%s, %s] could not be shown to fit' % (lo, hi), ctx.where(WB, bb))
            else:
                ctx.bad('C20.3-no-silent-wrap', inst, '%s on range state may wrap around (exact result in [%s, %s], %s holds [%s, %s]): length, membership and iteration no longer describe the same set' % (short, lo, hi, ty, tr[0], tr[1]),
                        ctx.where(WB, bb), key='OVERFLOW:%s:%s' % (p, short))

    # membership: the stride is counted from `first` (the element iteration starts from), whatever the direction
    ctx.rule('C20.3-membership-anchor', 'contains() tests the stride on the distance between the value and `first`: every remainder in it divides (value - first) or (first - value); '
             'measuring from `last` selects the wrong residue class whenever last is not itself an element (10..0//-3)', floor=1)
    CB = P.B(CR + 'range::ElixirRange::contains')
    if ctx.anchor(CB is not None, CR + 'range::ElixirRange::contains'):
        k = 0
        for bb, j, st in CB.stmts():
            if not (st['k'] == '=' and st['rv']['k'] == 'bin' and st['rv']['op'] == 'Rem'):
                continue
            k += 1
            inst = 'contains:rem#%d' % k
            a = canon(CB, st['rv']['a'])
            leaves = []

            def walk(c):
                if isinstance(c, tuple) and c and c[0] in ('bin',):
                    walk(c[2]); walk(c[3])
                elif isinstance(c, tuple) and c and c[0] in ('cast', 'un'):
                    walk(c[-1])
                else:
                    leaves.append(c)
            walk(a)
            txt = ' '.join(str(x) for x in leaves)
            # definitions of any plain local among the leaves (a `(low, high)` tuple chosen by a conditional)
            for x in leaves:
                base = x[1] if isinstance(x, tuple) and x[0] == 'place' else x
                if isinstance(base, tuple) and base[0] == 'local':
                    for bb2, j2, st2 in CB.stmts():
                        if st2['k'] == '=' and st2['pl']['l'] == base[1]:
                            if st2['rv']['k'] == 'agg':
                                txt += ' ' + ' '.join(str(canon(CB, o)) for o in st2['rv']['ops'])
                            elif st2['rv']['k'] == 'use':
                                txt += ' ' + str(canon(CB, st2['rv']['op']))
            is_sub = isinstance(a, tuple) and a[0] == 'bin' and a[1] == 'Sub'
            if "'last'" in txt:
                ctx.bad('C20.3-membership-anchor', inst, 'the stride test divides a distance measured from `last` (%s): for a range whose last bound is not an element the members are rejected and non-members accepted' % describe(CB, a),
                        ctx.where(CB, ln=st['ln']), key='SHAPE:%srange::ElixirRange::contains:anchor-last' % CR)
            elif is_sub and "'first'" in txt and any(x == ('arg', 2) for x in leaves):
                ctx.ok('C20.3-membership-anchor', inst, 'remainder of %s' % describe(CB, a), ctx.where(CB, ln=st['ln']))
            else:
                ctx.undecided('C20.3-membership-anchor', inst, 'dividend %s not recognised as the distance between the value and first' % describe(CB, a))

    # ---------------- clause 4: 64-bit fields across the wire --------------------------------------------------------------
    ctx.rule('C20.4-wide-fields', 'a field written from an i64/u64 comes back from the wire as Integer or BigInt; a reader that uses as_integer() sees only the Integer variant', floor=1)
    OT = 'erltf::term::OwnedTerm'

    def accepted_variants(path):
        """variants of OwnedTerm for which the accessor `path` yields Some(..) / Ok(..)"""
        AB = P.B(path)
        if AB is None:
            return None
        vs = [v['n'] for v in ctx.F.adts[OT]['variants']]
        for bb in sorted(AB.live_blocks()):
            sd = AB.switch_on_discr(bb)
            if sd and OT in sd[1]:
                ok_vs = set()
                for v, b in sd[2]:
                    reg = AB.reachable(b)
                    if any(st['k'] == '=' and st['rv']['k'] == 'agg' and st['rv'].get('var') in ('Some', 'Ok') and (0 in AB.derived_locals([st['pl']['l']]) or st['pl']['l'] == 0)
                           for x in reg for st in AB.blocks[x]['s']) or any(
                            AB.blocks[x]['t']['k'] == 'call' and AB.blocks[x]['t']['dst']['l'] == 0 and not (callee_of(AB.blocks[x]['t'])[0] or '').endswith('from_residual') for x in reg):
                        ok_vs.add(vs[v])
                return ok_vs
        return None
    for name, path in WRAPPERS.items():
        ty = CR + path
        adt = ctx.F.adts.get(ty)
        fr = P.B(ty + '::from_term')
        if adt is None or fr is None:
            continue
        wide = [f['n'] for f in adt['variants'][0]['fields'] if f['ty'] in ('i64', 'u64')]
        if not wide:
            continue
        # the accessors whose results end up in the wide fields: calls (in from_term) that take an &OwnedTerm and return an integer option/result
        accs = set()
        for bb, t in fr.calls():
            aty = t.get('aty') or []
            rty = fr.local_ty(t['dst']['l'])
            if aty and 'OwnedTerm' in aty[0] and ('Option<i64>' in rty or 'Option<u64>' in rty or 'Result<i64' in rty or 'Result<u64' in rty):
                accs |= {n for n in callee_names(t) if n in ctx.F.bodies}
        if not accs:
            ctx.undecided('C20.4-wide-fields', name, 'no integer accessor recognised in from_term for the 64-bit fields %s' % wide)
            continue
        narrow = []
        for a in sorted(accs):
            av = accepted_variants(a)
            if av is None or 'Integer' not in av:
                continue
            if 'BigInt' not in av:
                narrow.append(a)
        if narrow:
            ctx.bad('C20.4-wide-fields', name, 'fields %s are 64-bit: values outside the i32 range are encoded as big integers, but from_term reads them with %s, which only sees the Integer variant, so e.g. %s with a bound of 5_000_000_000 does not survive encode + decode'
                    % (wide, ', '.join(x.rsplit('::', 1)[1] + '()' for x in narrow), name), ctx.where(fr), key='CLOSURE:%s:wide-field-as_integer' % ty)
        else:
            ctx.ok('C20.4-wide-fields', name, 'wide fields %s are read through %s, which accepts the BigInt variant too' % (wide, ', '.join(x.rsplit('::', 1)[1] for x in sorted(accs))), ctx.where(fr))

    # ---------------- clause 5: proplist helpers agree ----------------------------------------------------------------------
    ctx.rule('C20.5-proplist-siblings', 'normalize_proplist, proplist_to_map, the proplist iterator and the serde proplist access treat the element shapes alike: 2-tuple -> key/value, bare atom -> {atom, true}, anything else skipped', floor=3)
    sib = {
        'normalize_proplist': 'erltf::term::OwnedTerm::normalize_proplist',
        'proplist_to_map': 'erltf::term::OwnedTerm::proplist_to_map',
        'ProplistIter::next': "<erltf::term::ProplistIter<'a> as core::iter::traits::iterator::Iterator>::next",
        'serde ProplistMapAccess': "<erltf_serde::de::ProplistMapAccess<'de> as serde_core::de::MapAccess<'de>>::next_key_seed",
    }
    shapes = {}
    for nm, path in sib.items():
        bodies = bodies_of_fn(P, path)
        if not bodies:
            ctx.undecided('C20.5-proplist-siblings', nm, 'function not found')
            continue
        sh = set()
        for BB in bodies:
            vs = [v['n'] for v in ctx.F.adts['erltf::term::OwnedTerm']['variants']]
            for bb in sorted(BB.live_blocks()):
                sd = BB.switch_on_discr(bb)
                if sd and sd[1].replace('&', '') == 'erltf::term::OwnedTerm':
                    for v, b in sd[2]:
                        sh.add(vs[v])
            # arity test of tuples
            for bb, j, st in BB.stmts():
                if st['k'] == '=' and st['rv']['k'] == 'bin' and st['rv']['op'] == 'Eq':
                    v = fold(BB.origin(st['rv']['b']))
                    if v is not None and 'len' in str(canon(BB, st['rv']['a'])):
                        sh.add('len==%d' % v)
            if any(isinstance(o, dict) for o in ()):
                pass
            strs = atom_strings(BB)
            if 'true' in strs:
                sh.add('atom->true')
        shapes[nm] = sh
    if shapes:
        ref = None
        for nm, sh in shapes.items():
            core = {x for x in sh if x in ('Tuple', 'Atom', 'len==2', 'atom->true')}
            if ref is None:
                ref = (nm, core)
            if core >= {'Tuple', 'Atom', 'len==2'}:
                ctx.ok('C20.5-proplist-siblings', nm, 'handles %s' % sorted(core))
            else:
                ctx.bad('C20.5-proplist-siblings', nm, '%s handles %s; its siblings handle 2-tuples and bare atoms (%s handles %s)' % (nm, sorted(core), ref[0], sorted(ref[1])),
                        key='TABLE:proplist:%s' % nm.replace(' ', '_'))

    # ... and what the writers emit is one of those shapes
    ctx.rule('C20.5-proplist-writers', 'a function of the term type that produces a proplist writes each entry as a 2-tuple {Key, Value} or hands an element on as it is; a bare key (a clone of one component of an entry) is '
             'written only under a test that the key is an atom - the readers expand bare atoms and skip every other bare term, so a bare binary key is lost on the way back and a bare {a, b} key comes back as the entry a => b', floor=1)
    from ..core import dominating_edges as _dom20
    vs20 = [v['n'] for v in ctx.F.adts['erltf::term::OwnedTerm']['variants']]
    n_pw = 0
    for q in sorted(ctx.F.bodies):
        base_ = q.split('::{')[0]
        if not base_.startswith('erltf::term::OwnedTerm::') or 'proplist' not in base_.rsplit('::', 1)[-1] or ctx.F.bodies[q]['kind'] not in ('Fn', 'AssocFn', 'Closure'):
            continue
        WB = P.B(q)
        if WB.local_ty(0) != 'erltf::term::OwnedTerm':
            continue          # the bodies that produce one element
        n_pw += 1
        bad_ = None
        for l in sorted(WB.ret_sources()):
            for d in WB.defs().get(l, []):
                if d[0] != 't' or d[1] not in WB.live_blocks():
                    continue
                t = d[3] if len(d) > 3 else d[2]
                if not any(n.endswith('Clone::clone') for n in callee_names(t)) or not t['args']:
                    continue
                ob, op_ = unwrap(WB.origin(t['args'][0]))
                component = ob is not None and ((ob[0] == 'arg' and [x for x in list(ob[2]) + list(op_) if x not in ('deref', '*')]) or (ob[0] == 'call' and str(ob[1]).endswith('::index')))
                if not component:
                    continue
                guarded = False
                for (src, vals, dst) in _dom20(WB, d[1]):
                    sd = WB.switch_on_discr(src)
                    if sd and sd[1].replace('&', '') == 'erltf::term::OwnedTerm' and [vs20[v] for v in vals if isinstance(v, int)] == ['Atom']:
                        guarded = True
                if not guarded:
                    bad_ = d[1]
        inst = base_.rsplit('::', 1)[-1] + (q[len(base_):] if q != base_ else '')
        if bad_ is not None:
            ctx.bad('C20.5-proplist-writers', inst, '%s writes a component of an entry as a bare element without having tested that it is an atom: proplist_to_map / normalize_proplist expand bare atoms only, any other bare key is dropped '
                    '(or, if it is a 2-tuple, read as an entry of its own)' % base_.rsplit('::', 1)[-1], ctx.where(WB, bad_), key='TABLE:proplist-writer:%s:bare-non-atom' % base_.rsplit('::', 1)[-1])
        else:
            ctx.ok('C20.5-proplist-writers', inst, 'entries are written as tuples / passed on whole', ctx.where(WB))
    ctx.anchor(n_pw >= 1, 'element-producing bodies of the proplist writers (map_to_proplist::{closure#0})')

    # to the term go the fields as they are
    ctx.rule('C20.1-fields-written-raw', 'every number a wrapper writes into its term is a field of the value being converted, as it is (widened at most): a number taken from a copy that went through a constructor '
             'or a normalising helper (`to_time()`, `min`, `clamp`) comes back as another value than went in - or turns an out-of-range value into a plausible one', floor=10)
    n_fw = 0
    for q in sorted(ctx.F.bodies):
        if not (q.startswith('edp_elixir_terms::') and '<impl core::convert::From<edp_elixir_terms::' in q and 'for erltf::term::OwnedTerm>::from' in q) or ctx.F.bodies[q]['kind'] not in ('Fn', 'AssocFn'):
            continue
        WB = P.B(q)
        wname = q.split('From<')[1].split('>')[0].rsplit('::', 1)[-1]
        k = 0
        for bb, j, st in WB.stmts():
            if not (st['k'] == '=' and st['rv']['k'] == 'agg' and st['rv'].get('var') == 'Integer' and str(st['rv'].get('adt', '')).endswith('OwnedTerm') and bb in WB.live_blocks()):
                continue
            o = WB.origin(st['rv']['ops'][0])
            via = None
            for _ in range(8):
                if o is None:
                    break
                if o[0] == 'cast':
                    o = o[3]
                elif o[0] == 'call' and isinstance(o[1], str) and o[1].endswith('::from') and 'core::convert::From<' in o[1]:
                    t_ = WB.blocks[o[2]]['t']
                    o = WB.origin(t_['args'][0]) if t_['args'] else None
                elif o[0] == 'proj':
                    o = o[1]
                elif o[0] in ('payload', 'try', 'awaited', 'awaited_value'):
                    o = o[1]
                else:
                    break
            if o is not None and o[0] == 'call':
                via = str(o[1])
            k += 1
            n_fw += 1
            inst = '%s:int#%d' % (wname, k)
            if via and not via.endswith('::clone') and not via.endswith('::len'):
                ctx.bad('C20.1-fields-written-raw', inst, 'a number written into the term of %s is taken from the result of %s, not from the field of the value itself: what comes back from the term is that function\'s idea of the value'
                        % (wname, via.rsplit('::', 2)[-2] + '::' + via.rsplit('::', 1)[-1] if '::' in via else via), ctx.where(WB, bb), key='PROV:%s:field-through-%s' % (q.split('::<impl')[0] + '::' + wname, via.rsplit('::', 1)[-1]))
            else:
                ctx.ok('C20.1-fields-written-raw', inst, 'a field of the value (or a constant)', ctx.where(WB, bb))
    ctx.anchor(n_fw >= 10, 'integers written by the wrappers\' From<T> for OwnedTerm')

    # ... and a field that holds an arbitrary term is read back whatever term it is
    ctx.rule('C20.1-term-fields-read-as-they-are', 'a field of a wrapper whose type is the term type itself (the value a MatchError / KeyError / BadMapError carries) is filled by from_term with whatever term the map holds: '
             'nothing on the way from the map lookup to the field tests or filters the value (`filter(|t| !t.is_nil_atom())` makes `%MatchError{term: nil}` unreadable)', floor=5)
    from ..core import value_path as _vp20
    n_tf = 0
    for q in sorted(ctx.F.bodies):
        if not (q.startswith('edp_elixir_terms::') and q.endswith('::from_term')) or ctx.F.bodies[q]['kind'] not in ('Fn', 'AssocFn'):
            continue
        TB = P.B(q)
        for bb, j, st in TB.stmts():
            rv = st['rv'] if st['k'] == '=' else None
            if rv is None or rv['k'] != 'agg' or not str(rv.get('adt', '')).startswith('edp_elixir_terms::') or bb not in TB.live_blocks():
                continue
            ad = ctx.F.adts.get(rv['adt'])
            if not ad:
                continue
            ftys = {f['n']: f['ty'] for v in ad['variants'] for f in v['fields']}
            for fnm, op in zip(rv.get('fn') or [], rv.get('ops') or []):
                if ftys.get(fnm) != 'erltf::term::OwnedTerm':
                    continue
                n_tf += 1
                path = [x for x in _vp20(TB, op) if isinstance(x, str)]
                tests = [x for x in path if x.rsplit('::', 1)[-1] in ('filter', 'take_if', 'is_nil_atom', 'is_nil', 'is_undefined', 'then_some', 'filter_map', 'and_then') and 'Try' not in x]
                inst = '%s.%s' % (rv['adt'].rsplit('::', 1)[-1], fnm)
                if tests:
                    ctx.bad('C20.1-term-fields-read-as-they-are', inst, 'the term carried in %s passes through %s on its way out of the map: some terms (the atom nil) are then "absent", and a value that was written cannot be read back'
                            % (inst, tests[0].rsplit('::', 2)[-2] + '::' + tests[0].rsplit('::', 1)[-1]), ctx.where(TB, bb), key='PROV:%s:%s:filtered' % (q, fnm))
                else:
                    ctx.ok('C20.1-term-fields-read-as-they-are', inst, 'the looked-up term, cloned', ctx.where(TB, bb))
    ctx.anchor(n_tf >= 5, 'wrapper fields of the term type filled by from_term')

    # dependency: Atom::new
    ctx.rule('C20.1-atom-interning', 'map keys and atom values of the wrappers and proplist helpers are built and looked up with Atom::new: its interning tables agree entry by entry', floor=1)
    from ..etf import check_atom_tables
    check_atom_tables(ctx, 'C20.1-atom-interning')

    # dependency: the 32-bit fields (year, offsets ...) are read back with as_integer(), which sees the Integer variant only.
    # That is sound exactly as long as the encoder writes every value of the i32 range in a small-integer form.
    ctx.rule('C20.4-i32-fields-on-the-wire', 'the encoder writes INTEGER_EXT / SMALL_INTEGER_EXT for the whole i32 range (so 32-bit wrapper fields come back as Integer, which from_term accepts): rule C15.2-integer-widths re-run here', floor=1)
    from ..order import SubCtx as _Sub
    from . import c15 as _c15
    _c15.run(_Sub(ctx, 'C20.4-i32-fields-on-the-wire', 'c15', allow=('C15.2-integer-widths',)))

    # absent is a matter of the term's kind (the atom nil), not of its text: a string that happens to read "nil" is a string
    ctx.rule('C20.1-absent-by-kind', 'in the from_term conversions (and their helpers) no text that may come out of a binary / string term is compared with the spelling of an atom sentinel ("nil", "true", "false", "undefined"): '
             'such a test makes the text "nil" indistinguishable from the atom nil, so Some("nil") comes back as None', floor=0)
    from ..fieldorder import reads_behind as _behind
    SENT = ('nil', 'true', 'false', 'undefined')
    n_ab = 0
    for q in scope:
        XB = P.B(q)
        for bb, t in XB.calls():
            nm = callee_of(t)[0] or ''
            if nm.rsplit('::', 1)[-1] not in ('eq', 'ne') or len(t['args']) < 2:
                continue
            consts = [i for i, a in enumerate(t['args']) if XB.origin(a)[0] == 'const' and isinstance(XB.origin(a)[1], str) and XB.origin(a)[1] in SENT]
            if not consts:
                continue
            other = t['args'][1 - consts[0]]
            from_text = _behind(XB, other, lambda c: any((n or '').endswith(x) for n in callee_names(c) for x in ('::as_erlang_string', '::as_binary', '::from_utf8', '::from_utf8_lossy', '::as_string', '::as_str_lossy')))
            if from_text:
                n_ab += 1
                ctx.bad('C20.1-absent-by-kind', '%s:%s' % (q.split('::{')[0].rsplit('::', 1)[-1], XB.origin(t['args'][consts[0]])[1]),
                        'a text obtained from a binary/string term is compared with "%s": the string "%s" is taken for the atom, so a field holding that text is read back as absent (or as the boolean)'
                        % (XB.origin(t['args'][consts[0]])[1], XB.origin(t['args'][consts[0]])[1]), ctx.where(XB, bb), key='SHAPE:%s:text-compared-with-atom-sentinel' % q.split('::{')[0])
    if n_ab == 0:
        ctx.ok('C20.1-absent-by-kind', 'from_term', 'no text of a binary is compared with an atom sentinel in %d functions' % len(scope))

    # builders: what is added later replaces what was there (insert semantics), also when added in bulk
    ctx.rule('C20.5-builder-last-wins', 'a bulk operation on a builder\'s map keeps insert semantics: when two maps are merged with BTreeMap::append the builder\'s own map is the receiver '
             '(the appended entries win); draining the builder\'s map into the new entries lets the old values overwrite the new ones', floor=0)
    n_bl = 0
    for q in sorted(ctx.F.bodies):
        if not (CR + 'builders::') in q:
            continue
        XB = P.B(q)
        for bb, t in XB.calls():
            nm = callee_of(t)[0] or ''
            if not (nm.endswith('::append') and ('BTreeMap' in nm or 'btree' in nm) and len(t['args']) >= 2):
                continue
            n_bl += 1
            recv, drained = str(canon(XB, t['args'][0])), str(canon(XB, t['args'][1]))
            inst = '%s:append' % q.split('::{')[0].rsplit('::', 2)[-2]
            if "('arg', 1)" in drained and "('arg', 1)" not in recv:
                ctx.bad('C20.5-builder-last-wins', inst, 'the builder\'s own map is drained into the incoming entries: for a key present in both, the value already in the builder replaces the one just passed in', ctx.where(XB, bb),
                        key='SHAPE:%s:append-direction' % q.split('::{')[0])
            else:
                ctx.ok('C20.5-builder-last-wins', inst, 'incoming entries are appended to the builder\'s map', ctx.where(XB, bb))
    if n_bl == 0:
        ctx.ok('C20.5-builder-last-wins', 'builders', 'no map merge in the builders (entries are inserted one by one)')

    # the derived Serialize writes a module atom; the derived Deserialize must insist on that very atom
    ctx.rule('C20.6-derive-module-name', '#[derive(ElixirStruct)] hands the same module-name string to the generator of Serialize (which writes it as __struct__) and to the generator of Deserialize (which compares __struct__ with it): '
             'a generator that is given the bare alias instead accepts maps tagged with a different module atom', floor=1)
    DB_ = P.B('erltf_serde_derive::derive_elixir_struct')
    if DB_ is not None:
        calls_ = {}
        for bb, t in DB_.calls():
            n_ = callee_of(t)[0] or ''
            if n_ in ('erltf_serde_derive::generate_serialize_impl', 'erltf_serde_derive::generate_deserialize_impl'):
                calls_[n_.rsplit('::', 1)[1]] = (bb, t)
        if len(calls_) == 2:
            (sb_, st_), (db_, dt_) = calls_['generate_serialize_impl'], calls_['generate_deserialize_impl']
            s_strs = [canon(DB_, a) for a, ty in zip(st_['args'], st_.get('aty') or []) if ty.replace("'_ ", '') in ('&str', "&'static str")]
            d_strs = [canon(DB_, a) for a, ty in zip(dt_['args'], dt_.get('aty') or []) if ty.replace("'_ ", '') in ('&str', "&'static str")]
            if s_strs and d_strs and s_strs == d_strs:
                ctx.ok('C20.6-derive-module-name', 'module-name', 'both generators receive the same module-name value', ctx.where(DB_, db_))
            elif not s_strs or not d_strs:
                ctx.undecided('C20.6-derive-module-name', 'module-name', 'string arguments of the two generators not found (%s / %s)' % (len(s_strs), len(d_strs)), ctx.where(DB_, db_))
            else:
                ctx.bad('C20.6-derive-module-name', 'module-name', 'the Deserialize generator is given another module-name value than the Serialize generator: the atom checked on the way in is not the atom written on the way out', ctx.where(DB_, db_),
                        key='TWIN:erltf_serde_derive::derive_elixir_struct:module-name-arguments')
        else:
            ctx.undecided('C20.6-derive-module-name', 'module-name', 'calls of the two generators not found in derive_elixir_struct')
    else:
        ctx.info_note('derive macro crate not part of this build')

    # a verdict on a value is worth something only when it looks at the value itself
    ctx.rule('C20.2-verdict-on-raw-value', 'in the date / time wrappers no validity verdict (a bool-returning function of the module, or a comparison with a constant that decides a try_* / from_term result) is computed '
             'from a copy produced by one of the normalising constructors (those that clamp a parameter with min / clamp before storing it) or by a conversion built on one: '
             'the clamp has already forced the field into range, so the test can never fail and out-of-range input is accepted', floor=1)
    DT = CR + 'date_time::'
    mod_fns = [q for q, b_ in ctx.F.bodies.items() if q.startswith(DT) and b_['kind'] in ('Fn', 'AssocFn')]
    norm = set()
    for q in mod_fns:
        XB = P.B(q)
        if any((callee_of(t)[0] or '').endswith('cmp::Ord::min') or (callee_of(t)[0] or '').rsplit('::', 1)[-1] in ('clamp',) for bb, t in XB.calls()) \
                and DT in XB.b['locals'][0]['ty']:
            norm.add(q)
    grew = True
    while grew:
        grew = False
        for q in mod_fns:
            if q in norm:
                continue
            XB = P.B(q)
            if DT in XB.b['locals'][0]['ty'] and any(n in norm for bb, t in XB.calls() for n in callee_names(t)):
                norm.add(q)
                grew = True
    verdict_fns = {q for q in mod_fns if ctx.F.bodies[q]['locals'][0]['ty'] == 'bool'}
    n_vr = 0
    if ctx.anchor(len(norm) >= 1, 'normalising constructors in ' + DT):
        for q in sorted(q_ for q_ in ctx.F.bodies if q_.startswith(DT)):
            XB = P.B(q)
            srcs = [t['dst']['l'] for bb, t in XB.calls() if any(n in norm for n in callee_names(t)) and not t['dst'].get('p')]
            if not srcs or q.split('::{')[0] in norm:
                continue
            der = XB.derived_locals(srcs)
            hits = [(bb, t) for bb, t in XB.calls() if any(n in verdict_fns for n in callee_names(t)) and any(a.get('k') in ('cp', 'mv') and a['pl']['l'] in der for a in t['args'])]
            # ... or the verdict function has been spliced in: a comparison of a field of the copy with a constant
            cmps = []
            if ctx.F.bodies[q]['locals'][0]['ty'] == 'bool' or 'Option<' in ctx.F.bodies[q]['locals'][0]['ty'] or 'Result<' in ctx.F.bodies[q]['locals'][0]['ty']:
                for bb, j, st in XB.stmts():
                    if st['k'] == '=' and st['rv']['k'] == 'bin' and st['rv']['op'] in ('Le', 'Lt', 'Gt', 'Ge'):
                        a_, b_ = st['rv']['a'], st['rv']['b']
                        for x_, y_ in ((a_, b_), (b_, a_)):
                            if y_.get('k') == 'c' and x_.get('k') in ('cp', 'mv') and x_['pl']['l'] in der:
                                cmps.append((bb, st))
            if cmps and not hits:
                n_vr += 1
                bb, st = cmps[0]
                ctx.bad('C20.2-verdict-on-raw-value', q.split('date_time::')[1], '%s range-tests a field of a value that came out of a normalising constructor (%s): the clamped field always passes, so input outside the range is accepted'
                        % (q.split('date_time::')[1], sorted(n.split('date_time::')[1] for n in norm)[:4]), ctx.where(XB, bb), key='SHAPE:%s:verdict-on-normalised-copy' % q.split('::{')[0])
            if hits:
                n_vr += 1
                bb, t = hits[0]
                ctx.bad('C20.2-verdict-on-raw-value', q.split('date_time::')[1], '%s asks %s about a value that came out of a normalising constructor (%s): the clamped field always passes, so input outside the range is accepted'
                        % (q.split('date_time::')[1], (callee_of(t)[0] or '').split('date_time::')[-1], sorted(n.split('date_time::')[1] for n in norm)[:4]), ctx.where(XB, bb),
                        key='SHAPE:%s:verdict-on-normalised-copy' % q.split('::{')[0])
        if n_vr == 0:
            ctx.ok('C20.2-verdict-on-raw-value', 'date_time', 'no verdict function is applied to the output of %d normalising constructors / conversions' % len(norm))


_run_before_tl_rule = run


def run(ctx):
    _run_before_tl_rule(ctx)
    thread_local_buffers(ctx, 'C20.7-no-leftovers-between-calls')


def thread_local_buffers(ctx, rule):
    """a byte buffer that outlives the call (kept in a thread-local) is emptied before the call puts anything into it"""
    ctx.rule(rule, 'the codec works in buffers of the call; where a byte buffer is kept in a thread-local between calls, every call empties it before it writes into it - emptying it only on the successful way out '
             'leaves the bytes of a failed call in front of the next result. A rule about what must not be there', floor=0)
    n = 0
    for q, name, DB, sites, bad in thread_local_buffer_sites(ctx):
        n += 1
        if bad:
            ctx.bad(rule, '%s:thread-local-buffer' % name, '%s writes into a byte buffer kept in a thread-local (%s) that has not been emptied first on every way there: '
                    'what a call that failed half-way left in it comes out in front of, or inside, the next result' % (name, bad[0][1].rsplit('::', 1)[-1]), ctx.where(DB, bad[0][0]),
                    key='SHAPE:%s:thread-local-buffer-not-emptied-first' % q.split('::{')[0])
        else:
            ctx.ok(rule, '%s:thread-local-buffer' % name, 'emptied before anything is written into it', ctx.where(DB, sites[0][0]))
    if n == 0:
        ctx.ok(rule, 'none', 'no byte buffer is kept in a thread-local')


def thread_local_buffer_sites(ctx, only_parent=None):
    """(body, name, B, append sites, those not dominated by an emptying) for every byte buffer rooted in a thread-local"""
    from ..core import receiver_root as _rr, value_path as _vp
    P = ctx.P
    BUF = ('BytesMut', 'Vec<u8>')
    EMPTY = ('::clear', '::split', '::split_to', '::truncate', '::split_off')
    NEUTRAL = ('::reserve', '::reserve_exact', '::try_reserve', '::try_reserve_exact', '::len', '::capacity', '::is_empty', '::as_slice', '::deref', '::deref_mut', '::borrow_mut', '::borrow', '::as_ref', '::as_mut',
               '::to_vec', '::freeze', '::set', '::take', '::replace', '::drop', '::drop_in_place')
    for q in sorted(ctx.F.bodies):
        if only_parent is not None and q.split('::{')[0] != only_parent:
            continue
        if not q.startswith(('erltf::', 'erltf_serde::', 'edp_elixir_terms::', 'edp_client::')) or '::tests::' in q or ctx.F.bodies[q]['kind'] not in ('Fn', 'AssocFn', 'Closure'):
            continue
        DB = P.B(q)
        roots = set()
        if ctx.F.bodies[q]['kind'] == 'Closure' and '::{closure#' in q:
            parent = q.rsplit('::{closure#', 1)[0]
            PB = P.B(parent) if parent in ctx.F.bodies else None
            if PB is not None and any(any(('thread::local::LocalKey::<' in n_ and n_.rsplit('::', 1)[1].startswith('with')) for n_ in callee_names(t)) for bb, t in PB.calls()):
                for i in range(2, DB.b['argc'] + 1):
                    if any(b_ in DB.local_ty(i) for b_ in BUF):
                        roots.add(('arg', i))
        for bb, t in DB.calls():
            if any('thread::local::LocalKey::<' in n_ and n_.rsplit('::', 1)[1] in ('take', 'replace') for n_ in callee_names(t)) and not t['dst'].get('p'):
                if any(b_ in DB.local_ty(t['dst']['l']) for b_ in BUF):
                    roots.add(('call', bb))
        if not roots:
            continue

        def root_of(op):
            base, _ = _rr(DB, op)
            if base is None:
                return None
            if base[0] == 'arg' and ('arg', base[1]) in roots:
                return ('arg', base[1])
            if base[0] == 'call' and ('call', base[2]) in roots:
                return ('call', base[2])
            vp = _vp(DB, op)
            if any(isinstance(x, str) and 'thread::local::LocalKey::<' in x and x.rsplit('::', 1)[1] in ('take', 'replace') for x in vp):
                return ('call', 'tl')
            return None
        appends, empties = {}, {}
        for bb, t in DB.calls():
            if bb not in DB.live_blocks():
                continue
            names = callee_names(t)
            for i, ty in enumerate(t.get('aty') or []):
                if 'mut' not in ty or not any(b_ in ty for b_ in BUF):
                    continue
                r = root_of(t['args'][i])
                if r is None:
                    continue
                if any(n_.endswith(EMPTY) for n_ in names):
                    empties.setdefault(r, []).append(bb)
                elif any(n_.endswith(NEUTRAL) for n_ in names):
                    pass
                else:
                    appends.setdefault(r, []).append((bb, names[0] if names else '?'))
        name = q.split('::{')[0].rsplit('::', 1)[1]
        for r, sites in sorted(appends.items(), key=str):
            E_ = [e for k_, v_ in empties.items() for e in v_ if k_ == r or 'tl' in (k_[1], r[1])]
            bad = [(bb, nm) for bb, nm in sites if not any(e != bb and DB.block_dominates(e, bb) for e in E_)]
            yield q, name, DB, sites, bad
