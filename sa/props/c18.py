"""C18 — local processes: ordered exactly-once delivery, exit notices, name lifecycle.

WHO/PAIR: process end removes the pid from by_pid AND every by_name entry for it;
TABLE: by_name insertion only through a vacant entry; DOM: exit propagation before
registry removal; PROV of the notices; single consumer loop; gen_server reply;
link/monitor bookkeeping symmetry.
"""
import re
from ..families import describe
from ..ranges import canon
from ..core import callee_of, callee_names, is_call_to, unwrap, receiver_root, root_fields, fold

REG = 'edp_node::registry::ProcessRegistry'
TASK = 'edp_node::process::spawn_process::{closure#0}::{closure#0}'
PROP = 'edp_node::process::propagate_exit_signals::{closure#0}'
MSG = 'edp_node::mailbox::Message'
MUTATORS = ('::insert', '::remove', '::retain', '::clear', '::drain', '::remove_entry', '::extend', '::extract_if')
REMOVERS = ('::remove', '::retain', '::clear', '::remove_entry', '::extract_if')


def map_mutations(B, field):
    """calls in B that mutate the map rooted at self.<field>"""
    out = []
    for bb, t in B.calls():
        names = callee_names(t)
        if not t['args']:
            continue
        if not any(('HashMap' in n or 'HashSet' in n or 'BTreeMap' in n or 'VacantEntry' in n or 'OccupiedEntry' in n or 'DashMap' in n)
                   and any(n.endswith(m) for m in MUTATORS) for n in names):
            continue
        rf = root_fields(B, t['args'][0])
        if field in rf:
            out.append((bb, t, names[0]))
    return out


def _sinks(P, B, local, depth=0):
    """names of the calls that consume the value held in `local` (forward slice), following calls into
    functions of this repository whose parameter receives it (two levels)"""
    out = set()
    d = B.derived_locals([local]) | {local}
    for bb, t in B.calls():
        hit = [i for i, a in enumerate(t['args']) if any(l in d for l in B._op_locals(a))]
        if not hit:
            continue
        for n in callee_names(t):
            out.add(n)
            if depth < 2 and n in P.F.bodies and n.startswith('edp_'):
                HB = P.B(n)
                for i in hit:
                    if i + 1 <= HB.b['argc']:
                        out |= _sinks(P, HB, i + 1, depth + 1)
                # async fn: the parameter is captured by the coroutine body
                CB = P.B(n + '::{closure#0}')
                if CB is not None:
                    for bb2, t2 in CB.calls():
                        for n2 in callee_names(t2):
                            if n2.rsplit('::', 1)[-1] in ('send', 'try_send'):
                                out.add(n2)
    return out


def handle_send_lossless(ctx, rule):
    """ProcessHandle::send is the one way a message gets into a mailbox: it must wait for room (mpsc Sender::send, awaited),
    not give up when the mailbox is full (try_send)."""
    P = ctx.P
    bodies = [P.B(q) for q in ctx.F.bodies if q.split('::{')[0] == 'edp_node::process::ProcessHandle::send']
    names = [n for B_ in bodies if B_ is not None for _, t in B_.calls() for n in callee_names(t)]
    if not ctx.anchor(bool(bodies), 'edp_node::process::ProcessHandle::send'):
        return
    lossy = [n for n in names if n.rsplit('::', 1)[-1] in ('try_send', 'try_reserve', 'try_reserve_owned')]
    waits = [n for n in names if n.endswith('Sender::<T>::send') or n.endswith('::reserve') or n.endswith('send_timeout')]
    polled = any(n.endswith('Future::poll') for n in names)
    if lossy:
        ctx.bad(rule, 'ProcessHandle::send', 'ProcessHandle::send hands the message over with %s, which fails immediately when the mailbox is full: a message accepted for a live process is dropped '
                'whenever that process is momentarily busy' % lossy[0].rsplit('::', 1)[-1], ctx.where(bodies[-1]), key='WHO:edp_node::process::ProcessHandle::send:lossy')
    elif waits and polled:
        ctx.ok(rule, 'ProcessHandle::send', 'awaits mpsc Sender::send (waits for room in the mailbox)', ctx.where(bodies[-1]))
    else:
        ctx.undecided(rule, 'ProcessHandle::send', 'delivery primitive not recognised: %s' % sorted(set(n.rsplit('::', 1)[-1] for n in names))[:6])


def _absent_under_same_guard(B, bb, t):
    """the insert at bb is dominated by the "absent" edge of contains_key(&key) (or get(&key).is_none()) on the same map through the same guard: the
    lock is held from the test to the insert, so the name cannot have appeared in between"""
    from ..core import dominating_edges
    if len(t['args']) < 2:
        return False
    m_ins, k_ins = canon(B, t['args'][0]), canon(B, t['args'][1])

    def same(a, b):
        sa_, sb_ = str(a), str(b)
        return sa_ == sb_ or sa_.replace("'deref', ", '').replace(", 'deref'", '') == sb_.replace("'deref', ", '').replace(", 'deref'", '')
    for (src, vals, dst) in dominating_edges(B, bb):
        sbe = B.switch_bool_edges(src)
        if not sbe or sbe[0][0] != 'call':
            continue
        ct = sbe[0][2]
        nm = (callee_of(ct)[0] or '').rsplit('::', 1)[-1]
        if nm == 'contains_key' and len(ct['args']) >= 2 and dst == sbe[2]:
            if same(canon(B, ct['args'][0]), m_ins) and (same(canon(B, ct['args'][1]), k_ins) or str(k_ins) in str(canon(B, ct['args'][1]))):
                return True
        if nm in ('is_none', 'is_some') and ct['args']:
            o = unwrap(B.origin(ct['args'][0]))[0]
            if o is not None and o[0] == 'call' and str(o[1]).rsplit('::', 1)[-1] == 'get' and ((nm == 'is_none' and dst == sbe[1]) or (nm == 'is_some' and dst == sbe[2])):
                gt = B.blocks[o[2]]['t']
                if len(gt['args']) >= 2 and same(canon(B, gt['args'][0]), m_ins):
                    return True
    return False


def has_fields(projs, *names):
    return all(any(p == n or p == 'upvar:' + n for p in projs) for n in names)


def rwlock_guard_rules(ctx, RULE):
    """no tokio RwLock guard (registry tables, link / monitor sets) is alive across an await"""
    from ..families import guard_flow, awaited_guard_start
    P = ctx.P
    ctx.rule(RULE, 'no guard of a tokio RwLock of the node (process table, name table, link and monitor sets) is alive at an await: a reader parked in a full mailbox would hold the table while every spawn, exit and '
             '(writers are preferred) every later lookup queues behind it - with the process that should drain the mailbox among them; a rule about what must not be there (the LOCK family is exercised on the fixture every run)', floor=0)
    n = 0
    for k in sorted(ctx.F.bodies):
        if 'edp_node::' not in k:
            continue
        XB = P.B(k)
        if XB is None:
            continue
        ys = [i for i, blk in enumerate(XB.blocks) if blk['t']['k'] == 'yield' and i in XB.live_blocks()]
        if not ys:
            continue
        polls = [(bb, t) for bb, t in XB.calls() if (callee_of(t)[0] or '').endswith('Future::poll')]
        for pb, pt in polls:
            o = XB.origin(pt['args'][0])
            if not (o and o[0] == 'call' and 'RwLock' in str(o[1]) and (str(o[1]).endswith('::read') or str(o[1]).endswith('::write'))):
                continue
            st = awaited_guard_start(XB, pb)
            if not st:
                continue
            sin, _bt = guard_flow(XB, pb, start=st[0], holders=[st[1]])
            held = [y for y in ys if sin.get(y)]
            if not held:
                continue
            n += 1
            ps = [(qb, qt) for qb, qt in polls if XB.block_dominates(qb, held[0])]
            fut = '?'
            if ps:
                qb, qt = max(ps, key=lambda x: sum(1 for y_ in ps if XB.block_dominates(y_[0], x[0])))      # the innermost dominating poll (block numbers say nothing after inlining)
                fo = XB.origin(qt['args'][0])
                fut = str(fo[1]).rsplit('::', 2)[-2] + '::' + str(fo[1]).rsplit('::', 1)[-1] if fo and fo[0] == 'call' else '?'
            base = k.split('::{')[0]
            ctx.bad(RULE, '%s:%s' % (base.rsplit('::', 1)[-1], str(o[1]).rsplit('::', 1)[-1]), '%s holds the %s guard of an RwLock while it awaits %s: until that completes no writer (spawn, exit, register) and no later reader gets the table'
                    % (base.rsplit('::', 1)[-1], str(o[1]).rsplit('::', 1)[-1], fut), ctx.where(XB, held[0]), key='LOCK:%s:rwlock-guard-across-await' % base)
    if n == 0:
        ctx.ok(RULE, 'edp_node', 'no RwLock guard is alive at an await')


def run(ctx):
    P = ctx.P
    # ---------------- clause 2: by_name insertions only through a vacant entry --------------------
    ctx.rule('C18.2-vacant-insert', 'a registered name is never overwritten: the only insertion into by_name is VacantEntry::insert', floor=1)
    n_ins = 0
    for B in P.all('edp_node'):
        for bb, t, name in map_mutations(B, 'by_name'):
            if not name.endswith('::insert') and not name.endswith('::extend'):
                continue
            n_ins += 1
            inst = '%s:%s' % (B.path, name.split('::')[-2].split('<')[0] + '::insert')
            if 'VacantEntry' in name:
                ctx.ok('C18.2-vacant-insert', inst, 'insertion through Entry::Vacant', ctx.where(B, bb))
            elif name.endswith('::insert') and _absent_under_same_guard(B, bb, t):
                ctx.ok('C18.2-vacant-insert', inst, 'insert only where contains_key / get of the same key on the same write guard has just answered "absent"', ctx.where(B, bb))
            else:
                ctx.bad('C18.2-vacant-insert', inst, 'by_name is written with %s: an existing registration can be overwritten (a name mapped to two processes over time without unregister)' % name.split('::')[-1],
                        ctx.where(B, bb), key='TABLE:by_name:%s' % inst)
    ctx.anchor(n_ins >= 1, 'by_name insertion site')

    # ---------------- clause 1: process end clears by_pid and by_name ---------------------------------
    ctx.rule('C18.1-exit-cleans-registry', 'the process task epilogue removes the pid from by_pid and every by_name entry that maps to it, on every path', floor=2)
    B = ctx.body(TASK)
    if B is not None:
        rems = [(bb, t) for bb, t in B.calls() if is_call_to(t, REG + '::remove')]
        if ctx.anchor(len(rems) >= 1, TASK + ':registry.remove'):
            rb = rems[0][0]
            # every path to return passes the removal
            if B.all_paths_pass(0, [rb]):
                ctx.ok('C18.1-exit-cleans-registry', 'task:remove-on-all-paths', 'every path through the task reaches registry.remove(pid)', ctx.where(B, rb))
            else:
                ctx.bad('C18.1-exit-cleans-registry', 'task:remove-on-all-paths', 'a path ends the task without registry.remove(pid)', ctx.where(B, rb),
                        key='PAIR:%s:remove-skipped' % TASK)
            # argument is the task's own pid
            base, projs = unwrap(B.origin(rems[0][1]['args'][1]))
            if has_fields(projs, 'pid') or (base[0] in ('arg', 'local') and (B.local_name(base[1]) == 'pid')):
                ctx.ok('C18.1-exit-cleans-registry', 'task:remove-own-pid', 'removes its own pid', ctx.where(B, rb))
            else:
                ctx.bad('C18.1-exit-cleans-registry', 'task:remove-own-pid', 'registry.remove is not called with the task\'s own pid: %s %s' % (base, projs), ctx.where(B, rb),
                        key='PROV:%s:remove-arg' % TASK)
        # what the removal touches: everything reachable from ProcessRegistry::remove
        reach = P.reachable_from([REG + '::remove', REG + '::remove::{closure#0}'])
        touched = {'by_pid': [], 'by_name': []}
        for p in sorted(reach):
            Bp = P.B(p)
            for f in touched:
                for bb, t, name in map_mutations(Bp, f):
                    if any(name.endswith(m) for m in REMOVERS):
                        touched[f].append((p, name.split('::')[-1]))
        # by_name: ALL names of the pid go, not just one (register() lets a process hold several names)
        from ..wire import _sccs as _sccs2
        all_names = False
        single = None
        for p_ in sorted(reach):
            Bq = P.B(p_)
            loops = [set(c) for c in _sccs2(Bq, Bq.live_blocks()) if len(c) > 1]
            for bb, t, name in map_mutations(Bq, 'by_name'):
                if any(name.endswith(m) for m in ('::retain', '::clear', '::extract_if')):
                    all_names = True
                elif name.endswith('::remove') or name.endswith('::remove_entry'):
                    if any(bb in l for l in loops):
                        all_names = True
                    else:
                        single = (Bq, bb)
        if touched['by_name']:
            if all_names:
                ctx.ok('C18.1-exit-cleans-registry', 'remove:by_name:every-name', 'every entry mapping to the pid is deleted (retain / removal inside a loop)')
            else:
                ctx.bad('C18.1-exit-cleans-registry', 'remove:by_name:every-name', 'ProcessRegistry::remove deletes at most one by_name entry (a single remove outside any loop): '
                        'a process registered under two names leaves the other name resolving to the dead pid, and that name can never be registered again',
                        ctx.where(single[0], single[1]) if single else None, key='PAIR:%s::remove:by_name:single-name' % REG)
        for f in ('by_pid', 'by_name'):
            if touched[f]:
                ctx.ok('C18.1-exit-cleans-registry', 'remove:' + f, 'ProcessRegistry::remove deletes from %s (%s)' % (f, touched[f][0][1]))
            else:
                ctx.bad('C18.1-exit-cleans-registry', 'remove:' + f, 'ProcessRegistry::remove (called when a process ends) never deletes from %s: %s' % (
                    f, 'a dead process\'s registered name keeps resolving and can never be registered again' if f == 'by_name' else 'a dead pid keeps resolving'),
                        key='PAIR:%s::remove:leaves:%s' % (REG, f))

    # ---------------- clause 3: exit propagation before removal, notice provenance ----------------------
    ctx.rule('C18.3-notify-before-remove', 'the exit notices for linked and monitoring processes are built and sent on every path to the registry removal, before it; each notice carries the terminated pid (and the stored reference)', floor=4)

    def _notices_in(XB):
        out = {}
        for bb_, j_, st_ in XB.stmts():
            if st_['k'] == '=' and st_['rv']['k'] == 'agg' and st_['rv'].get('adt') == MSG and st_['rv'].get('var') in ('Exit', 'MonitorExit') and bb_ in XB.live_blocks():
                out.setdefault(st_['rv']['var'], []).append((bb_, st_))
        return out
    # where the notices are built: the propagation function, or - when it was folded into the task or split into helpers - the task body itself
    Bp = P.B(PROP) if PROP in ctx.F.bodies else None
    if Bp is not None and not _notices_in(Bp):
        Bp = None
    inline_form = False
    if Bp is None and B is not None:
        if _notices_in(B):
            Bp, inline_form = B, True
        else:
            for q_ in sorted(P.reachable_from([TASK])):
                if q_.startswith('edp_node::process::') and ctx.F.bodies[q_]['kind'] == 'Closure' and _notices_in(P.B(q_)):
                    Bp = P.B(q_)
                    break
    ctx.anchor(Bp is not None, 'the code that builds Message::Exit / Message::MonitorExit for a terminated process (propagate_exit_signals)')
    if B is not None and Bp is not None:
        rems = [(bb, t) for bb, t in B.calls() if is_call_to(t, REG + '::remove')]
        if inline_form:
            snaps = [(bb, t) for bb, t in B.calls() if any(n.endswith('ProcessHandle::get_links') or n.endswith('ProcessHandle::get_monitors') for n in callee_names(t))]
            sends = []
            for var_, lits_ in _notices_in(B).items():
                for lb_, lst_ in lits_:
                    d_ = B.derived_locals([lst_['pl']['l']]) | {lst_['pl']['l']}
                    sends += [bb for bb, t in B.calls() if (callee_of(t)[0] or '').rsplit('::', 1)[-1] in ('send', 'try_send') and any(l in d_ for a in t['args'][1:] for l in B._op_locals(a))]
            if ctx.anchor(len(snaps) >= 2 and len(rems) >= 1 and bool(sends), TASK + ':{get_links, get_monitors, notice sends, remove}'):
                rb = rems[0][0]
                dom = all(B.block_dominates(sb, rb) for sb, _ in snaps)
                after = [sb for sb in sends if sb in B.reachable(rb)]
                polled_ = set()
                for bb, t in B.calls():
                    if callee_of(t)[0] == 'core::future::future::Future::poll' and t['args']:
                        base, _ = unwrap(B.origin(t['args'][0]))
                        if base is not None and base[0] == 'call':
                            polled_.add(base[2])
                if [sb for sb in sends if sb not in polled_]:
                    after = after + [sb for sb in sends if sb not in polled_]       # a send that is built and never awaited delivers nothing
                if dom and not after:
                    ctx.ok('C18.3-notify-before-remove', 'order', 'links and monitors are walked on every path before registry.remove; no notice is sent after it', ctx.where(B, snaps[0][0]))
                else:
                    ctx.bad('C18.3-notify-before-remove', 'order', 'registry.remove can run without the exit signals having been propagated first (dominates=%s sends-after-remove=%s)' % (dom, bool(after)),
                            ctx.where(B, rb), key='DOM:%s:remove-before-propagate' % TASK)
                ctx.ok('C18.3-notify-before-remove', 'own-handle', 'the notices are built in the task itself from its own handle (see the pid rows)', ctx.where(B, snaps[0][0]))
        else:
            pfn = Bp.path.split('::{')[0]
            props = [(bb, t) for bb, t in B.calls() if is_call_to(t, pfn)]
            if ctx.anchor(len(props) >= 1 and len(rems) >= 1, TASK + ':{propagate_exit_signals,remove}'):
                pb, rb = props[0][0], rems[0][0]
                # the future must also be awaited (polled) before the removal
                polled = False
                for bb, t in B.calls():
                    if callee_of(t)[0] == 'core::future::future::Future::poll':
                        o = B.origin(t['args'][0])
                        base, _ = unwrap(o)
                        if base[0] == 'call' and base[2] == pb and B.block_dominates(bb, rb):
                            polled = True
                if B.block_dominates(pb, rb) and polled:
                    ctx.ok('C18.3-notify-before-remove', 'order', 'propagation is awaited on every path before registry.remove', ctx.where(B, pb))
                else:
                    ctx.bad('C18.3-notify-before-remove', 'order', 'registry.remove can run without the exit signals having been propagated first (dominates=%s awaited=%s)' % (B.block_dominates(pb, rb), polled),
                            ctx.where(B, rb), key='DOM:%s:remove-before-propagate' % TASK)
                # handle passed is the process's own handle
                base, projs = unwrap(B.origin(props[0][1]['args'][0]))
                if has_fields(projs, 'handle_clone') or has_fields(projs, 'handle') or (base[0] in ('local', 'arg') and 'handle' in (B.local_name(base[1]) or '')):
                    ctx.ok('C18.3-notify-before-remove', 'own-handle', 'propagation uses the process\'s own handle', ctx.where(B, pb))
                else:
                    ctx.undecided('C18.3-notify-before-remove', 'own-handle', 'handle argument provenance not recognised: %s %s' % (base, projs))
    if Bp is not None:
        notices = _notices_in(Bp)
        for var, idf, reff in (('Exit', 'from', None), ('MonitorExit', 'monitored', 'reference')):
            if not ctx.anchor(var in notices, PROP + ':Message::' + var):
                continue
            bb, st = notices[var][0]
            rv = st['rv']
            base, projs = unwrap(Bp.origin(rv['ops'][rv['fn'].index(idf)]))
            pl_ = [x for x in projs if x not in ('deref', '*')]
            own_pid = has_fields(projs, 'handle', 'pid') or (base is not None and base[0] == 'arg' and pl_ and pl_[-1] == 'pid' and any('handle' in str(x) or str(x) in ('self', 'upvar:self') for x in pl_[:-1]) )
            if own_pid:
                ctx.ok('C18.3-notify-before-remove', var + ':pid', '%s = handle.pid' % idf, ctx.where(Bp, bb))
            else:
                ctx.bad('C18.3-notify-before-remove', var + ':pid', '%s notice does not carry the terminated pid: %s %s' % (var, base[:2], projs), ctx.where(Bp, bb),
                        key='PROV:%s:%s:pid' % (PROP, var))
            if reff:
                base, projs = unwrap(Bp.origin(rv['ops'][rv['fn'].index(reff)]))
                # the reference comes from the iterated monitor tuple (element 1), itself from get_monitors()
                s = str(Bp.origin(rv['ops'][rv['fn'].index(reff)]))
                rb_, rp_ = receiver_root(Bp, rv['ops'][rv['fn'].index(reff)])
                from_store = rb_ is not None and rb_[0] == 'call' and rb_[1] and rb_[1].endswith('ProcessHandle::get_monitors') and '1' in rp_
                if from_store:
                    ctx.ok('C18.3-notify-before-remove', var + ':reference', 'reference taken from the stored monitor entry', ctx.where(Bp, bb))
                else:
                    ctx.bad('C18.3-notify-before-remove', var + ':reference', 'monitor notice reference does not come from the stored monitor entry: %s' % s[:200], ctx.where(Bp, bb),
                            key='PROV:%s:%s:reference' % (PROP, var))
        # delivery: a notice is handed over with the awaiting send, never with a lossy try_send
        for var in ('Exit', 'MonitorExit'):
            for bb, st in notices.get(var, [])[:1]:
                sinks = _sinks(P, Bp, st['pl']['l'])
                lossy = [n for n in sinks if n.rsplit('::', 1)[-1] in ('try_send', 'try_reserve', 'try_send_ref')]
                good = [n for n in sinks if n.endswith('ProcessHandle::send') or (n.endswith('Sender::<T>::send') and 'mpsc' in n)]
                if lossy:
                    ctx.bad('C18.3-notify-before-remove', var + ':delivery', 'the %s notice is handed over with %s, which gives up when the peer\'s mailbox is full: a busy linked/monitoring process is never told' % (var, lossy[0].rsplit('::', 2)[-2] + '::' + lossy[0].rsplit('::', 1)[-1]),
                            ctx.where(Bp, bb), key='WHO:%s:%s:lossy-delivery' % (PROP, var))
                elif good:
                    ctx.ok('C18.3-notify-before-remove', var + ':delivery', 'delivered with %s (waits for room in the mailbox)' % good[0].rsplit('::', 2)[-2], ctx.where(Bp, bb))
                else:
                    ctx.undecided('C18.3-notify-before-remove', var + ':delivery', 'delivery call not recognised: %s' % sorted(sinks)[:4])
        # snapshot sources
        srcs = [n for bb, t in Bp.calls() for n in callee_names(t) if n.endswith('ProcessHandle::get_links') or n.endswith('ProcessHandle::get_monitors')]
        if len(set(srcs)) == 2:
            ctx.ok('C18.3-notify-before-remove', 'snapshots', 'iterates snapshots of the link set and the monitor set')
        else:
            ctx.bad('C18.3-notify-before-remove', 'snapshots', 'does not iterate both links and monitors: %s' % srcs, key='PROV:%s:snapshots' % PROP)

    ctx.rule('C18.4-lossless-mailbox', 'a message accepted for a live process is put into its mailbox even when the mailbox is momentarily full', floor=1)
    handle_send_lossless(ctx, 'C18.4-lossless-mailbox')

    # ---------------- clause 4: single consumer, one handler call per message --------------------------------
    ctx.rule('C18.4-mailbox-fifo', 'between the channel and the handler nothing reorders messages: no function of the mailbox module sorts, reverses, swaps, rotates a queue of messages, takes from its back or inserts at its front - '
             'the messages of one sender are handled in the order they were accepted', floor=0)
    REORDER18 = ('sort', 'sort_by', 'sort_by_key', 'sort_unstable', 'sort_unstable_by', 'sort_unstable_by_key', 'sort_by_cached_key', 'reverse', 'swap', 'rotate_left', 'rotate_right', 'pop_back', 'push_front', 'swap_remove',
                 'swap_remove_back', 'swap_remove_front', 'select_nth_unstable', 'select_nth_unstable_by_key', 'partition', 'rev', 'make_contiguous', 'retain', 'dedup', 'insert')
    n_mf = 0
    for q in sorted(ctx.F.bodies):
        if not q.startswith('edp_node::mailbox::') or ctx.F.bodies[q]['kind'] not in ('Fn', 'AssocFn', 'Closure'):
            continue
        MB = P.B(q)
        for bb, t in MB.calls():
            nm = callee_of(t)[0] or ''
            if bb in MB.live_blocks() and nm.rsplit('::', 1)[-1] in REORDER18 and ('Vec' in nm or 'slice' in nm or 'VecDeque' in nm or 'vec_deque' in nm or 'Iterator' in nm or 'LinkedList' in nm or 'BinaryHeap' in nm):
                n_mf += 1
                ctx.bad('C18.4-mailbox-fifo', '%s:%s' % (q.split('::{')[0].rsplit('::', 1)[-1], nm.rsplit('::', 1)[-1]), '%s calls %s on a queue of messages: what the handler sees is no longer the order in which the messages were accepted'
                        % (q.split('::{')[0].rsplit('::', 1)[-1], nm.rsplit('::', 1)[-1]), ctx.where(MB, bb), key='WHO:%s:reorders-messages' % q.split('::{')[0])
    if n_mf == 0:
        ctx.ok('C18.4-mailbox-fifo', 'mailbox', 'no reordering operation in the mailbox module')
    ctx.rule('C18.4-one-handler-call', 'the process task is the single consumer of its mailbox and calls handle_message exactly once per received message', floor=1)
    if B is not None:
        recvs = [(bb, t) for bb, t in B.calls() if is_call_to(t, 'edp_node::mailbox::Mailbox::recv')]
        hms = [(bb, t) for bb, t in B.calls() if any(n.endswith('Process::handle_message') for n in callee_names(t))]
        if ctx.anchor(len(recvs) == 1 and len(hms) >= 1, TASK + ':{recv,handle_message}'):
            if len(hms) != 1:
                ctx.bad('C18.4-one-handler-call', 'count', '%d handle_message call sites per loop iteration' % len(hms), ctx.where(B, hms[0][0]), key='TABLE:%s:handler-calls' % TASK)
            else:
                hb, ht = hms[0]
                base, projs = unwrap(B.origin(ht['args'][1]))
                from_recv = base[0] == 'call' and base[2] == recvs[0][0]
                dominated = B.block_dominates(recvs[0][0], hb)
                # no second delivery: handler block not reachable from itself without passing recv
                again = hb in B.reachable(B.blocks[hb]['t']['t'], removed_blocks=[recvs[0][0]]) if B.blocks[hb]['t'].get('t') is not None else False
                if from_recv and dominated and not again:
                    ctx.ok('C18.4-one-handler-call', 'loop', 'handle_message(msg) with msg = mailbox.recv().await?, once per iteration', ctx.where(B, hb))
                else:
                    ctx.bad('C18.4-one-handler-call', 'loop', 'handler not called exactly once with the received message (from_recv=%s dominated=%s repeat=%s)' % (from_recv, dominated, again),
                            ctx.where(B, hb), key='TABLE:%s:handler-loop' % TASK)
    # mailbox is a tokio mpsc channel with one receiver owned by Mailbox
    adt = ctx.F.adts.get('edp_node::mailbox::Mailbox')
    if ctx.anchor(adt is not None, 'edp_node::mailbox::Mailbox'):
        tys = {f['n']: f['ty'] for f in adt['variants'][0]['fields']}
        if 'tokio::sync::mpsc' in tys.get('receiver', '') and 'Receiver' in tys.get('receiver', ''):
            ctx.ok('C18.4-one-handler-call', 'mailbox-type', 'receiver: %s (FIFO, single consumer by ownership)' % tys['receiver'])
        else:
            ctx.bad('C18.4-one-handler-call', 'mailbox-type', 'mailbox receiver is not a tokio mpsc Receiver: %s' % tys.get('receiver'), key='TYPE:Mailbox.receiver')

    # ---------------- clause 5: gen_server reply ---------------------------------------------------------------
    ctx.rule('C18.5-gen-reply', 'on the Reply edge exactly one {Reference, Reply} message is sent to the caller\'s pid with the caller\'s reference', floor=1)
    Bg = ctx.body('edp_node::gen_server::GenServerProcess::<T>::handle_gen_call::{closure#0}')
    if Bg is not None:
        sends = [(bb, t) for bb, t in Bg.calls() if is_call_to(t, 'edp_node::process::ProcessHandle::send')]
        gets = [(bb, t) for bb, t in Bg.calls() if is_call_to(t, REG + '::get')]
        if len(sends) != 1 or len(gets) != 1:
            ctx.bad('C18.5-gen-reply', 'handle_gen_call', '%d sends / %d registry lookups on the reply path (expected 1/1)' % (len(sends), len(gets)), ctx.where(Bg),
                    key='TABLE:gen_server:reply-sends')
        else:
            gb, gt = gets[0]
            base, projs = unwrap(Bg.origin(gt['args'][1]))
            to_caller = has_fields(projs, 'from_pid') or (base[0] in ('local', 'arg') and Bg.local_name(base[1]) == 'from_pid')
            # the tuple [Reference(reference), reply]
            tup_ok = False
            for bb, j, st in Bg.stmts():
                if st['k'] == '=' and st['rv']['k'] == 'agg' and st['rv']['ak'] == 'array' and len(st['rv']['ops']) == 2:
                    o0 = Bg.origin(st['rv']['ops'][0])
                    if o0[0] == 'agg' and o0[1].get('var') == 'Reference':
                        b0, p0 = unwrap(Bg.origin(o0[1]['ops'][0]))
                        o1 = unwrap(Bg.origin(st['rv']['ops'][1]))
                        if (has_fields(p0, 'reference') or (b0[0] in ('local', 'arg') and Bg.local_name(b0[1]) == 'reference')):
                            tup_ok = True
            hb, hp = unwrap(Bg.origin(sends[0][1]['args'][0]))
            looked_up = hb is not None and hb[0] == 'call' and str(hb[1]) == REG + '::get' and hb[2] == gb
            if to_caller and tup_ok and not looked_up:
                ctx.bad('C18.5-gen-reply', 'handle_gen_call', 'the handle the reply is sent on is not (only) what registry.get(from_pid) answered in this call (%s): a handle remembered from an earlier call outlives its process - '
                        'the send fails, the error leaves handle_message and the server goes down with calls still waiting' % (describe(Bg, canon(Bg, sends[0][1]['args'][0]))[:70],), ctx.where(Bg, sends[0][0]),
                        key='PROV:gen_server:reply-handle-not-looked-up')
            elif to_caller and tup_ok:
                ctx.ok('C18.5-gen-reply', 'handle_gen_call', 'one send of {Reference(reference), reply} to registry.get(from_pid)', ctx.where(Bg, sends[0][0]))
            else:
                ctx.bad('C18.5-gen-reply', 'handle_gen_call', 'reply not addressed to the caller / not tagged with the caller\'s reference (to_caller=%s tuple=%s)' % (to_caller, tup_ok),
                        ctx.where(Bg, sends[0][0]), key='PROV:gen_server:reply')

    # who the caller is: the From tuple of the request itself
    Bh = None
    for q in ctx.F.bodies:
        if 'GenServerProcess' in q and q.endswith('handle_message::{closure#0}'):
            Bh = P.B(q)
    if ctx.anchor(Bh is not None, 'GenServerProcess::handle_message'):
        calls = [(bb, t) for bb, t in Bh.calls() if any(n.endswith('::handle_gen_call') for n in callee_names(t)) and len(t['args']) >= 4]
        if ctx.anchor(len(calls) >= 1, 'handle_message -> handle_gen_call'):
            from ..ranges import canon as _canon
            for bb, t in calls:
                c_pid, c_ref = _canon(Bh, t['args'][1]), _canon(Bh, t['args'][2])

                def elem_of_from_tuple(c, variant):
                    return isinstance(c, tuple) and c and c[0] == 'place' and isinstance(c[1], tuple) and c[1][0] == 'call' and str(c[1][1]).endswith('::index') and ('as:' + variant) in c[2]
                if elem_of_from_tuple(c_pid, 'Pid') and elem_of_from_tuple(c_ref, 'Reference'):
                    ctx.ok('C18.5-gen-reply', 'handle_message:caller', 'caller pid and reference are the two elements of the request\'s own From tuple', ctx.where(Bh, bb))
                else:
                    ctx.bad('C18.5-gen-reply', 'handle_message:caller', 'the pid the reply goes to (%s) / the reference (%s) are not taken from the From tuple {Pid, Ref} of the $gen_call request: '
                            'a call relayed by another process is answered to the relay, and the real caller waits for ever' % (describe(Bh, c_pid), describe(Bh, c_ref)), ctx.where(Bh, bb),
                            key='PROV:gen_server:handle_message:caller')

    # ---------------- clause 6: bookkeeping symmetry in Node ----------------------------------------------------
    ctx.rule('C18.6-bookkeeping', 'local link/unlink add/remove the peer on both handles with swapped arguments; monitor stores (from, ref) on the target and returns that ref; demonitor removes by it', floor=4)
    for op, meth in (('link', 'add_link'), ('unlink', 'remove_link')):
        Bn = ctx.body('edp_node::node::Node::%s::{closure#0}' % op)
        if Bn is None:
            continue
        calls = [(bb, t) for bb, t in Bn.calls() if is_call_to(t, 'edp_node::process::ProcessHandle::' + meth)]
        pairs = set()
        for bb, t in calls:
            hb, hp = receiver_root(Bn, t['args'][0])
            # handle comes from registry.get(<x>)
            who = None
            o = unwrap(Bn.origin(t['args'][0]))[0]
            if o[0] == 'call' and o[1] and o[1].endswith('ProcessRegistry::get'):
                gt = Bn.blocks[o[2]]['t']
                b2, p2 = unwrap(Bn.origin(gt['args'][1]))
                who = _param_name(Bn, b2, p2)
            b3, p3 = unwrap(Bn.origin(t['args'][1]))
            what = _param_name(Bn, b3, p3)
            pairs.add((who, what))
        if pairs == {('from', 'to'), ('to', 'from')}:
            ctx.ok('C18.6-bookkeeping', op, '%s on get(from) with to, and on get(to) with from' % meth, ctx.where(Bn))
        else:
            ctx.bad('C18.6-bookkeeping', op, '%s bookkeeping is not symmetric: %s' % (meth, sorted(pairs, key=str)), ctx.where(Bn), key='TABLE:Node::%s:symmetry' % op)
    Bm = ctx.body('edp_node::node::Node::monitor::{closure#0}')
    if Bm is not None:
        ams = [(bb, t) for bb, t in Bm.calls() if is_call_to(t, 'edp_node::process::ProcessHandle::add_monitor')]
        mrs = [(bb, t) for bb, t in Bm.calls() if is_call_to(t, 'edp_node::node::Node::make_reference')]
        if ctx.anchor(len(ams) == 1 and len(mrs) == 1, 'Node::monitor:{add_monitor,make_reference}'):
            t = ams[0][1]
            o = unwrap(Bm.origin(t['args'][0]))[0]
            who = None
            if o[0] == 'call' and o[1] and o[1].endswith('ProcessRegistry::get'):
                b2, p2 = unwrap(Bm.origin(Bm.blocks[o[2]]['t']['args'][1]))
                who = _param_name(Bm, b2, p2)
            b3, p3 = unwrap(Bm.origin(t['args'][1]))
            watcher = _param_name(Bm, b3, p3)
            r = unwrap(Bm.origin(t['args'][2]))[0]
            ref_ok = r[0] == 'call' and r[2] == mrs[0][0]
            # returned Ok(reference) on the local branch derives from the same make_reference
            # EVERY Ok(..) of monitor() hands back the reference made in this call: an early return with a reference that
            # already existed means no new entry was stored, i.e. two monitors share one entry (one demonitor removes both)
            rets = []
            for bb, j, st in Bm.stmts():
                if st['k'] == '=' and Bm.is_ret_slot(st['pl']['l']) and not st['pl'].get('p') and st['rv']['k'] == 'agg' and st['rv'].get('var') == 'Ok':
                    ro = unwrap(Bm.origin(st['rv']['ops'][0]))[0]
                    rets.append(ro[0] == 'call' and ro[2] == mrs[0][0])
            ret_ok = bool(rets) and all(rets)
            if who == 'to' and watcher == 'from' and ref_ok and ret_ok:
                ctx.ok('C18.6-bookkeeping', 'monitor', 'add_monitor(from, ref) on get(to); the same fresh reference is returned', ctx.where(Bm))
            else:
                ctx.bad('C18.6-bookkeeping', 'monitor', 'monitor bookkeeping wrong: stored on get(%s) watcher=%s ref_from_make_reference=%s returned_same=%s' % (who, watcher, ref_ok, ret_ok),
                        ctx.where(Bm), key='TABLE:Node::monitor:bookkeeping')
    Bd = ctx.body('edp_node::node::Node::demonitor::{closure#0}')
    if Bd is not None:
        rms = [(bb, t) for bb, t in Bd.calls() if is_call_to(t, 'edp_node::process::ProcessHandle::remove_monitor')]
        if ctx.anchor(len(rms) >= 1, 'Node::demonitor:remove_monitor'):
            t = rms[0][1]
            b3, p3 = unwrap(Bd.origin(t['args'][1]))
            nm = _param_name(Bd, b3, p3)
            o = unwrap(Bd.origin(t['args'][0]))[0]
            who = None
            if o[0] == 'call' and o[1] and o[1].endswith('ProcessRegistry::get'):
                b2, p2 = unwrap(Bd.origin(Bd.blocks[o[2]]['t']['args'][1]))
                who = _param_name(Bd, b2, p2)
            if nm == 'reference' and who == 'to':
                ctx.ok('C18.6-bookkeeping', 'demonitor', 'remove_monitor(reference) on get(to)', ctx.where(Bd))
            else:
                ctx.bad('C18.6-bookkeeping', 'demonitor', 'demonitor removes by %s on get(%s)' % (nm, who), ctx.where(Bd), key='TABLE:Node::demonitor:bookkeeping')

    # dependency: Atom::new
    ctx.rule('C18.2-atom-interning', 'registered names and exit reasons are atoms built with Atom::new: its interning tables agree entry by entry (a name that silently turns into another atom maps to the wrong process)', floor=1)
    from ..etf import check_atom_tables
    check_atom_tables(ctx, 'C18.2-atom-interning')

    # dependencies: pids key the registry / link / monitor tables (HashMap, HashSet); references identify monitors
    ctx.rule('C18.6-identifier-dependencies', 'the registry, link and monitor tables are hash tables keyed by pid, and monitors are removed by reference: equal pids must hash equally whatever form they arrived in '
             '(C11.3-eq-hash-fields) and references made by the node must be distinct (C16.4-*), re-run here', floor=8)
    from ..order import SubCtx as _Sub
    from . import c11 as _c11, c16 as _c16
    _c11.run(_Sub(ctx, 'C18.6-identifier-dependencies', 'c11', allow=('C11.3-eq-hash-fields',)))
    _c16.run(_Sub(ctx, 'C18.6-identifier-dependencies', 'c16', allow=('C16.4-',)))

    # notified exactly once: a process can be linked to another at most once, whatever was asked twice or from both sides
    ctx.rule('C18.3-links-are-a-set', 'the link and monitor tables of a process handle are sets (HashSet / BTreeSet): linking a pair twice, or from both sides, leaves one entry, so one exit notice per linked process; '
             'a list would need a membership test in front of every insertion', floor=2)
    PH = ctx.F.adts.get('edp_node::process::ProcessHandle')
    if ctx.anchor(PH is not None, 'edp_node::process::ProcessHandle'):
        for f in PH['variants'][0]['fields']:
            if f['n'] not in ('links', 'monitors'):
                continue
            if 'HashSet<' in f['ty'] or 'BTreeSet<' in f['ty'] or 'DashSet<' in f['ty'] or 'HashMap<' in f['ty'] or 'BTreeMap<' in f['ty'] or 'DashMap<' in f['ty']:
                ctx.ok('C18.3-links-are-a-set', f['n'], f['ty'][:120])
                continue
            # a sequence: every insertion must sit behind a `contains` test of the same collection
            adder = ctx.body('edp_node::process::ProcessHandle::add_%s::{closure#0}' % f['n'].rstrip('s'))
            guarded = False
            if adder is not None:
                pushes = [bb for bb, t in adder.calls() if (callee_of(t)[0] or '').rsplit('::', 1)[-1] in ('push', 'push_back', 'insert')]
                conts = [bb for bb, t in adder.calls() if (callee_of(t)[0] or '').rsplit('::', 1)[-1] in ('contains', 'any', 'position')]
                guarded = bool(pushes) and all(any(adder.block_dominates(c, p_) for c in conts) for p_ in pushes)
            if guarded:
                ctx.ok('C18.3-links-are-a-set', f['n'], 'a sequence whose insertions are all behind a membership test')
            else:
                ctx.bad('C18.3-links-are-a-set', f['n'], 'ProcessHandle.%s is %s, not a set, and insertions are not behind a membership test: a pair linked twice (or from both sides) holds the peer twice and the survivor gets two notices for one termination'
                        % (f['n'], f['ty'][:80]), key='TYPE:edp_node::process::ProcessHandle.%s:not-a-set' % f['n'])

    # gen_event answers every $gen_call, the failing ones included
    ctx.rule('C18.5-gen-event-reply', 'in the gen_event manager every path from the handler call of a $gen_call request to the end of handle_message looks up the caller to send it {Reference, Reply}: '
             'a failing or missing handler is answered too (with an error term), the caller is never left waiting', floor=1)
    GE = None
    for q in ctx.F.bodies:
        if 'GenEventManager' in q and q.endswith('handle_message::{closure#0}'):
            GE = P.B(q)
    if ctx.anchor(GE is not None, 'GenEventManager::handle_message'):
        hc = [(bb, t) for bb, t in GE.calls() if any(n.endswith('GenEventManager::call_handler') for n in callee_names(t))]
        gets = set(bb for bb, t in GE.calls() if is_call_to(t, REG + '::get'))
        if ctx.anchor(len(hc) >= 1, 'GenEventManager::handle_message -> call_handler'):
            for hb, ht in hc:
                later = gets & (GE.reachable(hb) - {hb})
                rets = set(GE.return_blocks())
                if later and GE.all_paths_pass(hb, later, rets):
                    ctx.ok('C18.5-gen-event-reply', 'call', 'every path from call_handler to the return looks up the caller for the reply', ctx.where(GE, hb))
                else:
                    ctx.bad('C18.5-gen-event-reply', 'call', 'there is a path from the handler call to the end of handle_message that never looks up the caller: on it the $gen_call gets no {Reference, Reply} at all',
                            ctx.where(GE, hb), key='PAIR:edp_node::gen_event::GenEventManager::handle_message:call-without-reply')

    from ..families import check_sibling_ctors as _sib
    ctx.rule('C18.4-mailbox-constructors', 'Mailbox::new and ::with_capacity differ only in the channel they create', floor=1)
    _sib(ctx, P, 'C18.4-mailbox-constructors', 'edp_node::mailbox::Mailbox', ['edp_node::mailbox::Mailbox::new', 'edp_node::mailbox::Mailbox::with_capacity'], {'receiver', 'sender'})

    # "exactly that recipient": the tables are keyed by pid, so what a pid IS (node, id, serial, creation) decides who gets the message
    ctx.rule('C18.6-recipient-identity', 'equality, hash and order of the identifier types read all their logical fields - creation included (rule C10.3-logical-fields re-run): '
             'a pid of an earlier incarnation of the node (same id and serial, other creation) must not resolve to a live process', floor=9)
    from ..order import SubCtx as _SubRI
    from . import c10 as _c10ri
    _c10ri.run(_SubRI(ctx, 'C18.6-recipient-identity', 'c10', allow=('C10.3-logical-fields',)))

    # a failing handler is the handler's problem: it is removed, the manager lives on and goes on answering
    ctx.rule('C18.5-handler-failure-contained', 'GenEventManager::notify never propagates the error of a handler callback (init / handle_event / terminate) with `?`: the error would leave handle_message, '
             'end the manager process and leave every queued $gen_call and the pending sync_notify unanswered', floor=0)
    n_hf = 0
    for q in sorted(ctx.F.bodies):
        if not ('GenEventManager' in q and q.split('::{')[0].endswith('::notify')):
            continue
        GB = P.B(q)
        for bb, t in GB.calls():
            if not (callee_of(t)[0] or '').endswith('Try::branch'):
                continue
            o = str(GB.origin(t['args'][0]))
            if 'GenEventHandler::' in o:
                n_hf += 1
                m_ = re.search(r'GenEventHandler::(\w+)', o)
                ctx.bad('C18.5-handler-failure-contained', 'notify:%s' % (m_.group(1) if m_ else '?'), 'notify propagates the error of the handler callback %s with `?`: one failing handler ends the whole manager, and the calls queued behind the event are never answered'
                        % (m_.group(1) if m_ else ''), ctx.where(GB, bb), key='ERR:edp_node::gen_event::GenEventManager::notify:propagates-handler-error')
    if n_hf == 0:
        ctx.ok('C18.5-handler-failure-contained', 'notify', 'no handler callback error is propagated out of notify')

    rwlock_guard_rules(ctx, 'C18.4-table-guards-not-across-awaits')

    # two containers of one structure that are filled together are two views of one relation: whoever takes an entry out of one has to look after the other
    ctx.rule('C18.2-paired-indexes', 'in the registry and process modules, when some operation adds to two containers of the same structure (a name table and its reverse index), every operation that removes from one of them '
             'also updates the other: an entry left behind in one index is applied later to a name that has since changed hands', floor=0)
    ADD = ('insert', 'push', 'entry', 'extend', 'push_back', 'or_default', 'or_insert', 'or_insert_with')
    DEL = ('remove', 'retain', 'clear', 'drain', 'pop', 'swap_remove', 'remove_entry', 'take', 'truncate')
    touched = {}       # body -> {(adt, field): set(ops)}
    for q in sorted(ctx.F.bodies):
        if not (q.startswith('edp_node::registry::') or q.startswith('edp_node::process::')):
            continue
        XB = P.B(q)
        acc = {}
        for bb, t in XB.calls():
            nm = callee_of(t)[0] or ''
            last = nm.rsplit('::', 1)[-1]
            if last not in ADD + DEL + ('get_mut',) or not t['args'] or t['args'][0].get('k') not in ('cp', 'mv'):
                continue
            if not any(x in nm for x in ('HashMap', 'HashSet', 'BTreeMap', 'BTreeSet', 'Vec', 'VecDeque', 'hash_map', 'btree_map')):
                continue
            for tg in XB.ref_targets({'l': t['args'][0]['pl']['l'], 'p': list(t['args'][0]['pl'].get('p') or [])}, (bb, None)):
                if tg is None:
                    continue
                flds = [e for e in (tg.get('p') or []) if isinstance(e, dict) and 'adt' in e and 'n' in e and 'f' in e]
                if flds:
                    acc.setdefault((flds[-1]['adt'], flds[-1]['n']), set()).add(last)
        if acc:
            touched[q] = acc
    pairs = set()
    for q, acc in touched.items():
        adds = sorted(k for k, ops in acc.items() if ops & set(ADD))
        for i_, a in enumerate(adds):
            for b in adds[i_ + 1:]:
                if a[0] == b[0]:
                    pairs.add((a, b))
    n_pi = 0
    for (a, b) in sorted(pairs):
        for q, acc in sorted(touched.items()):
            da, db = acc.get(a, set()) & set(DEL), acc.get(b, set()) & set(DEL)
            inst = '%s:%s/%s' % (q.split('::{')[0].rsplit('::', 1)[1], a[1], b[1])
            if bool(da) != bool(db) and not (acc.get(b if da else a)):
                n_pi += 1
                ctx.bad('C18.2-paired-indexes', inst, '%s removes from `%s` and never touches `%s`, although the two are filled together elsewhere: the stale `%s` entry is acted on later (e.g. when the former owner terminates) '
                        'and hits whoever holds the name by then' % (q.split('::{')[0].rsplit('::', 1)[1], (a if da else b)[1], (b if da else a)[1], (b if da else a)[1]), ctx.where(P.B(q)),
                        key='PAIR:%s:index-left-behind:%s' % (q.split('::{')[0], (b if da else a)[1]))
            elif da or db:
                n_pi += 1
                ctx.ok('C18.2-paired-indexes', inst, 'both containers are updated', ctx.where(P.B(q)))
    if not pairs:
        ctx.ok('C18.2-paired-indexes', 'registry', 'no two containers of one structure are filled by the same operation (%d operations with container updates examined)' % len(touched))


def _param_name(B, base, projs):
    """name of the async-fn parameter (captured upvar) or local an origin denotes"""
    for p in projs:
        if isinstance(p, str) and p.startswith('upvar:'):
            return p[len('upvar:'):]
    if base[0] in ('local', 'arg'):
        return B.local_name(base[1])
    return None


_run_before_owner_rule = run


def run(ctx):
    _run_before_owner_rule(ctx)
    registry_owners(ctx, 'C18.6-registry-changed-by-its-owners')


def registry_owners(ctx, rule):
    """who may take a process or a name out of the registry, and who may send exit notices"""
    P = ctx.P
    ctx.rule(rule, 'a process leaves the registry, and its exit notices go out, from exactly one place: the end of its own task; a name is given up only through the unregister operation. '
             'No sending or routing function does either on the strength of a failed delivery (by the time its await returns the name may belong to someone else, '
             'and the process\'s own task has sent - or will send - the notices itself)', floor=1)
    # confirmed by reading: the only callers on the pinned tree
    OWNERS = {
        'edp_node::registry::ProcessRegistry::remove': ('edp_node::process::',),
        'edp_node::process::propagate_exit_signals': ('edp_node::process::',),
        'edp_node::registry::ProcessRegistry::unregister': ('edp_node::node::Node::unregister', 'edp_node::process::', 'edp_node::registry::'),
    }
    n = 0
    for q in sorted(ctx.F.bodies):
        if not q.startswith('edp_node::') or '::tests::' in q or ctx.F.bodies[q]['kind'] not in ('Fn', 'AssocFn', 'Closure'):
            continue
        DB = P.B(q)
        host = q.split('::{')[0]
        for bb, t in DB.calls():
            if bb not in DB.live_blocks():
                continue
            for nm in callee_names(t):
                if nm in OWNERS:
                    n += 1
                    short = nm.rsplit('::', 1)[1]
                    if host.startswith(OWNERS[nm]) or host == nm:
                        ctx.ok(rule, '%s<-%s' % (short, host.replace('edp_node::', '')), 'called by its owner', ctx.where(DB, bb))
                    else:
                        ctx.bad(rule, '%s<-%s' % (short, host.replace('edp_node::', '')), '%s calls %s: only %s may - a delivery that failed says nothing about who holds the name or the pid now, '
                                'and the process\'s own task does the same work once' % (host.replace('edp_node::', ''), short, ' / '.join(o.replace('edp_node::', '').rstrip(':') for o in OWNERS[nm])),
                                ctx.where(DB, bb), key='WHO:%s:calls-%s' % (host, short))
    if n == 0:
        ctx.ok(rule, 'none', 'nothing removes from the registry')
