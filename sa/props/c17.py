"""C17 — each remote call gets its own reply; nothing is left behind afterwards.

PAIR: after pending_rpcs.insert(k, tx) every exit of the call either passed
pending_rpcs.remove(k) or lies on the receiver-completed edge (the router
consumed the entry).  PROV: fresh key from allocate(), one oneshot channel per
call.  CONST: key format identical at insert / removes / router.  TABLE: the
router looks a reply up with a consuming remove.
"""
from collections import deque
from ..core import callee_of, callee_names, is_call_to, fold, root_fields

RPC = 'edp_node::node::Node::rpc_call_raw_with_timeout::{closure#0}'
ROUTE = 'edp_node::node::Node::route_message::{closure#0}'


def proj_names(o):
    if o is None:
        return ()
    if o[0] in ('arg', 'local'):
        return tuple(o[2])
    if o[0] == 'call':
        return tuple(o[3])
    if o[0] == 'proj':
        return tuple(o[2]) + proj_names(o[1])
    if o[0] in ('payload', 'try'):
        return proj_names(o[1])
    return ()


def map_calls(B, field, method):
    out = []
    for bb, t in B.calls():
        if any(n == 'dashmap::DashMap::<K, V, S>::' + method for n in callee_names(t)) and t['args']:
            o = B.origin(t['args'][0])
            if field in proj_names(o) or ('upvar:' + field) in proj_names(o) or _local_named(B, o, field):
                out.append((bb, t))
    return out


def _local_named(B, o, name):
    if o[0] in ('arg', 'local'):
        return (B.local_name(o[1]) or '') == name
    return False


def key_local(B, op):
    """identity of the value a map key operand denotes (through &, clone): its origin"""
    o = B.origin(op)
    if o[0] == 'call':
        return ('call', o[2])
    if o[0] in ('local', 'arg') and not o[2]:
        return (o[0], o[1])
    return None


def fmt_key_shape(B, kid):
    """for a key built with format!(..): (template bytes, [argument origins])"""
    if kid is None or kid[0] != 'call':
        return None
    cur = B.blocks[kid[1]]['t']
    for _ in range(4):
        g, r = callee_of(cur)
        if g == 'core::hint::must_use':
            o = B.origin(cur['args'][0])
            if o[0] != 'call':
                return None
            cur = B.blocks[o[2]]['t']
            continue
        if g == 'alloc::fmt::format':
            o = B.origin(cur['args'][0])
            if o[0] != 'call':
                return None
            nt = B.blocks[o[2]]['t']
            from .c04 import _const_bytes, _fmt_args
            tmpl = _const_bytes(B, nt['args'][0])
            args = _fmt_args(B, nt['args'][1])
            return (tuple(tmpl) if tmpl else None, args)
        return None
    return None


def arg_fields(args):
    out = []
    for a in args or []:
        pn = proj_names(a)
        out.append(pn[-1] if pn else '?')
    return out


def run(ctx):
    P = ctx.P
    B = ctx.body(RPC)
    if B is None:
        return
    inserts = map_calls(B, 'pending_rpcs', 'insert')
    removes = map_calls(B, 'pending_rpcs', 'remove')
    if not ctx.anchor(len(inserts) == 1, RPC + ':pending_rpcs.insert'):
        return
    ib, it = inserts[0]
    klocal = key_local(B, it['args'][1])
    ctx.anchor(klocal is not None, RPC + ':insert key local')

    # ---- clause 2: PROV --------------------------------------------------------------
    ctx.rule('C17.2-fresh-key', 'the key is formatted from a pid freshly returned by allocate(); one oneshot channel per call, sender moved into the map, receiver awaited', floor=3)
    shape = fmt_key_shape(B, klocal) if klocal is not None else None
    if shape is None:
        ctx.undecided('C17.2-fresh-key', 'key', 'key is not a recognised format!() string')
    else:
        tmpl, args = shape
        fresh = True
        for a in args:
            base = a
            while base[0] in ('proj',):
                base = base[1]
            root = base
            # the pid local must come from allocate()
            if root[0] == 'local':
                od = B.single_def(root[1])
                oo = B.origin({'k': 'cp', 'pl': {'l': root[1]}})
            else:
                oo = root
            s = str(oo)
            if 'PidAllocator::allocate' not in s:
                # origin through expect(): call Result::expect(allocate())
                if oo[0] in ('local', 'arg'):
                    dd = B.single_def(oo[1])
                    if dd and dd[0] == 't' and is_call_to(dd[3], 'expect'):
                        o2 = B.origin(dd[3]['args'][0])
                        if o2[0] == 'call' and o2[1] and o2[1].endswith('PidAllocator::allocate'):
                            continue
                if oo[0] == 'call' and oo[1] and oo[1].endswith('::expect'):
                    o2 = B.origin(B.blocks[oo[2]]['t']['args'][0])
                    if o2[0] == 'call' and o2[1] and o2[1].endswith('PidAllocator::allocate'):
                        continue
                fresh = False
        flds = arg_fields(args)
        if fresh and len(args) >= 1:
            ctx.ok('C17.2-fresh-key', 'key', 'key = format(%s) of the pid returned by allocate()' % flds, ctx.where(B, ib))
        else:
            ctx.bad('C17.2-fresh-key', 'key', 'key fields %s do not all come from the freshly allocated pid' % flds, ctx.where(B, ib), key='PROV:%s:key' % RPC)
    chans = [(bb, t) for bb, t in B.calls() if is_call_to(t, 'tokio::sync::oneshot::channel')]
    if len(chans) == 1:
        cb, ct = chans[0]
        txo = B.origin(it['args'][2])
        tx_ok = (txo[0] == 'call' and txo[2] == cb and txo[3] == ('0',)) or (txo[0] == 'proj' and 'channel' in str(txo))
        d = B.derived_locals([ct['dst']['l']])
        touts = [(bb, t) for bb, t in B.calls() if any(n.startswith('tokio::time::timeout::timeout') for n in callee_names(t))]
        rx_ok = any(any(l in d for l in B._op_locals(t['args'][1])) for bb, t in touts if len(t['args']) > 1)
        if tx_ok:
            ctx.ok('C17.2-fresh-key', 'sender', 'sender of the call\'s own oneshot channel is moved into the map', ctx.where(B, ib))
        else:
            ctx.bad('C17.2-fresh-key', 'sender', 'value inserted is not the sender of this call\'s channel: %s' % (txo,), ctx.where(B, ib), key='PROV:%s:sender' % RPC)
        if rx_ok:
            ctx.ok('C17.2-fresh-key', 'receiver', 'receiver awaited under tokio::time::timeout', ctx.where(B, cb))
        else:
            ctx.bad('C17.2-fresh-key', 'receiver', 'receiver of the channel is not awaited under a timeout', ctx.where(B, cb), key='PROV:%s:receiver' % RPC)
    else:
        ctx.bad('C17.2-fresh-key', 'channel', '%d oneshot channels created per call (expected 1)' % len(chans), ctx.where(B), key='PROV:%s:channels' % RPC)

    # ---- clause 1: PAIR ------------------------------------------------------------------
    ctx.rule('C17.1-pair', 'after pending_rpcs.insert(k, tx) every exit passed pending_rpcs.remove(k) or lies on the receiver-completed edge (entry consumed by the router)', floor=2)
    rem_blocks = []
    for rb, rt in removes:
        if key_local(B, rt['args'][1]) == klocal:
            rem_blocks.append(rb)
    # the awaited receiver result
    touts = [(bb, t) for bb, t in B.calls() if any(n.startswith('tokio::time::timeout::timeout') for n in callee_names(t))]
    resp_locals = set()
    for tb, tt in touts:
        d = B.derived_locals([tt['dst']['l']])
        resp_locals |= d
    exits = []
    for bb, j, st in B.stmts():
        if st['k'] == '=' and st['pl']['l'] == 0 and not st['pl'].get('p'):
            exits.append((bb, 'assign:' + (st['rv'].get('var') or st['rv']['k'])))
    for bb, t in B.calls():
        if t['dst']['l'] == 0 and not t['dst'].get('p'):
            exits.append((bb, 'residual'))
    start = it.get('t')
    reach_all = B.reachable(start)
    # variant-tracking search: state (bb, v) with v in '?', 'Ok', 'Err' for the awaited response
    states = variant_search(B, start, set(rem_blocks), resp_locals)
    seen = {}
    for xb, kind in exits:
        if xb not in reach_all:
            continue
        vs = states.get(xb, set())
        desc = exit_desc(B, xb)
        k = seen.get(desc, 0) + 1
        seen[desc] = k
        inst = desc if k == 1 else '%s#%d' % (desc, k)
        if not vs:
            ctx.ok('C17.1-pair', inst, 'every path from the insert to this exit removes the entry', ctx.where(B, xb))
        elif vs <= {'Ok'}:
            ctx.ok('C17.1-pair', inst, 'reached without a remove only after the awaited receiver completed (entry consumed by the router)', ctx.where(B, xb))
        else:
            ctx.bad('C17.1-pair', inst, 'exit reachable after the registration without removing it (response state on that path: %s): the pending_rpcs entry is leaked' % sorted(vs),
                    ctx.where(B, xb), key='PAIR:%s:%s' % (RPC, inst))
    yields = [bb for bb in reach_all if B.blocks[bb]['t']['k'] == 'yield']
    ctx.info_note('cancellation: %d await points lie between the registration and its removal; dropping the future there leaves the entry (not counted as a violation)' % len(yields))

    # whatever else the call books for itself (a counter of outstanding calls) is given back on every way out
    ctx.rule('C17.1-counters-paired', 'a counter the call function increments for the duration of the call (fetch_add on a field of the node) is decremented on every path from there to a return: '
             'an exit that keeps its count makes "calls outstanding" grow with calls that have long returned, until new calls are refused', floor=0)
    n_cp = 0
    adds = [(bb, t) for bb, t in B.calls() if bb in B.live_blocks() and (callee_of(t)[0] or '').rsplit('::', 1)[-1] == 'fetch_add' and t['args'] and root_fields(B, t['args'][0])]
    rets = set(B.return_blocks())
    for ab, at in adds:
        fld = sorted(x for x in root_fields(B, at['args'][0]) if isinstance(x, str))
        subs = set(bb for bb, t in B.calls() if (callee_of(t)[0] or '').rsplit('::', 1)[-1] in ('fetch_sub', 'store', 'swap') and t['args'] and set(fld) & set(root_fields(B, t['args'][0])))
        if not subs:
            continue          # an id generator, not a count of something outstanding
        n_cp += 1
        nxt = at.get('t')
        leak = (B.reachable(nxt, removed_blocks=subs) & rets) if isinstance(nxt, int) else set()
        inst = 'counter:%s' % '.'.join(fld)
        if leak:
            ctx.bad('C17.1-counters-paired', inst, 'after %s.fetch_add the call can return without the matching fetch_sub: every such call stays counted as outstanding for ever' % '.'.join(fld),
                    ctx.where(B, sorted(leak)[0]), key='PAIR:%s:%s:add-without-sub' % (RPC, '.'.join(fld)))
        else:
            ctx.ok('C17.1-counters-paired', inst, 'every return after the increment has passed a decrement', ctx.where(B, ab))
    if n_cp == 0:
        ctx.ok('C17.1-counters-paired', 'none', 'the call function keeps no counter of its own')

    # the reply a call returns is the one that came in on its own channel
    ctx.rule('C17.4-reply-from-own-call', 'in the node, a function that returns a term as the answer of a remote call gets it from rpc_call_raw_with_timeout (its own one-shot channel, registered under its own reply pid) and from nowhere else: '
             'an answer picked up from a channel shared between calls (broadcast / mpsc / watch) is some other call\'s answer', floor=1)
    n_rf = 0
    for q in sorted(ctx.F.bodies):
        if ctx.F.bodies[q]['crate'] != 'edp_node' or ctx.F.bodies[q]['kind'] not in ('Fn', 'AssocFn', 'Closure') or not q.startswith('edp_node::'):
            continue
        if not (q.startswith('edp_node::node::Node::') or q.startswith('edp_node::erlang_mod_fns::')):
            continue
        QB = P.B(q)
        if 'Result<erltf::term::OwnedTerm' not in QB.local_ty(0):
            continue
        n_rf += 1
        shared = [(bb, t) for bb, t in QB.calls() if bb in QB.live_blocks() and any(('sync::broadcast' in n or 'sync::mpsc' in n or 'sync::watch' in n) and n.rsplit('::', 1)[-1] in ('recv', 'try_recv', 'recv_many', 'blocking_recv', 'changed', 'borrow', 'borrow_and_update', 'poll_recv')
                                                                                  for n in callee_names(t))]
        bad_ = None
        for sb, st_ in shared:
            d = QB.derived_locals([st_['dst']['l']])
            if any(st['k'] == '=' and st['rv']['k'] == 'agg' and st['rv'].get('var') == 'Ok' and str(st['rv'].get('adt')) == 'core::result::Result' and (QB.is_ret_slot(st['pl']['l']) or 0 in QB.derived_locals([st['pl']['l']])) and any(l in d for l in QB._rv_locals(st['rv'])) for bb, j, st in QB.stmts()):
                bad_ = (sb, callee_of(st_)[0])
        inst = q.split('::{')[0].rsplit('::', 1)[-1]
        if bad_:
            ctx.bad('C17.4-reply-from-own-call', inst, '%s returns as the answer of a remote call what it received on a channel shared between calls (%s): nothing ties that value to the node, the function or the arguments this caller asked for'
                    % (inst, bad_[1]), ctx.where(QB, bad_[0]), key='PROV:%s:reply-from-shared-channel' % q.split('::{')[0])
        else:
            ctx.ok('C17.4-reply-from-own-call', inst, 'no answer taken from a channel shared between calls', ctx.where(QB))
    ctx.anchor(n_rf >= 1, 'node functions returning the answer of a remote call (rpc_call, rpc_call_raw, rpc_call_raw_with_timeout ...)')

    # ---- clause 3: CONST key format ----------------------------------------------------------
    ctx.rule('C17.3-key-format', 'the key is built with the same template from the same pid fields at the insert site and in the router', floor=2)
    Br = ctx.body(ROUTE)
    shapes = {}
    if shape is not None:
        shapes['caller'] = (shape[0], arg_fields(shape[1]))
    rrem = []
    if Br is not None:
        rrem = map_calls(Br, 'pending_rpcs', 'remove')
        ctx.anchor(len(rrem) >= 1, ROUTE + ':pending_rpcs.remove')
        for rb, rt in rrem:
            kl = key_local(Br, rt['args'][1])
            sh = fmt_key_shape(Br, kl) if kl is not None else None
            if sh is not None:
                shapes['router'] = (sh[0], arg_fields(sh[1]))
    if len(shapes) == 2:
        if shapes['caller'] == shapes['router']:
            ctx.ok('C17.3-key-format', 'caller-vs-router', 'template %r over fields %s' % (bytes(shapes['caller'][0] or b''), shapes['caller'][1]))
            ctx.ok('C17.3-key-format', 'removes-use-insert-key', '%d remove(s) in the caller use the very key local of the insert' % len(rem_blocks))
        else:
            ctx.bad('C17.3-key-format', 'caller-vs-router', 'caller builds %s, router builds %s: a reply can never (or wrongly) match' % (shapes['caller'], shapes['router']),
                    key='CONST:rpc-key-format')
    else:
        from ..families import key_fields as _kf
        hb = {nm_: tuple(sorted(_kf(P, SB_, op_, 'erltf::types::ExternalPid')[1])) for nm_, SB_, op_ in
              [('caller', B, it['args'][1])] + [('router', Br, rt_['args'][1]) for _, rt_ in rrem]}
        if len(hb) == 2 and hb['caller'] and hb['caller'] == hb['router']:
            ctx.ok('C17.3-key-format', 'caller-vs-router', 'both sides build the key with the same function %s' % list(hb['caller']))
            ctx.ok('C17.3-key-format', 'removes-use-insert-key', '%d remove(s) in the caller use the very key local of the insert' % len(rem_blocks))
        else:
            ctx.undecided('C17.3-key-format', 'caller-vs-router', 'key construction not recognised on both sides: %s' % sorted(shapes))
    for rb, rt in removes:
        if key_local(B, rt['args'][1]) != klocal:
            ctx.bad('C17.3-key-format', 'remove-key', 'a remove in the caller uses a different key than the insert', ctx.where(B, rb), key='CONST:rpc-remove-key')

    # representation-independent: whatever builds the key, it depends on every identifying field of the reply pid
    ctx.rule('C17.3-key-fields', 'the table key of a call depends on all of id, serial and creation of its reply pid, at the registration and in the router alike '
             '(dropping one makes two calls - or a call and a stranger\'s message - share an entry once the counter wraps or the creation differs)', floor=2)
    from ..families import key_fields
    PIDT = 'erltf::types::ExternalPid'
    WANT = {'id', 'serial', 'creation'}
    sites = [('caller:insert', B, it['args'][1], ib)]
    for rb, rt in rrem:
        sites.append(('router:remove', Br, rt['args'][1], rb))
    builders = {}
    for nm, SB, op, sbb in sites:
        fs, helpers = key_fields(P, SB, op, PIDT)
        builders[nm] = tuple(sorted(helpers))
        if fs >= WANT:
            ctx.ok('C17.3-key-fields', nm, 'key depends on %s%s' % (sorted(fs), ' via ' + ', '.join(h.rsplit('::', 1)[1] for h in helpers) if helpers else ''), ctx.where(SB, sbb))
        elif not fs:
            ctx.undecided('C17.3-key-fields', nm, 'the key could not be traced back to fields of the reply pid')
        else:
            ctx.bad('C17.3-key-fields', nm, 'the key depends only on %s of the reply pid; %s is not part of it, so pids differing only there share one table entry: a reply (or an unrelated message) is handed to the wrong caller'
                    % (sorted(fs), sorted(WANT - fs)), ctx.where(SB, sbb), key='CONST:rpc-key-fields:%s:missing:%s' % (nm, ','.join(sorted(WANT - fs))))

    # ---- dependencies of "the reply addressed to it and only that one" outside node.rs -----------------------------------
    # (a) the reply pid is unique among outstanding calls only if the allocator never re-issues: nobody but allocate() moves the counters
    from .c16 import counter_writers
    counter_writers(ctx, 'C17.2-allocator-exclusive')
    # (b) the router matches on the pid as decoded: the decoder must not fold different pids of the peer onto one
    ctx.rule('C17.3-pid-decoded-verbatim', 'the pid a reply is addressed to is looked up as decoded: every pid parser hands id, serial and creation to the constructor unchanged', floor=4)
    from ..etf import check_identifier_fields_verbatim
    check_identifier_fields_verbatim(ctx, 'C17.3-pid-decoded-verbatim')

    # ---- clause 4: consuming lookup in the router ---------------------------------------------
    ctx.rule('C17.4-consuming-lookup', 'the router takes the sender out of the map (remove), so a duplicate or late reply finds nothing; the reply is sent on the removed sender', floor=1)
    if Br is not None:
        gets = [(bb, t) for m in ('get', 'get_mut', 'iter', 'entry') for bb, t in map_calls(Br, 'pending_rpcs', m)]
        if gets:
            ctx.bad('C17.4-consuming-lookup', 'router', 'router looks pending calls up without removing them (%s)' % [callee_of(t)[0].split('::')[-1] for _, t in gets],
                    ctx.where(Br, gets[0][0]), key='TABLE:%s:non-consuming-lookup' % ROUTE)
        elif rrem:
            # the sender used for send() derives from the removed entry
            sends = [(bb, t) for bb, t in Br.calls() if is_call_to(t, 'tokio::sync::oneshot::Sender::<T>::send')]
            good = False
            for sb, st in sends:
                for rb, rt in rrem:
                    if any(l in Br.derived_locals([rt['dst']['l']]) for l in Br._op_locals(st['args'][0])):
                        good = True
            if good:
                ctx.ok('C17.4-consuming-lookup', 'router', 'remove(key) then send on the removed sender', ctx.where(Br, rrem[0][0]))
            else:
                ctx.bad('C17.4-consuming-lookup', 'router', 'the reply is not sent on the sender removed from the map', ctx.where(Br, rrem[0][0]),
                        key='TABLE:%s:send-not-on-removed' % ROUTE)

    # only a message (SEND with a payload) is a reply: signals addressed to a reply pid leave the registration alone
    ctx.rule('C17.4-only-messages-consume', 'the router takes a registration out of the table only for a SEND: an EXIT or MONITOR_P_EXIT addressed to the reply pid of an outstanding call '
             '(or a REG_SEND) must not consume the entry - the call would "complete" with the exit reason and its real reply find nothing', floor=1)
    if Br is not None and rrem:
        CMv = [v['n'] for v in ctx.F.adts.get('edp_client::control::ControlMessage', {}).get('variants', [])]
        from ..core import dominating_edges as _de17
        for rb, rt in rrem:
            arms, via = set(), None
            inter = []
            for (src, vals, dst) in _de17(Br, rb):
                sd = Br.switch_on_discr(src)
                if not sd or 'else' in vals or len(vals) != 1:
                    continue
                ty_ = str(sd[1]).replace('&', '')
                if ty_ == 'edp_client::control::ControlMessage':
                    arms = {CMv[vals[0]]}
                elif ty_.startswith('edp_node::') or ty_.startswith('edp_client::'):
                    inter.append((ty_, vals[0]))
            if not arms and inter:
                # the arm was chosen by an intermediate value built per control message: the messages that build that variant
                ty_, vi_ = inter[-1]
                via = '%s variant %d' % (ty_.rsplit('::', 1)[-1], vi_)
                for lb, j_, st_ in Br.stmts():
                    if st_['k'] == '=' and st_['rv']['k'] == 'agg' and str(st_['rv'].get('adt')) == ty_ and st_['rv'].get('vi') == vi_ and lb in Br.live_blocks():
                        got = None
                        for (src, vals, dst) in _de17(Br, lb):
                            sd = Br.switch_on_discr(src)
                            if sd and str(sd[1]).replace('&', '') == 'edp_client::control::ControlMessage' and 'else' not in vals and len(vals) == 1:
                                got = CMv[vals[0]]
                        arms.add(got or '?')
            if arms and arms <= {'Send', 'SendSender', 'SendTt', 'SendSenderTt', 'AliasSend', 'AliasSendTt'}:
                ctx.ok('C17.4-only-messages-consume', 'router:remove', 'the removal is reached for %s only%s' % (sorted(arms), (' (through %s)' % via) if via else ''), ctx.where(Br, rb))
            elif not arms:
                ctx.bad('C17.4-only-messages-consume', 'router:remove', 'the removal from the table of outstanding calls is not confined to the arm of a SEND: whatever control message names the reply pid as its recipient '
                        '(an EXIT, a MONITOR_P_EXIT) completes the call with its own content', ctx.where(Br, rb), key='TABLE:%s:remove-not-confined-to-send' % ROUTE)
            else:
                ctx.bad('C17.4-only-messages-consume', 'router:remove', 'the removal from the table of outstanding calls is also reached for %s: such a message addressed to a reply pid completes the call with its own content, '
                        'and the real reply finds nothing' % sorted(a for a in arms if not a.startswith('Send')), ctx.where(Br, rb), key='TABLE:%s:remove-not-confined-to-send' % ROUTE)

    # (c) the whole allocator discipline (lock, one store per path, wrap-around serial, creation): rules of C16 re-run
    ctx.rule('C17.2-allocator-discipline', 'the reply pid of a call is unique among outstanding calls only if PidAllocator::allocate never hands out a pid twice, also under concurrent callers: rules of C16 re-run here', floor=20)
    from ..order import SubCtx as _Sub
    from . import c16 as _c16
    _c16.run(_Sub(ctx, 'C17.2-allocator-discipline', 'c16'))
    # (d) who touches the table of outstanding calls
    ctx.rule('C17.4-table-accessors', 'the table of outstanding calls is touched only by the call itself (insert, remove of its own key) and by the router (remove of the addressed key): '
             'no other function iterates, drains, clears or completes its entries (they do not record which peer they wait for)', floor=2)
    n_acc = 0
    for B2 in P.all('edp_node'):
        base2 = B2.path.split('::{')[0]
        for bb, t in B2.calls():
            if not t['args'] or not any('dashmap::' in n or 'DashMap' in n for n in callee_names(t)):
                continue
            o2 = B2.origin(t['args'][0])
            if not ('pending_rpcs' in proj_names(o2) or 'upvar:pending_rpcs' in proj_names(o2) or _local_named(B2, o2, 'pending_rpcs')):
                continue
            m = callee_names(t)[0].rsplit('::', 1)[1]
            n_acc += 1
            inst = '%s:%s' % (base2.rsplit('::', 1)[1], m)
            if (base2 == RPC.split('::{')[0] and m in ('insert', 'remove')) or (base2 == ROUTE.split('::{')[0] and m in ('remove',)) or m in ('clone', 'len', 'is_empty', 'new', 'contains_key'):
                ctx.ok('C17.4-table-accessors', inst + '#%d' % n_acc, 'expected accessor', ctx.where(B2, bb))
            else:
                ctx.bad('C17.4-table-accessors', inst, '%s performs %s on the table of outstanding calls: entries of calls it knows nothing about (other peers, other callers) are completed, removed or exposed'
                        % (base2.rsplit('::', 1)[1], m), ctx.where(B2, bb), key='WHO:%s:pending_rpcs.%s' % (base2, m))
    ctx.anchor(n_acc >= 3, 'accesses to pending_rpcs')

    # a reply can only be matched to its call if the receiver still reads frames where the peer wrote them: the receiver-side
    # rules of C19 that keep the stream in step (and the connection table free for deregistration) are re-run here
    ctx.rule('C17.1-receiver-in-step', 'replies are taken from frames the peer sent as frames: after an error that leaves a frame body unread the receiver stops instead of parsing the body as frames, '
             'and no call holds a guard of the connection table while it waits for its reply (rules C19.3-sync-after-error and C19.4-table-guard-scope re-run)', floor=1)
    from . import c19 as _c19
    if type(ctx).__name__ != 'SubCtx':
        _c19.run(_Sub(ctx, 'C17.1-receiver-in-step', 'c19', allow=['C19.3-sync-after-error', 'C19.4-table-guard-scope', 'C19.1-payload-kept']))

    # the registration is removed by code that runs after the wait: a future that is dropped in the middle of the wait never gets there
    ctx.rule('C17.1-not-cancelled-inside', 'inside the node no future of a function that registers an outstanding call (or of a function awaiting one) is handed to tokio::time::timeout, select or abort: '
             'cancelling it between registration and cleanup leaves the entry (and its sender) in the table for good', floor=0)
    reg = set()
    for B3 in P.all('edp_node'):
        if map_calls(B3, 'pending_rpcs', 'insert'):
            reg.add(B3.path.split('::{')[0])
    ctx.anchor(bool(reg), 'a function that inserts into pending_rpcs')
    # async callers that await a registering function are registering functions themselves
    changed = True
    while changed:
        changed = False
        for B3 in P.all('edp_node'):
            base3 = B3.path.split('::{')[0]
            if base3 in reg:
                continue
            if any(n in reg for bb, t in B3.calls() for n in callee_names(t)):
                reg.add(base3)
                changed = True
    # cleanup done by a destructor runs on cancellation too: then wrapping is harmless
    dtor = [B3.path for B3 in P.all('edp_node') if ' as core::ops::drop::Drop>::drop' in B3.path and map_calls(B3, 'pending_rpcs', 'remove')]
    n_c = 0
    for B3 in ([] if dtor else P.all('edp_node')):
        for bb, t in B3.calls():
            nm = callee_of(t)[0] or ''
            if not (nm.startswith('tokio::time::timeout::timeout') or nm.startswith('tokio::time::timeout::timeout_at') or nm.endswith('JoinHandle::<T>::abort') or 'futures_util::future::select' in nm):
                continue
            for a in t['args']:
                o = B3.origin(a)
                if o and o[0] == 'call' and o[1] in reg:
                    n_c += 1
                    ctx.bad('C17.1-not-cancelled-inside', '%s:%s' % (B3.path.split('::{')[0].rsplit('::', 1)[-1], o[1].rsplit('::', 1)[-1]),
                            'the future of %s (which registers an outstanding call and removes it only after its own wait) is wrapped in %s: when the outer deadline wins, the inner future is dropped and its registration stays in the table'
                            % (o[1].rsplit('::', 1)[-1], nm.rsplit('::', 1)[-1]), ctx.where(B3, bb), key='PAIR:%s:cancels:%s' % (B3.path.split('::{')[0], o[1].rsplit('::', 1)[-1]))
    if n_c == 0:
        ctx.ok('C17.1-not-cancelled-inside', 'edp_node', ('the registration is removed by a destructor (%s)' % dtor[0]) if dtor else 'no registering future (%s) is wrapped in a timeout / select / abort' % ', '.join(sorted(x.rsplit('::', 1)[-1] for x in reg)))

    # the reply may arrive as soon as the request is on the wire: the call must be in the table before that
    ctx.rule('C17.1-register-before-send', 'the registration in the table of outstanding calls dominates the call that sends the request: a reply that arrives before the registration finds no entry and is dropped, '
             'and the caller waits for its timeout', floor=1)
    sends = [(bb, t) for bb, t in B.calls() if any(n.startswith('edp_client::connection::Connection::send') for n in callee_names(t))]
    if ctx.anchor(bool(sends), RPC + ': a Connection::send* call'):
        for sb, st_ in sends:
            nm_ = [n for n in callee_names(st_) if n.startswith('edp_client::connection::Connection::send')][0].rsplit('::', 1)[1]
            if B.block_dominates(ib, sb) and ib != sb:
                ctx.ok('C17.1-register-before-send', nm_, 'pending_rpcs.insert dominates the send', ctx.where(B, sb))
            else:
                ctx.bad('C17.1-register-before-send', nm_, 'the request is sent by %s before (or without) the call being registered in pending_rpcs: a quick reply is routed while the table has no entry for it' % nm_,
                        ctx.where(B, sb), key='DOM:%s:send-before-register' % RPC)

    from ..families import check_error_swallow as _swallow
    ctx.rule('C17.1-errors-surface', 'in the functions of this property that can themselves report failure, the Result of one of the repository\'s own fallible functions is never turned into "nothing" or a default (ok(), unwrap_or*, map_or*): an error must surface as an error, not as a value the callee never produced; a rule about what must not be there (exercised on the fixture every run)', floor=0)
    _swallow(ctx, P, 'C17.1-errors-surface', ('edp_node::node::Node::rpc',))

    # "exactly that recipient": the tables are keyed by pid, so what a pid IS (node, id, serial, creation) decides who gets the message
    ctx.rule('C17.3-recipient-identity', 'equality, hash and order of the identifier types read all their logical fields - creation included (rule C10.3-logical-fields re-run): '
             'a pid of an earlier incarnation of the node (same id and serial, other creation) must not resolve to a live process', floor=9)
    from ..order import SubCtx as _SubRI
    from . import c10 as _c10ri
    _c10ri.run(_SubRI(ctx, 'C17.3-recipient-identity', 'c10', allow=('C10.3-logical-fields',)))

    # a panic between registration and cleanup unwinds past the cleanup: the entry stays, the caller gets neither reply nor error
    ctx.rule('C17.1-no-panic-while-registered', 'in the call function no panic-capable site (unwrap/expect, indexing, checked arithmetic, time arithmetic with a caller-supplied duration) lies after the registration in pending_rpcs: '
             'unwinding from there skips the removal', floor=0)
    from ..families import panic_sites as _ps17, discharge as _dis17
    from ..ranges import Ranges as _R17
    after = B.reachable(ib) - {ib}
    R17 = _R17(B)
    n17 = 0
    for site in _ps17(B):
        if site['bb'] not in after:
            continue
        n17 += 1
        verdict, detail = _dis17(B, R17, site)
        inst = 'rpc:%s' % site['desc'][:60]
        if verdict == 'ok':
            ctx.ok('C17.1-no-panic-while-registered', inst, detail, ctx.where(B, site['bb']))
        elif verdict == 'undecided':
            ctx.undecided('C17.1-no-panic-while-registered', inst, detail, ctx.where(B, site['bb']))
        else:
            ctx.bad('C17.1-no-panic-while-registered', inst, '%s after the call has been registered: %s' % (site['kind'], detail), ctx.where(B, site['bb']),
                    key='PANIC:%s:after-registration:%s' % (RPC, site['kind']))
    if n17 == 0:
        ctx.ok('C17.1-no-panic-while-registered', 'rpc', 'no panic-capable site after the registration')


def exit_desc(B, bb):
    """line-number-free description of an exit: what error/value it returns"""
    blk = B.blocks[bb]
    for st in blk['s']:
        if st['k'] == '=' and st['pl']['l'] == 0:
            rv = st['rv']
            if rv['k'] == 'agg':
                if rv.get('var') == 'Err':
                    o = B.origin(rv['ops'][0])
                    if o[0] == 'agg':
                        return 'Err(%s)' % o[1].get('var')
                    return 'Err(?)'
                return '%s' % rv.get('var')
    t = blk['t']
    if t['k'] == 'call' and t['dst']['l'] == 0:
        # `?` residual: name the awaited/called thing whose error is propagated
        o = B.origin(t['args'][0])
        s = str(o)
        for name in ('send_to_name', 'RpcTimeout', 'RpcCancelled', 'lock'):
            if name in s:
                return '?-residual(%s)' % name
        # look at the closure passed to the nearest map_err
        cur = o
        for _ in range(6):
            if cur[0] in ('proj', 'payload', 'try'):
                cur = cur[1]
                continue
            if cur[0] == 'call':
                tt = B.blocks[cur[2]]['t']
                if is_call_to(tt, 'map_err') and len(tt['args']) > 1:
                    co = B.origin(tt['args'][1])
                    if co[0] == 'agg' and co[1].get('def'):
                        return '?-residual(map_err %s)' % co[1]['def'].rsplit('::', 1)[-1]
                    if co[0] == 'fnref':
                        return '?-residual(map_err %s)' % co[1].rsplit('::', 1)[-1]
                if tt['args']:
                    cur = B.origin(tt['args'][0])
                    continue
            break
        return '?-residual'
    return 'exit'


def variant_search(B, start, removed, resp_locals):
    """BFS over (block, variant) where variant is what is known about the awaited response
    (a Result): '?', 'Ok', 'Err'.  is_err/is_ok tests and `?` on values derived from the
    response (map_err keeps Ok/Err-ness) refine it; infeasible edges are not taken.
    Returns block -> set of variants with which it is reachable without passing `removed`."""
    out = {}
    if start is None or start in removed:
        return out
    dq = deque([(start, '?')])
    seen = {(start, '?')}
    while dq:
        bb, v = dq.popleft()
        out.setdefault(bb, set()).add(v)
        t = B.blocks[bb]['t']
        nxt = []
        handled = False
        if t['k'] == 'switch':
            sb = B.switch_bool_edges(bb) if t['dty'] == 'bool' else None
            if sb:
                source, t_t, f_t = sb
                if source[0] == 'call' and source[2]['args'] and \
                        any(l in resp_locals for l in B._op_locals(source[2]['args'][0])) and _outer(B, source[2]['args'][0], resp_locals):
                    nm = (callee_of(source[2])[0] or '')
                    if nm.endswith('::is_err') or nm.endswith('::is_ok'):
                        is_err = nm.endswith('::is_err')
                        for tgt, truth in ((t_t, True), (f_t, False)):
                            nv = 'Err' if (truth == is_err) else 'Ok'
                            if v in ('?', nv):
                                nxt.append((tgt, nv))
                        handled = True
            sd = B.switch_on_discr(bb)
            if not handled and sd:
                pl, ty, cases, els = sd
                d = B.single_def(pl['l'])
                if d and d[0] == 't' and callee_of(d[3])[0] == 'core::ops::try_trait::Try::branch':
                    arg = d[3]['args'][0]
                    if any(l in resp_locals for l in B._op_locals(arg)) and _outer(B, arg, resp_locals):
                        for val, tgt in cases:
                            nv = 'Ok' if val == 0 else 'Err'
                            if v in ('?', nv):
                                nxt.append((tgt, nv))
                        handled = True
            if not handled and sd and sd[1].replace('&', '').startswith('core::result::Result<') and sd[0]['l'] in resp_locals and _outer(B, {'k': 'cp', 'pl': sd[0]}, resp_locals):
                # `match outcome { Ok(..) => .., Err(_) => .. }` on the awaited result itself
                pl, ty, cases, els = sd
                got = set()
                for val, tgt in cases:
                    nv = 'Ok' if val == 0 else 'Err'
                    got.add(nv)
                    if v in ('?', nv):
                        nxt.append((tgt, nv))
                rest = {'Ok', 'Err'} - got
                if els is not None and len(rest) == 1:
                    nv = next(iter(rest))
                    if v in ('?', nv):
                        nxt.append((els, nv))
                elif els is not None and rest:
                    nxt.append((els, v))
                handled = True
        if not handled:
            nxt = [(s_, v) for s_ in B.succ(bb)]
        for s_, nv in nxt:
            if s_ in removed:
                continue
            if (s_, nv) not in seen:
                seen.add((s_, nv))
                dq.append((s_, nv))
    return out


def _outer(B, op, resp_locals):
    """True when op denotes the *outer* Result of the awaited timeout (directly or through map_err),
    not the inner payload extracted by a previous `?`."""
    o = B.origin(op)
    depth = 0
    while True:
        if o[0] in ('payload', 'try'):
            return False
        if o[0] == 'proj':
            # Ready payload of Poll is still the outer result; Continue payload is the inner one
            if any(str(p).startswith('as:Continue') for p in o[2]):
                return False
            o = o[1]
            continue
        break
    if o[0] in ('local', 'arg', 'call'):
        pn = proj_names(o)
        if any(str(p).startswith('as:Continue') for p in pn):
            return False
    return True


_run_before_relock_rule = run


def run(ctx):
    _run_before_relock_rule(ctx)
    if type(ctx).__name__ != 'SubCtx':
        connection_lock_not_retaken(ctx, 'C17.5-connection-lock-not-retaken')


def connection_lock_not_retaken(ctx, rule):
    """while a function holds the guard of a connection's mutex it does not ask for a connection mutex again"""
    from ..families import guard_flow, awaited_guard_start
    P = ctx.P
    ctx.rule(rule, 'a function that holds the guard of a connection\'s tokio Mutex does not - itself or through a method of the node it awaits - lock a connection again before the guard is gone: '
             'the mutex is not re-entrant, on the same connection the second lock is never granted, the call neither returns nor times out and every later call to that node queues behind it. '
             'A rule about what must not be there', floor=0)
    n = 0
    for k in sorted(ctx.F.bodies):
        if not k.startswith('edp_node::node::Node::') or '::tests::' in k:
            continue
        XB = P.B(k)
        if XB is None:
            continue
        polls = [(bb, t) for bb, t in XB.calls() if (callee_of(t)[0] or '').endswith('Future::poll')]
        locks = []
        for pb, pt in polls:
            o = XB.origin(pt['args'][0])
            if o and o[0] == 'call' and str(o[1]).endswith('Mutex::<T>::lock') and 'Connection' in str(XB.blocks[o[2]]['t'].get('aty')):
                locks.append((pb, o[2]))
        if len(locks) < 2:
            continue
        for pb, lb in locks:
            st = awaited_guard_start(XB, pb)
            if not st:
                continue
            sin, _bt = guard_flow(XB, pb, start=st[0], holders=[st[1]])
            again = [(pb2, lb2) for pb2, lb2 in locks if pb2 != pb and sin.get(lb2)]
            if again:
                n += 1
                base = k.split('::{')[0]
                ctx.bad(rule, '%s:lock-while-locked' % base.rsplit('::', 1)[1], '%s locks a connection while it still holds the guard of a connection mutex taken earlier in the same call: '
                        'for the same connection that lock is never granted' % base.rsplit('::', 1)[1], ctx.where(XB, again[0][1]), key='LOCK:%s:connection-lock-retaken' % base)
                break
    if n == 0:
        ctx.ok(rule, 'edp_node', 'no function asks for a connection mutex while it holds one')
