"""C12 — term comparison agrees with Erlang's standard term order.

TABLE: variant -> rank vs the reference manual; shape rules for the per-type recipes
(big-integer digit order, map keys-then-values, tuple size-first, list elements-first);
numeric exactness shared with C11 clause 4.
"""
import json, os
from ..core import callee_of, callee_names, is_call_to, unwrap, receiver_root
from ..families import bodies_of_fn, orientation_of_region, describe
from ..wire import _sccs
from ..ranges import canon
from .c11 import comparator_tables, CMP_O, CMP_B, arm_summary

SPEC = os.path.join(os.path.dirname(os.path.dirname(os.path.dirname(os.path.abspath(__file__)))), 'spec', 'term_order.json')


def run(ctx):
    P = ctx.P
    spec = json.load(open(SPEC))
    order = spec['rank_order']
    tabs = {}
    for which in ('owned', 'borrowed'):
        t = comparator_tables(ctx, which)
        if t is None:
            # fail closed: nothing about the order can be decided without the pair table
            ctx.anchor(False, 'pair table of the %s comparator (Ord::cmp of the term type, with a rank function or an evaluable rank comparison)' % which)
            return
        tabs[which] = t
    # ---------------- clause 1: rank table ---------------------------------------------------------
    ctx.rule('C12.1-rank-table', 'the variant -> type rank map is order-isomorphic to number < atom < reference < fun < port < pid < tuple < map < nil/list < bit-string, in both comparators', floor=34)
    for which, T in tabs.items():
        ranks = T['ranks']
        kinds = spec['variant_kind']
        for a in T['variants']:
            ka = kinds.get(a)
            inst = '%s:%s' % (which, a)
            if ka is None:
                ctx.undecided('C12.1-rank-table', inst, 'variant not in the reference table')
                continue
            bad = []
            for b in T['variants']:
                kb = kinds.get(b)
                if kb is None or ranks[a] is None or ranks[b] is None:
                    continue
                want = (order.index(ka) > order.index(kb)) - (order.index(ka) < order.index(kb))
                got = (ranks[a] > ranks[b]) - (ranks[a] < ranks[b])
                if want != got:
                    bad.append(b)
            if bad:
                ctx.bad('C12.1-rank-table', inst, '%s (%s, rank %s) is ordered wrongly against %s' % (a, ka, ranks[a], bad), ctx.where(T['B']),
                        key='TABLE:%s:rank:%s' % (CMP_O if which == 'owned' else CMP_B, a))
            else:
                ctx.ok('C12.1-rank-table', inst, '%s -> rank %s' % (ka, ranks[a]))

    # ---------------- clause 3: big-integer comparison ---------------------------------------------------
    ctx.rule('C12.3-bigint-digits', 'big-integer magnitudes (little-endian digit vectors, copied verbatim from the wire) are compared from the most significant digit: '
             'every comparison of two digit sequences runs over the reversed sequences', floor=4)
    ctx.rule('C12.3-bigint-signs', 'compare_bigint decides mixed signs by the sign alone (positive > negative), compares two positives by magnitude (length, then digits) in the '
             'direct orientation and two negatives with EVERY magnitude comparison in the opposite orientation (operands swapped or the result reversed)', floor=8)
    mods_ = [m_ for m_ in ('term', 'borrowed') if P.B('erltf::%s::compare_bigint' % m_) is not None]
    if 'borrowed' not in mods_ and 'term' in mods_ and CMP_B in ctx.F.bodies and 'erltf::term::compare_bigint' in P.reachable_from([CMP_B]):
        # the zero-copy comparator uses the owned type's helper directly: one copy to check instead of two
        ctx.rule('C12.3-bigint-digits', '', floor=2)
        ctx.rule('C12.3-bigint-signs', '', floor=4)
        ctx.ok('C12.3-bigint-signs', 'borrowed::compare_bigint', 'BorrowedTerm::cmp calls erltf::term::compare_bigint (shared helper)')
    else:
        mods_ = ['term', 'borrowed']
    for mod in mods_:
        fn = 'erltf::%s::compare_bigint' % mod
        FB = P.B(fn)
        if not ctx.anchor(FB is not None, fn):
            continue
        arms = _sign_arms(FB)
        if not ctx.anchor(len(arms) == 4, fn + ':match (a.sign, b.sign) with four arms'):
            continue
        names = {0: 'Positive', 1: 'Negative'}
        for (sa, sb), start in sorted(arms.items()):
            inst = '%s::compare_bigint:(%s,%s)' % (mod, names[sa], names[sb])
            region = FB.reachable(start)
            if sa != sb:
                consts = {st['rv']['var'] for bb in region for st in FB.blocks[bb]['s']
                          if st['k'] == '=' and st['pl']['l'] == 0 and st['rv']['k'] == 'agg' and st['rv'].get('adt') == 'core::cmp::Ordering'}
                want = 'Greater' if sa == 0 else 'Less'
                if consts == {want}:
                    ctx.ok('C12.3-bigint-signs', inst, 'constant %s' % want, ctx.where(FB, start))
                else:
                    ctx.bad('C12.3-bigint-signs', inst, 'a %s and a %s big integer must compare %s by sign alone; the arm yields %s' % (names[sa].lower(), names[sb].lower(), want, sorted(consts) or 'a computed value'),
                            ctx.where(FB, start), key='SHAPE:%s:signs:%s-%s' % (fn, names[sa], names[sb]))
                continue
            comps = orientation_of_region(P, FB, region, {1: 'a', 2: 'b'})
            want = 1 if sa == 0 else -1
            if not comps:
                ctx.undecided('C12.3-bigint-signs', inst, 'no comparison recognised in the arm')
                continue
            wrong = [c for c in comps if c[3] is not None and c[3] != want]
            unknown = [c for c in comps if c[3] is None]
            if wrong:
                CB, bb, nm, o, ch = wrong[0]
                ctx.bad('C12.3-bigint-signs', inst, 'for two %s big integers %d of the %d magnitude comparisons (%s at %s) run in the %s orientation: %s' % (
                    names[sa].lower(), len(wrong), len(comps), nm, CB.path.rsplit('::', 1)[-1], 'direct' if o == 1 else 'reversed',
                    'of two negative numbers the one with the larger magnitude is the smaller' if sa == 1 else 'of two positive numbers the one with the larger magnitude is the larger'),
                    ctx.where(CB, bb), key='SHAPE:%s:signs:%s-%s:orientation' % (fn, names[sa], names[sb]))
            elif unknown:
                ctx.undecided('C12.3-bigint-signs', inst, 'operands of %d comparison(s) could not be attributed to a / b' % len(unknown))
            else:
                ctx.ok('C12.3-bigint-signs', inst, '%d comparisons, all %s' % (len(comps), 'a-vs-b' if want == 1 else 'b-vs-a (swapped or reversed)'), ctx.where(FB, start))
            # digit sequences: most significant first
            for CB, bb, nm, o, (c0, c1) in comps:
                t = CB.blocks[bb]['t']
                tys = ' '.join(t.get('aty') or [])
                on_digits = all('digits' in str(receiver_root(CB, a_)[1]) or any('iter' in x for x in ch_) for a_, ch_ in zip(t['args'][:2], (c0, c1)))
                is_len = any(x.endswith('::len') for x in c0 + c1)
                if is_len or 'usize' in tys.split(' ')[0:1]:
                    continue
                dinst = '%s::compare_bigint:(%s,%s):%s@%s' % (mod, names[sa], names[sb], nm, CB.path.rsplit('::', 1)[-1])
                msb = all(any(x.endswith('::rev') or 'cmp_by' in x for x in ch_) for ch_ in (c0, c1))
                helper = [n_ for n_ in callee_names(t) if n_ in ctx.F.bodies and n_.startswith('erltf::')]
                if helper and not msb:
                    # the digits are handed to a helper of the crate: look at how it walks them
                    v, why = _digit_walk(P, helper[0])
                    if v == 'ok':
                        ctx.ok('C12.3-bigint-digits', dinst, '%s walks the digits from the most significant end (%s)' % (helper[0].rsplit('::', 1)[1], why), ctx.where(CB, bb))
                    elif v == 'bad':
                        ctx.bad('C12.3-bigint-digits', dinst, '%s: %s' % (helper[0].rsplit('::', 1)[1], why), ctx.where(CB, bb), key='SHAPE:%s:lsb-first' % fn)
                    else:
                        ctx.undecided('C12.3-bigint-digits', dinst, 'digit walk of %s not recognised (%s)' % (helper[0].rsplit('::', 1)[1], why))
                    continue
                if msb:
                    ctx.ok('C12.3-bigint-digits', dinst, 'both digit sequences are reversed before the comparison', ctx.where(CB, bb))
                elif 'Vec<u8>' in tys or 'Iter' in tys or '[u8]' in tys:
                    ctx.bad('C12.3-bigint-digits', dinst, 'equal-length magnitudes are compared from the LEAST significant byte (no .rev() on %s): [0,1] (256) compares below [1,0] (1)' % (
                        'either side' if not any(any(x.endswith('::rev') for x in ch_) for ch_ in (c0, c1)) else 'one side'), ctx.where(CB, bb), key='SHAPE:%s:lsb-first' % fn)
                elif tys.replace('&', '').split(' ')[0] == 'u8':
                    # digit by digit, by position (the loop of a helper that has been spliced in here): which way do the positions run?
                    v, why = _digit_walk(P, None, bodies=[CB])
                    if v == 'ok':
                        ctx.ok('C12.3-bigint-digits', dinst, 'the digits are walked from the most significant end (%s)' % why, ctx.where(CB, bb))
                    elif v == 'bad':
                        ctx.bad('C12.3-bigint-digits', dinst, why, ctx.where(CB, bb), key='SHAPE:%s:lsb-first' % fn)
                    else:
                        ctx.undecided('C12.3-bigint-digits', dinst, 'digit walk not recognised (%s)' % why)
                else:
                    ctx.undecided('C12.3-bigint-digits', dinst, 'comparison of %s not recognised' % tys)

    # ---------------- clause 2: numbers by mathematical value ------------------------------------------------------
    ctx.rule('C12.2-number-shapes', 'numbers compare by mathematical value: no comparison on the number path uses the IEEE total order (total_cmp separates -0.0 from 0.0, which are the same number), '
             'and the magnitude of a negative i64 is taken with wrapping_neg / unsigned_abs (exact for i64::MIN), never with a saturating or plain negation', floor=2)
    from ..families import check_casts
    MAG = {}
    for which in ('owned', 'borrowed'):
        root = CMP_O if which == 'owned' else CMP_B
        reach = sorted(q for q in P.reachable_from([root]) if ctx.F.bodies[q]['crate'] == 'erltf')
        tc = [(q, bb) for q in reach for bb, t in P.B(q).calls() if (callee_of(t)[0] or '').endswith('::total_cmp')]
        if tc:
            q, bb = tc[0]
            ctx.bad('C12.2-number-shapes', which + ':float-order', '%s compares floats with f64::total_cmp: that is the IEEE total order, in which -0.0 < 0.0 (and NaNs are ordered by payload); '
                    'as numbers the two zeros are equal, and both equal the integer 0' % q.rsplit('::', 2)[-2], ctx.where(P.B(q), bb), key='SHAPE:%s:float-total_cmp' % root)
        else:
            ctx.ok('C12.2-number-shapes', which + ':float-order', 'no total_cmp on the comparison path (%d functions)' % len(reach))
    for mod in ('term', 'borrowed'):
        for hn in ('compare_int_bigint', 'compare_bigint_int', 'compare_int_float', 'compare_float_int'):
            HB = P.B('erltf::%s::%s' % (mod, hn))
            if HB is not None:
                before = len(ctx.records)
                check_casts(ctx, HB, 'C12.2-number-shapes', include_float=False, reviewed=MAG)
                # other ways of negating an i64 before widening
                for bb, t in HB.calls():
                    nm = (callee_of(t)[0] or '').rsplit('::', 1)[-1]
                    if nm in ('saturating_neg', 'saturating_abs', 'abs', 'checked_neg', 'checked_abs', 'overflowing_neg') and 'i64' in (callee_of(t)[0] or ''):
                        ctx.bad('C12.2-number-shapes', '%s::%s:%s' % (mod, hn, nm), 'the magnitude of the integer is taken with %s, which is not exact for i64::MIN (-2^63): Integer(i64::MIN) then compares unequal to the big integer -2^63' % nm,
                                ctx.where(HB, bb), key='CAST:erltf::%s::%s:%s' % (mod, hn, nm))

    # ---------------- clause 4/5: container recipes ------------------------------------------------------------
    ctx.rule('C12.4-map-recipe', 'maps compare by size, then all keys, then all values: a single loop that compares the key and the value of each entry interleaves them', floor=2)
    ctx.rule('C12.5-recipes', 'tuples compare size first, lists compare elements first and length last, atoms by name', floor=6)
    for which, T in tabs.items():
        B = T['B']
        cmpname = CMP_O if which == 'owned' else CMP_B
        # Map arm: find the closure(s) created in the (Map,Map) arm
        r = T['table'][('Map', 'Map')]
        inst = which + ':Map'
        if r['kind'] != 'compares':
            ctx.undecided('C12.4-map-recipe', inst, 'Map arm not recognised')
        else:
            closures = _closures_in(B, r['bb'])
            inter = None
            for cdef in closures:
                CB = P.B(cdef)
                if CB is None:
                    continue
                loops = [set(c) for c in _sccs(CB, CB.live_blocks()) if len(c) > 1]
                for l in loops:
                    cmps = [bb for bb in l if CB.blocks[bb]['t']['k'] == 'call' and (callee_of(CB.blocks[bb]['t'])[0] == 'core::cmp::Ord::cmp')
                            and 'Term' in str(CB.blocks[bb]['t'].get('aty'))]
                    # comparisons deferred into closures built inside the loop (k1.cmp(k2).then_with(|| v1.cmp(v2)))
                    for bb in sorted(l):
                        for st in CB.blocks[bb]['s']:
                            if st['k'] == '=' and st['rv']['k'] == 'agg' and st['rv']['ak'] == 'closure':
                                NB = P.B(st['rv']['def'])
                                if NB is not None and any(callee_of(t_)[0] == 'core::cmp::Ord::cmp' and 'Term' in str(t_.get('aty')) for _, t_ in NB.calls()):
                                    cmps.append(bb)
                    if len(cmps) >= 2:
                        inter = (CB, cmps)
            if inter:
                ctx.bad('C12.4-map-recipe', inst, 'the Map arm compares key and value of each entry inside ONE loop (k1 vs k2, then v1 vs v2, per entry): Erlang compares all keys first and the values only if all keys are equal, so e.g. #{a=>2,b=>1} vs #{a=>1,c=>0} is decided by the value of a instead of by the keys b < c',
                        ctx.where(inter[0], inter[1][0]), key='SHAPE:%s:Map:interleaved' % cmpname)
            elif closures:
                # positive shape: one pass over the keys, then one over the values
                names = [n for cdef in closures if P.B(cdef) is not None for _, t_ in P.B(cdef).calls() for n in callee_names(t_)]
                has_keys = any(n.endswith('::keys') for n in names)
                has_vals = any(n.endswith('::values') for n in names)
                if has_keys and has_vals:
                    ctx.ok('C12.4-map-recipe', inst, 'one loop over keys(), then one over values(); no loop compares two things per entry')
                elif any('btree' in n and n.endswith('::iter') for n in names) and not has_keys:
                    ctx.bad('C12.4-map-recipe', inst, 'the Map arm walks the entries (BTreeMap::iter) and never the keys alone: entries are compared pairwise (key, value), so an earlier value decides before a later key',
                            ctx.where(B, r['bb']), key='SHAPE:%s:Map:interleaved' % cmpname)
                else:
                    ctx.undecided('C12.4-map-recipe', inst, 'keys and values are not compared inside the same loop, but the keys()/values() passes were not recognised')
            else:
                ctx.undecided('C12.4-map-recipe', inst, 'no comparison closure found in the Map arm')
        # Tuple: first call on the arm is len().cmp (size first)
        # bit strings: the byte vectors are compared whole (the last, partly used byte included), the bit count breaks the tie
        rbb = T['table'].get(('BitBinary', 'BitBinary'))
        if rbb is not None:
            inst = which + ':BitBinary'
            if rbb['kind'] != 'compares':
                ctx.undecided('C12.5-recipes', inst, 'arm not recognised')
            else:
                t0 = B.blocks[rbb['bb']]['t']
                cs_ = [canon(B, a_) for a_ in (t0.get('args') or [])[:2]] if t0['k'] == 'call' else []

                def whole_bytes(c_):
                    for _ in range(4):     # through as_ref / deref / as_slice views
                        if isinstance(c_, tuple) and c_ and c_[0] == 'call' and str(c_[1]).rsplit('::', 1)[-1] in ('as_ref', 'deref', 'as_slice', 'as_bytes', 'borrow'):
                            c_ = canon(B, B.blocks[c_[2]]['t']['args'][0])
                    return isinstance(c_, tuple) and c_ and c_[0] == 'place' and c_[1] in (('arg', 1), ('arg', 2)) and tuple(c_[2]) == ('as:BitBinary', 'bytes')
                nm0 = (callee_of(t0)[0] or '') if t0['k'] == 'call' else ''
                if nm0.rsplit('::', 1)[-1] == 'cmp' and len(cs_) == 2 and all(whole_bytes(c_) for c_ in cs_):
                    ctx.ok('C12.5-recipes', inst, 'the byte vectors are compared whole, then the bit counts', ctx.where(B, rbb['bb']))
                else:
                    ctx.bad('C12.5-recipes', inst, 'the bit-string arm does not start by comparing the two byte vectors as they are (first operation: %s on %s): bit strings compare bit by bit from the front, '
                            'so the partly used last byte takes part in the byte-wise comparison - split off, a shorter string can sort before a longer one whose next byte is smaller'
                            % (nm0.rsplit('::', 1)[-1] or t0['k'], [describe(B, c_)[:40] for c_ in cs_]), ctx.where(B, rbb['bb']), key='SHAPE:%s:BitBinary:bytes-whole' % cmpname)
        for var, first in (('Tuple', 'len'), ('List', 'elements'), ('Atom', 'name')):
            r = T['table'][(var, var)]
            inst = '%s:%s' % (which, var)
            if r['kind'] != 'compares':
                ctx.undecided('C12.5-recipes', inst, 'arm not recognised')
                continue
            seq = _call_order(B, r['bb'])
            names = [x.rsplit('::', 1)[-1] for x in seq]
            if var == 'Tuple':
                # size comparison precedes any element comparison
                good = 'len' in names[:2] and ('then_with' in names or 'cmp' in names)
                elem_first = names and names[0] in ('iter', 'zip', 'into_iter')
                if good and not elem_first:
                    ctx.ok('C12.5-recipes', inst, 'length is compared before the elements (%s)' % names[:4])
                else:
                    ctx.bad('C12.5-recipes', inst, 'tuple arm does not compare sizes first: %s' % names[:5], ctx.where(B, r['bb']), key='SHAPE:%s:Tuple:size-first' % cmpname)
            elif var == 'List':
                # element-wise first, the length only as tie-break - wherever the two parts live (inline loop, helper function, then_with closure)
                region = B.reachable(r['bb'])
                bodies = [(B, region)]
                for cdef in _closures_in(B, r['bb']):
                    CB = P.B(cdef)
                    if CB is not None:
                        bodies.append((CB, set(CB.live_blocks())))
                # helpers of the crate called from the arm (compare_term_lists ...) are part of the recipe: look inside them too
                for bb_ in sorted(region):
                    t_ = B.blocks[bb_]['t']
                    if t_['k'] == 'call':
                        for n_ in callee_names(t_):
                            if n_.startswith('erltf::') and n_.rsplit('::', 1)[-1].startswith('compare_') and P.B(n_) is not None and n_ not in (CMP_O, CMP_B):
                                for HB_ in bodies_of_fn(P, n_):
                                    bodies.append((HB_, set(HB_.live_blocks())))
                elem_at, len_at = [], []
                for k_, (XB, reg) in enumerate(bodies):
                    for bb_ in sorted(reg):
                        t_ = XB.blocks[bb_]['t']
                        if t_['k'] != 'call':
                            continue
                        nm_ = (callee_of(t_)[0] or '').rsplit('::', 1)[-1]
                        full_ = callee_of(t_)[1] or callee_of(t_)[0] or ''
                        aty_ = str(t_.get('aty'))
                        if nm_ == 'cmp' and 'usize' in aty_ and any('len' in str(canon(XB, a_)) for a_ in t_['args'][:2]):
                            len_at.append((k_, bb_))
                        elif (nm_ == 'cmp' and 'Term' in aty_) or (nm_.startswith('compare_') and 'Term' in aty_) or nm_ in ('zip',):
                            elem_at.append((k_, bb_))
                        elif full_.startswith('erltf::') and nm_.startswith('compare_'):
                            elem_at.append((k_, bb_))
                if not elem_at:
                    ctx.undecided('C12.5-recipes', inst, 'no element-wise comparison recognised in the list arm: %s' % names[:6])
                elif not len_at:
                    ctx.bad('C12.5-recipes', inst, 'the list arm compares the common elements but never the lengths: a list that is a proper prefix of another compares Equal to it (calls: %s)' % names[:6],
                            ctx.where(B, r['bb']), key='SHAPE:%s:List:elements-first' % cmpname)
                else:
                    # a length comparison in the arm's own blocks that dominates every element comparison there = size first (tuple semantics)
                    own_len = [bb_ for k_, bb_ in len_at if k_ == 0]
                    own_el = [bb_ for k_, bb_ in elem_at if k_ == 0]
                    size_first = bool(own_len) and ((own_el and all(B.block_dominates(l_, e_) and l_ != e_ for l_ in own_len[:1] for e_ in own_el)) or (not own_el))
                    if size_first:
                        ctx.bad('C12.5-recipes', inst, 'list arm compares the lengths before the elements: lists compare element-wise, the length only breaks ties (calls: %s)' % names[:6], ctx.where(B, r['bb']),
                                key='SHAPE:%s:List:elements-first' % cmpname)
                    else:
                        ctx.ok('C12.5-recipes', inst, 'elements are compared first, lengths as tie-break (%s)' % names[:6])
            else:
                t = B.blocks[r['bb']]['t']
                pr = [x for x in receiver_root(B, t['args'][0])[1] if isinstance(x, str)] if t['k'] == 'call' and t['args'] else []
                aty = str(t.get('aty'))
                atom_ord = None
                if 'erltf::types::Atom' in aty:
                    # delegated to Atom's own order: fine when that order compares the text
                    AOB = P.B('<erltf::types::Atom as core::cmp::Ord>::cmp')
                    if AOB is not None:
                        atom_ord = any('name' in [x for x in receiver_root(AOB, t2['args'][0])[1] if isinstance(x, str)] for b2, t2 in AOB.calls() if t2['args'])
                if 'name' in pr or 'str' in aty or 'Arc<' in aty or 'Cow<' in aty:
                    ctx.ok('C12.5-recipes', inst, 'atoms are compared by their text')
                elif atom_ord:
                    ctx.ok('C12.5-recipes', inst, 'atoms are compared through Atom\'s own Ord, which compares the text')
                else:
                    ctx.bad('C12.5-recipes', inst, 'atom arm does not compare the names: %s' % pr, ctx.where(B, r['bb']), key='SHAPE:%s:Atom:by-name' % cmpname)

    # ---------------- cross-checks shared with C11 -------------------------------------------------------------------------
    ctx.rule('C12.6-comparator-hygiene', 'on the comparison path of both term types: no comparison has the same operand (or different fields) on its two sides, the order of every identifier struct reads the fields its == reads, '
             'truncating big-integer reads are guarded, and the numeric helpers duplicated for the two term types perform the same operations (rules C11.1-no-self-compare, C11.3-eq-hash-fields, C11.4-bigint-truncation, C11.5-twin-helpers re-run here)', floor=60)
    from ..order import SubCtx as _Sub
    from . import c11 as _c11
    _c11.run(_Sub(ctx, 'C12.6-comparator-hygiene', 'c11', allow=('C11.1-no-self-compare', 'C11.3-eq-hash-fields', 'C11.4-bigint-truncation', 'C11.5-twin-helpers')))

    # what is compared is the value itself, all of it
    ctx.rule('C12.2-nothing-narrowed', 'on the comparison path of both term types (the two Ord impls and every erltf function they reach) no integer is narrowed before it is compared unless its range is shown to fit: '
             'a 64-bit port id compared as `id as u32` makes ids that differ by a multiple of 2^32 equal', floor=1)
    from ..families import check_casts as _cc12
    seen12 = set()
    for root in (CMP_O, CMP_B):
        if root not in ctx.F.bodies:
            continue
        for q in sorted(P.reachable_from([root])):
            if ctx.F.bodies[q]['crate'] == 'erltf' and q not in seen12:
                seen12.add(q)
                _cc12(ctx, P.B(q), 'C12.2-nothing-narrowed', include_float=False)
    # a checked conversion is no better when its failure is turned into an answer: u64 -> i64 of a MAGNITUDE fails for 2^63, which is the
    # magnitude of i64::MIN - a negative big integer of that magnitude is an i64 and must compare Equal to it
    n_tf = 0
    for q in sorted(seen12):
        XB = P.B(q)
        if not any('BigInt' in (l_.get('ty') or '') for l_ in XB.b['locals'][1:XB.b.get('argc', 0) + 1]):
            continue
        for bb, t in XB.calls():
            nm = callee_of(t)[1] or callee_of(t)[0] or ''
            if nm.endswith('TryFrom<u64> for i64>::try_from') or nm.endswith('TryInto<i64> for u64>::try_into'):
                n_tf += 1
                has_min_case = any(st['k'] == '=' and st['rv']['k'] == 'bin' and st['rv'].get('ty') == 'u64' and any(o_.get('k') == 'c' and o_.get('v') == 2 ** 63 for o_ in (st['rv']['a'], st['rv']['b']))
                                   for b2, j2, st in XB.stmts())
                if has_min_case:
                    ctx.ok('C12.2-nothing-narrowed', '%s:magnitude-as-i64' % q.rsplit('::', 1)[1], 'magnitude converted to i64 with the 2^63 case handled separately', ctx.where(XB, bb))
                else:
                    ctx.bad('C12.2-nothing-narrowed', '%s:magnitude-as-i64' % q.rsplit('::', 1)[1], 'the 64-bit magnitude of a big integer is converted to i64 with try_from and the failure decides the comparison: '
                            'magnitude 2^63 does not fit, so the big integer -2^63 no longer compares Equal to Integer(i64::MIN) (and sorts as if it were below every i64)', ctx.where(XB, bb),
                            key='CAST:%s:magnitude-to-i64' % q.split('::{')[0])
    # (how many narrowing casts the path contains is a matter of style - wrapping_neg() as u64 or unsigned_abs(); the scan itself is the instance)
    if ctx.anchor(len(seen12) >= 10, 'comparison path of the two Ord impls (at least ten erltf functions)'):
        ctx.ok('C12.2-nothing-narrowed', 'scope', 'every integer cast in the %d erltf functions on the comparison path was examined' % len(seen12))

    # element-wise comparison of two sequences stops at the shorter one: the lengths have to be compared as well
    ctx.rule('C12.5-zip-needs-length', 'every helper on the comparison path that walks two slices in step (zip) also compares their lengths (before the walk or as the tie-break after it): '
             'without it a sequence and its proper prefix compare Equal - two funs whose environments are [1] and [1,2] become the same map key', floor=0)
    from ..families import bodies_of_fn as _bf12, comparator_calls as _cmpc
    seen_z = set()
    for root in (CMP_O, CMP_B):
        if root not in ctx.F.bodies:
            continue
        for q in sorted(P.reachable_from([root])):
            base = q.split('::{')[0]
            if ctx.F.bodies[q]['crate'] != 'erltf' or base in seen_z or base in (CMP_O, CMP_B) or ctx.F.bodies[q]['kind'] == 'Closure':
                continue
            bodies = _bf12(P, base)
            zips = [(XB, bb) for XB in bodies for bb, t in XB.calls() if (callee_of(t)[0] or '').endswith('Iterator::zip') or (callee_of(t)[0] or '').endswith('::zip')]
            if not zips:
                continue
            b0 = ctx.F.bodies.get(base)
            if not b0 or sum(1 for i_ in range(1, b0.get('argc', 0) + 1) if b0['locals'][i_]['ty'].startswith('&[') or 'Vec<' in b0['locals'][i_]['ty']) < 2:
                continue
            seen_z.add(base)
            has_len = False
            for XB in bodies:
                for bb, nm, (ca, cb) in _cmpc(XB):
                    if isinstance(ca, tuple) and isinstance(cb, tuple) and ca and cb and ca[0] == 'len' and cb[0] == 'len' and ca != cb:
                        has_len = True
            if has_len:
                ctx.ok('C12.5-zip-needs-length', base.rsplit('::', 1)[-1], 'walks both slices in step and compares their lengths', ctx.where(zips[0][0], zips[0][1]))
            else:
                ctx.bad('C12.5-zip-needs-length', base.rsplit('::', 1)[-1], '%s compares two sequences element by element over their common prefix and never compares their lengths: a sequence and a proper prefix of it are Equal'
                        % base.rsplit('::', 1)[-1], ctx.where(zips[0][0], zips[0][1]), key='SHAPE:%s:zip-without-length' % base)


    # a sequence is compared element by element until a pair differs UNDER THE ORDER: the comparison of elements sits in the walk
    ctx.rule('C12.5-elements-in-the-walk', 'every term-against-term comparison on the comparison path whose operands are elements of two sequences (items of a zip / find / position over them) sits inside the loop that walks '
             'the sequences: comparing the one pair picked by some other test (the first pair that is not structurally identical) and returning its verdict stops at a pair the order calls Equal - {1, a} and {1.0, b}', floor=1)
    n_el = 0
    seen_el = set()
    for root in (CMP_O, CMP_B):
        if root not in ctx.F.bodies:
            continue
        for q in sorted(P.reachable_from([root])):
            if ctx.F.bodies[q]['crate'] != 'erltf' or q in seen_el:
                continue
            seen_el.add(q)
            XB = P.B(q)
            live = XB.live_blocks()
            loops = set()
            for c in _sccs(XB, live):
                if len(c) > 1 or (c and c[0] in XB.succ(c[0])):
                    loops |= set(c)
            # items of iterator searches / walks over term sequences
            items = []
            for bb, t in XB.calls():
                nm = (callee_of(t)[0] or '').rsplit('::', 1)[-1]
                if bb in live and nm in ('next', 'find', 'find_map', 'nth', 'last', 'position', 'get', 'first', 'min_by', 'max_by') and not t['dst'].get('p') and ('OwnedTerm' in XB.local_ty(t['dst']['l']) or 'BorrowedTerm' in XB.local_ty(t['dst']['l'])) \
                        and XB.local_ty(t['dst']['l']).startswith('core::option::Option<'):
                    items.append(t['dst']['l'])
            if not items:
                continue
            d = XB.derived_locals(items) | set(items)
            for bb, t in XB.calls():
                if bb not in live or (callee_of(t)[0] or '') not in ('core::cmp::Ord::cmp', 'core::cmp::PartialOrd::partial_cmp') or len(t['args']) < 2:
                    continue
                aty = t.get('aty') or ['', '']
                if not all(a_.replace("<'a>", '').replace("<'_>", '') in ('&erltf::term::OwnedTerm', '&erltf::borrowed::BorrowedTerm', '&&erltf::term::OwnedTerm', '&&erltf::borrowed::BorrowedTerm') for a_ in aty[:2]):
                    continue
                if not all(any(l in d for l in XB._op_locals(a)) for a in t['args'][:2]):
                    continue
                n_el += 1
                inst = '%s:cmp@%s' % (q.split('::{')[0].rsplit('::', 1)[-1] if '>::' not in q else ('owned' if 'OwnedTerm' in q else 'borrowed'), describe(XB, canon(XB, t['args'][0]))[:40])
                if bb in loops:
                    ctx.ok('C12.5-elements-in-the-walk', inst, 'inside the loop over the sequences', ctx.where(XB, bb))
                else:
                    ctx.bad('C12.5-elements-in-the-walk', inst, 'two elements picked out of the sequences are compared once, outside any loop, and that verdict is the answer: when the order calls this pair Equal (1 and 1.0, an integer and '
                            'the same value as a big integer) the elements after it are never looked at', ctx.where(XB, bb), key='SHAPE:%s:single-pair-decides' % q.split('::{')[0])
    if n_el == 0:
        ctx.ok('C12.5-elements-in-the-walk', 'none', 'no comparison of picked-out sequence elements on the comparison path (the walks are delegated to slice / iterator comparison, which compare every pair)')


def _digit_walk(P, fn, bodies=None):
    """How does helper `fn` (and its closures) walk two digit slices?  ('ok'|'bad'|'undecided', why)"""
    from ..ranges import canon as _canon
    bodies = bodies if bodies is not None else bodies_of_fn(P, fn)
    names = [(callee_of(t)[0] or '').rsplit('::', 1)[-1] for B in bodies for _, t in B.calls()]
    reversed_walk = any(n in ('rev', 'rposition', 'next_back', 'rfold') for n in names)
    # index ranges the helper iterates over: Range { start, end } aggregates
    starts = []
    for B in bodies:
        for bb, j, st in B.stmts():
            if st['k'] == '=' and st['rv']['k'] == 'agg' and str(st['rv'].get('adt', '')).endswith('ops::range::Range') and len(st['rv']['ops']) == 2:
                starts.append(_canon(B, st['rv']['ops'][0]))
    cmps = [1 for B in bodies for _, t in B.calls() if (callee_of(t)[0] or '').rsplit('::', 1)[-1] in ('cmp', 'partial_cmp')]
    if not cmps:
        return 'undecided', 'no comparison inside'
    skipped = [s_ for s_ in starts if s_[0] == 'const' and isinstance(s_[1], int) and s_[1] >= 1]
    if skipped:
        return 'bad', 'the digit positions walked start at %s, so the %d least significant digit(s) are never compared: numbers differing only there compare Equal' % (skipped[0][1], skipped[0][1])
    if not reversed_walk:
        return 'bad', 'the digits are compared in stored order, i.e. from the LEAST significant byte'
    return 'ok', 'reversed iteration' + (', positions from %s' % [s_[1] for s_ in starts if s_[0] == 'const'] if starts else '')


def _sign_arms(B):
    """(sign of a, sign of b) -> first block of the arm of `match (a.sign, b.sign)`; signs: 0 Positive, 1 Negative"""
    tup = None
    for bb, j, st in B.stmts():
        if st['k'] == '=' and st['rv']['k'] == 'agg' and st['rv']['ak'] == 'tuple' and len(st['rv']['ops']) == 2 \
                and all("'sign'" in str(canon(B, o)) for o in st['rv']['ops']):
            tup = st['pl']['l']
    out = {}
    if tup is None:
        return out
    for sa in (0, 1):
        for sb in (0, 1):
            bb, steps = 0, 0
            while steps < 50:
                steps += 1
                t = B.blocks[bb]['t']
                if t['k'] in ('goto', 'falseedge', 'falseunwind') and not any(st['k'] == '=' for st in B.blocks[bb]['s']):
                    bb = t['t']
                    continue
                sd = B.switch_on_discr(bb)
                if sd and sd[0]['l'] == tup and sd[0].get('p'):
                    f = sd[0]['p'][0].get('f') if isinstance(sd[0]['p'][0], dict) else None
                    v = sa if f == 0 else sb
                    tgt = [b_ for c_, b_ in sd[2] if c_ == v]
                    bb = tgt[0] if tgt else sd[3]
                    continue
                break
            out[(sa, sb)] = bb
    return out


def _closures_in(B, start):
    out = []
    for bb in sorted(B.reachable(start)):
        for st in B.blocks[bb]['s']:
            if st['k'] == '=' and st['rv']['k'] == 'agg' and st['rv']['ak'] == 'closure':
                out.append(st['rv']['def'])
    return out


def _call_order(B, start):
    """callee names in BFS order from an arm's first block"""
    from collections import deque
    seen = {start}
    dq = deque([start])
    out = []
    while dq:
        x = dq.popleft()
        t = B.blocks[x]['t']
        if t['k'] == 'call':
            g, r = callee_of(t)
            out.append(r or g or '?')
        for s in B.succ(x):
            if s not in seen:
                seen.add(s)
                dq.append(s)
    return out


_run_before_scope_rule = run


def run(ctx):
    _run_before_scope_rule(ctx)
    # the comparison of two terms depends on the two terms only: state a comparison keeps on the thread is put back on every way out
    from .c15 import scoped_thread_local_restored
    scoped_thread_local_restored(ctx, 'C12.7-scoped-state-restored')
