"""C12 — term comparison agrees with Erlang's standard term order.

TABLE: variant -> rank vs the reference manual; shape rules for the per-type recipes
(big-integer digit order, map keys-then-values, tuple size-first, list elements-first);
numeric exactness shared with C11 clause 4.
"""
import json, os
from ..core import callee_of, callee_names, is_call_to, unwrap, receiver_root
from ..families import bodies_of_fn
from ..wire import _sccs
from .c11 import comparator_tables, CMP_O, CMP_B, arm_summary

SPEC = os.path.join(os.path.dirname(os.path.dirname(os.path.dirname(os.path.abspath(__file__)))), 'spec', 'term_order.json')


def run(ctx):
    P = ctx.P
    spec = json.load(open(SPEC))
    order = spec['rank_order']
    tabs = {}
    for which in ('owned', 'borrowed'):
        t = comparator_tables(ctx, which)
        if t is None:
            return
        tabs[which] = t
    # ---------------- clause 1: rank table ---------------------------------------------------------
    ctx.rule('C12.1-rank-table', 'the variant -> type rank map is order-isomorphic to number < atom < reference < fun < port < pid < tuple < map < nil/list < bit-string, in both comparators', floor=34)
    for which, T in tabs.items():
        ranks = T['ranks']
        kinds = spec['variant_kind']
        for a in T['variants']:
            ka = kinds.get(a)
            inst = '%s:%s' % (which, a)
            if ka is None:
                ctx.undecided('C12.1-rank-table', inst, 'variant not in the reference table')
                continue
            bad = []
            for b in T['variants']:
                kb = kinds.get(b)
                if kb is None or ranks[a] is None or ranks[b] is None:
                    continue
                want = (order.index(ka) > order.index(kb)) - (order.index(ka) < order.index(kb))
                got = (ranks[a] > ranks[b]) - (ranks[a] < ranks[b])
                if want != got:
                    bad.append(b)
            if bad:
                ctx.bad('C12.1-rank-table', inst, '%s (%s, rank %s) is ordered wrongly against %s' % (a, ka, ranks[a], bad), ctx.where(T['B']),
                        key='TABLE:%s:rank:%s' % (CMP_O if which == 'owned' else CMP_B, a))
            else:
                ctx.ok('C12.1-rank-table', inst, '%s -> rank %s' % (ka, ranks[a]))

    # ---------------- clause 3: big-integer digit order ---------------------------------------------------
    ctx.rule('C12.3-bigint-digits', 'big-integer magnitudes (little-endian digit vectors, copied verbatim from the wire) are compared from the most significant digit: a direct Ord::cmp of the two digit vectors is lexicographic from the least significant byte', floor=2)
    for mod in ('term', 'borrowed'):
        fn = 'erltf::%s::compare_bigint' % mod
        bodies = bodies_of_fn(P, fn)
        if not ctx.anchor(bool(bodies), fn):
            continue
        direct = []
        reversed_ = False
        for FB in bodies:
            for bb, t in FB.calls():
                g, r = callee_of(t)
                names = [n for n in (g, r) if n]
                if g == 'core::cmp::Ord::cmp' and t['args']:
                    b0, p0 = receiver_root(FB, t['args'][0])
                    b1, p1 = receiver_root(FB, t['args'][1]) if len(t['args']) > 1 else (None, ())
                    ty = (t.get('aty') or [''])[0]
                    if 'digits' in [x for x in p0 if isinstance(x, str)] and 'Vec<u8>' in ty and 'len' not in str(p0):
                        direct.append((FB, bb))
                if any(n.endswith('::rev') or n.endswith('Iterator::rev') or 'cmp_by' in n or n.endswith('::rposition') for n in names):
                    reversed_ = True
        inst = mod + '::compare_bigint'
        if direct:
            FB, bb = direct[0]
            ctx.bad('C12.3-bigint-digits', inst, 'equal-length magnitudes are compared with Vec<u8>::cmp on the little-endian digit vectors, i.e. from the LEAST significant byte: 256 (digits [0,1]) compares less than 255+... e.g. [0,1] < [1,0] although 256 > 1',
                    ctx.where(FB, bb), key='SHAPE:%s:lsb-first' % fn)
        elif reversed_:
            ctx.ok('C12.3-bigint-digits', inst, 'magnitudes compared from the most significant digit')
        else:
            ctx.undecided('C12.3-bigint-digits', inst, 'comparison shape not recognised')

    # ---------------- clause 4/5: container recipes ------------------------------------------------------------
    ctx.rule('C12.4-map-recipe', 'maps compare by size, then all keys, then all values: a single loop that compares the key and the value of each entry interleaves them', floor=2)
    ctx.rule('C12.5-recipes', 'tuples compare size first, lists compare elements first and length last, atoms by name', floor=6)
    for which, T in tabs.items():
        B = T['B']
        cmpname = CMP_O if which == 'owned' else CMP_B
        # Map arm: find the closure(s) created in the (Map,Map) arm
        r = T['table'][('Map', 'Map')]
        inst = which + ':Map'
        if r['kind'] != 'compares':
            ctx.undecided('C12.4-map-recipe', inst, 'Map arm not recognised')
        else:
            closures = _closures_in(B, r['bb'])
            inter = None
            for cdef in closures:
                CB = P.B(cdef)
                if CB is None:
                    continue
                loops = [set(c) for c in _sccs(CB, CB.live_blocks()) if len(c) > 1]
                for l in loops:
                    cmps = [bb for bb in l if CB.blocks[bb]['t']['k'] == 'call' and (callee_of(CB.blocks[bb]['t'])[0] == 'core::cmp::Ord::cmp')
                            and 'Term' in str(CB.blocks[bb]['t'].get('aty'))]
                    if len(cmps) >= 2:
                        inter = (CB, cmps)
            if inter:
                ctx.bad('C12.4-map-recipe', inst, 'the Map arm compares key and value of each entry inside ONE loop (k1 vs k2, then v1 vs v2, per entry): Erlang compares all keys first and the values only if all keys are equal, so e.g. #{a=>2,b=>1} vs #{a=>1,c=>0} is decided by the value of a instead of by the keys b < c',
                        ctx.where(inter[0], inter[1][0]), key='SHAPE:%s:Map:interleaved' % cmpname)
            elif closures:
                ctx.ok('C12.4-map-recipe', inst, 'keys and values are not compared inside the same loop')
            else:
                ctx.undecided('C12.4-map-recipe', inst, 'no comparison closure found in the Map arm')
        # Tuple: first call on the arm is len().cmp (size first)
        for var, first in (('Tuple', 'len'), ('List', 'elements'), ('Atom', 'name')):
            r = T['table'][(var, var)]
            inst = '%s:%s' % (which, var)
            if r['kind'] != 'compares':
                ctx.undecided('C12.5-recipes', inst, 'arm not recognised')
                continue
            seq = _call_order(B, r['bb'])
            names = [x.rsplit('::', 1)[-1] for x in seq]
            if var == 'Tuple':
                # size comparison precedes any element comparison
                good = 'len' in names[:2] and ('then_with' in names or 'cmp' in names)
                elem_first = names and names[0] in ('iter', 'zip', 'into_iter')
                if good and not elem_first:
                    ctx.ok('C12.5-recipes', inst, 'length is compared before the elements (%s)' % names[:4])
                else:
                    ctx.bad('C12.5-recipes', inst, 'tuple arm does not compare sizes first: %s' % names[:5], ctx.where(B, r['bb']), key='SHAPE:%s:Tuple:size-first' % cmpname)
            elif var == 'List':
                good = names and names[0] in ('iter', 'zip', 'into_iter', 'deref') and 'len' in names
                li = names.index('len') if 'len' in names else -1
                zi = min([names.index(x) for x in ('zip', 'next') if x in names] or [99])
                if good and li > zi:
                    ctx.ok('C12.5-recipes', inst, 'elements are compared first, lengths last (%s)' % names[:6])
                else:
                    ctx.bad('C12.5-recipes', inst, 'list arm does not compare element-wise before length: %s' % names[:6], ctx.where(B, r['bb']), key='SHAPE:%s:List:elements-first' % cmpname)
            else:
                t = B.blocks[r['bb']]['t']
                pr = [x for x in receiver_root(B, t['args'][0])[1] if isinstance(x, str)] if t['k'] == 'call' and t['args'] else []
                aty = str(t.get('aty'))
                if 'name' in pr or 'str' in aty or 'Arc<' in aty or 'Cow<' in aty:
                    ctx.ok('C12.5-recipes', inst, 'atoms are compared by their text')
                else:
                    ctx.bad('C12.5-recipes', inst, 'atom arm does not compare the names: %s' % pr, ctx.where(B, r['bb']), key='SHAPE:%s:Atom:by-name' % cmpname)


def _closures_in(B, start):
    out = []
    for bb in sorted(B.reachable(start)):
        for st in B.blocks[bb]['s']:
            if st['k'] == '=' and st['rv']['k'] == 'agg' and st['rv']['ak'] == 'closure':
                out.append(st['rv']['def'])
    return out


def _call_order(B, start):
    """callee names in BFS order from an arm's first block"""
    from collections import deque
    seen = {start}
    dq = deque([start])
    out = []
    while dq:
        x = dq.popleft()
        t = B.blocks[x]['t']
        if t['k'] == 'call':
            g, r = callee_of(t)
            out.append(r or g or '?')
        for s in B.succ(x):
            if s not in seen:
                seen.add(s)
                dq.append(s)
    return out
