"""C13 — the zero-copy decoder agrees with the owned decoder.

TABLE: tags of the borrowed dispatcher vs the owned one and vs the modern distribution
tag set; TWIN per common tag (wire signature, guard constants, result variant);
TABLE on BorrowedTerm::to_owned / From<&OwnedTerm>; shape of every byte_offset write.
"""
from ..core import callee_of, callee_names, is_call_to, unwrap, exclusive_blocks, fold
from ..ranges import canon
from ..families import describe, bodies_of_fn
from ..wire import fmt_sig, error_blocks
from ..etf import load_spec, dispatch_table, DEC, OWNED, BORROWED


def guard_constants(P, fn):
    """multiset of (comparison operator, constant) used in branch conditions of a parser: the
    size caps and validity tests.  Operand names are ignored (the twins name things identically anyway)."""
    out = []
    for B in bodies_of_fn(P, fn):
        for bb in sorted(B.live_blocks()):
            t = B.blocks[bb]['t']
            if t['k'] == 'switch' and t['dty'] != 'bool':
                # `matches!(x, Term::Nil)` / `if let Term::Nil = x`: the same question as `x == Term::Nil`
                sd = B.switch_on_discr(bb)
                ty_ = sd[1].replace('&', '').split('<')[0] if sd else None
                if sd and ty_ in (OWNED, BORROWED) and len(sd[2]) == 1:
                    names_ = {int(v['discr']): v['n'] for v in P.F.adts[ty_]['variants']}
                    vn = names_.get(sd[2][0][0])
                    if vn and not P.F.adts[ty_]['variants'][[int(v['discr']) for v in P.F.adts[ty_]['variants']].index(sd[2][0][0])]['fields']:
                        out.append(('call', 'eq', vn, False))
                continue
            if t['k'] != 'switch' or t['dty'] != 'bool':
                continue
            src, neg = B.bool_source(t['d'])
            if src[0] == 'bin' and src[2]['op'] in ('Lt', 'Le', 'Gt', 'Ge', 'Eq', 'Ne'):
                a, b = fold(B.origin(src[2]['a'])), fold(B.origin(src[2]['b']))
                ty = src[2].get('ty')
                if b is not None and a is None:
                    out.append((src[2]['op'], b, ty, neg))
                elif a is not None and b is None:
                    out.append((src[2]['op'] + "'", a, ty, neg))
                elif a is None and b is None and ty in ('usize', 'u64', 'u32', 'u16', 'u8', 'i64', 'i32'):
                    # two computed quantities against each other (a count against the bytes that are left): the twins must ask it too
                    op_ = {'Gt': 'Lt', 'Ge': 'Le'}.get(src[2]['op'], src[2]['op'])
                    out.append((op_ + '~', 'value-vs-value', ty, neg if op_ == src[2]['op'] else neg))
            elif src[0] == 'call' and any(n.endswith('RangeInclusive::<Idx>::contains') for n in callee_names(src[2])):
                ro = B.origin(src[2]['args'][0])
                if ro[0] == 'call':
                    nt = B.blocks[ro[2]]['t']
                    out.append(('in', (fold(B.origin(nt['args'][0])), fold(B.origin(nt['args'][1]))), None, neg))
            elif src[0] == 'call':
                # a predicate call decides the branch (x == Nil, x.is_empty(), x.is_ascii() ...): the twins must ask the same question
                nm = (callee_of(src[2])[0] or '?')
                if nm.startswith('tracing') or 'tracing_core' in nm or 'log::' in nm:
                    continue
                short = nm.rsplit('::', 1)[-1]
                if short == 'is_ascii':
                    continue      # borrow-or-copy decision of the zero-copy Latin-1 parsers; its correctness is rule C13.2-twin-atom-text
                # what it is compared with, when a constant variant of the term type (x == Term::Nil)
                other = ''
                if short in ('eq', 'ne') and len(src[2]['args']) > 1:
                    o = B.origin(src[2]['args'][1])
                    if o[0] == 'agg':
                        other = str(o[1].get('var'))
                out.append(('call', short, other, neg))
    return sorted(out, key=str)


TEXT_OPS = ('from_utf8', 'from_utf8_lossy', 'from_utf8_unchecked', 'from_utf8_mut', 'to_string_lossy', 'from_utf16', 'from_utf16_lossy')
FIRST_WINS = ('entry', 'or_insert', 'or_insert_with', 'or_default', 'try_insert', 'contains_key')
LAST_WINS = ('insert', 'extend', 'from_iter', 'collect', 'append')


def twin_policies(P, fn):
    """(text conversions used, duplicate-key policy of the maps it builds) for one parser"""
    text, pol = set(), set()
    for B in bodies_of_fn(P, fn):
        for bb, c in B.calls():
            n = callee_of(c)[0] or ''
            last = n.rsplit('::', 1)[-1]
            if last in TEXT_OPS:
                text.add(last)
            if 'BTreeMap' in n or 'btree_map' in n or 'btree::map' in n or 'HashMap' in n or 'hash_map' in n or 'hash::map' in n:
                if last in FIRST_WINS:
                    pol.add('first-wins')
                elif last in LAST_WINS:
                    pol.add('last-wins')
    if 'first-wins' in pol:
        pol = {'first-wins'}
    return text, pol


def _norm_value(c):
    """canonical value with block numbers and the `_borrowed` suffix of sub-parsers removed, so that twins can be compared"""
    if isinstance(c, tuple):
        if c and c[0] == 'call' and len(c) >= 3:
            return ('call', str(c[1]).replace('_borrowed', ''))
        return tuple(_norm_value(x) for x in c)
    if isinstance(c, list):
        return [_norm_value(x) for x in c]
    return c


def _eval_value(c, x):
    """value of a canonical expression over one free variable (every non-constant leaf) at x; raises on anything else"""
    if isinstance(c, tuple) and c:
        k = c[0]
        if k == 'const':
            if isinstance(c[1], bool) or not isinstance(c[1], int):
                raise ValueError
            return c[1]
        if k in ('place', 'call', 'local', 'arg', 'payload'):
            return x
        if k == 'cast':
            inner = [y for y in c[1:] if isinstance(y, tuple)]
            return _eval_value(inner[-1], x)
        if k == 'un':
            v = _eval_value(c[2], x)
            return {'Not': (not v) if isinstance(v, bool) else ~v, 'Neg': -v}[c[1]]
        if k == 'bin':
            a, b = _eval_value(c[2], x), _eval_value(c[3], x)
            import operator as O
            f = {'Eq': O.eq, 'Ne': O.ne, 'Lt': O.lt, 'Le': O.le, 'Gt': O.gt, 'Ge': O.ge, 'Add': O.add, 'Sub': O.sub, 'Mul': O.mul,
                 'BitAnd': O.and_, 'BitOr': O.or_, 'BitXor': O.xor, 'Shl': O.lshift, 'Shr': O.rshift}[c[1]]
            return f(a, b)
    raise ValueError


def _leaves(c, out):
    if isinstance(c, tuple) and c:
        if c[0] in ('place', 'call', 'local', 'arg', 'payload'):
            out.add(str(c))
            return
        if c[0] == 'const':
            out.add(('const', c[1]))
            return
        for y in c[1:]:
            _leaves(y, out)


def same_function(ca, cb):
    """True / False when two canonical expressions over the same single variable can be compared at every breakpoint
    (each constant and its neighbours, the ends of the unsigned ranges), None when they cannot be evaluated"""
    la, lb = set(), set()
    _leaves(ca, la)
    _leaves(cb, lb)
    va = {x for x in la if not isinstance(x, tuple)}
    vb = {x for x in lb if not isinstance(x, tuple)}
    if len(va) != 1 or va != vb:
        return None
    pts = {0, 1, 2, 127, 128, 255, 256, 65535, 65536, 2 ** 31 - 1, 2 ** 31, 2 ** 32 - 1}
    for x in la | lb:
        if isinstance(x, tuple) and isinstance(x[1], int) and not isinstance(x[1], bool):
            pts |= {x[1] - 1, x[1], x[1] + 1}
    try:
        return all(_eval_value(ca, x) == _eval_value(cb, x) for x in sorted(pts) if x >= 0)
    except (ValueError, KeyError, TypeError, IndexError):
        return None


def computed_values(P, fn):
    """the values a parser computes (comparison / arithmetic on what it read) and stores in the term it builds:
    arguments of erltf::types constructors and operands of term-variant aggregates whose canonical form contains an operator"""
    from ..ranges import canon
    out = []
    for B in bodies_of_fn(P, fn):
        ops = []
        for bb, t in B.calls():
            g = callee_of(t)[0] or ''
            if g.startswith('erltf::types::') and g.endswith('::new'):
                ops += [(g.rsplit('::', 2)[-2] + '::new', i, a) for i, a in enumerate(t['args'])]
        for bb, j, st in B.stmts():
            if st['k'] == '=' and st['rv']['k'] == 'agg' and st['rv'].get('adt') in (OWNED, BORROWED):
                ops += [(str(st['rv'].get('var')), i, a) for i, a in enumerate(st['rv']['ops'])]
        for where_, i, a in ops:
            c = _norm_value(canon(B, a))
            txt = str(c)
            if "('bin'," in txt or "('un'," in txt:
                out.append((where_, i, txt, c))
    return sorted(out, key=lambda r: r[:3])


def run(ctx):
    P = ctx.P
    spec = load_spec()
    by_tag = {r['tag']: r for r in spec['tags']}
    owned, Bo = dispatch_table(ctx, DEC + 'parse_term_from_tag', OWNED)
    borrowed, Bb = dispatch_table(ctx, DEC + 'parse_term_borrowed', BORROWED)
    if owned is None or borrowed is None:
        return
    # ---------------- clause 1: tag sets -------------------------------------------------------
    ctx.rule('C13.1-subset-of-owned', 'every tag the zero-copy decoder dispatches is dispatched by the owned decoder too', floor=22)
    ctx.rule('C13.1-modern-tags', 'every tag current OTP releases emit over distribution (outside distribution headers) is dispatched by the zero-copy decoder', floor=20)
    for t, ent in sorted(borrowed.items()):
        if t in owned and not owned[t]['error_arm']:
            ctx.ok('C13.1-subset-of-owned', str(t), by_tag.get(t, {}).get('name', '?'))
        else:
            ctx.bad('C13.1-subset-of-owned', str(t), 'tag %d accepted by the zero-copy decoder but not by the owned one' % t, ctx.where(Bb, ent['bb']),
                    key='TABLE:parse_term_borrowed:not-in-owned:%d' % t)
    for r in spec['tags']:
        if not (r['otp26_emits'] and r['dist']) or r['tag'] == 82:
            continue
        t = r['tag']
        if t in borrowed and not borrowed[t]['error_arm']:
            ctx.ok('C13.1-modern-tags', '%d %s' % (t, r['name']), '-> %s' % (borrowed[t]['parser'] or 'inline'))
        else:
            ctx.bad('C13.1-modern-tags', '%d %s' % (t, r['name']), 'tag %d (%s) is emitted by current OTP releases but rejected by the zero-copy decoder while the owned decoder %s it' % (
                t, r['name'], 'accepts' if t in owned else 'also rejects'), ctx.where(Bb), key='TABLE:parse_term_borrowed:missing:%d' % t)

    # ---------------- clause 2: twins --------------------------------------------------------------
    ctx.rule('C13.2-twin-layout', 'for every common tag both parsers read the same layout', floor=22)
    ctx.rule('C13.2-twin-guards', 'for every common tag both parsers apply the same size caps and validity tests (same comparison operators and constants)', floor=22)
    ctx.rule('C13.2-twin-policies', 'for every common tag both parsers convert bytes to text with the same strictness (from_utf8 vs from_utf8_lossy ...) and build maps with the same answer to repeated keys (last pair wins / first pair wins)', floor=15)
    ctx.rule('C13.2-twin-values', 'for every common tag: wherever the parsers store a value they compute from the bytes (a sign from a sign byte, a number from digits) both compute it with the same expression', floor=15)
    ctx.rule('C13.2-twin-variant', 'for every common tag the zero-copy parser builds the variant that to_owned maps to the owned parser\'s variant', floor=20)
    for t in sorted(set(owned) & set(borrowed)):
        o, b = owned[t], borrowed[t]
        name = by_tag.get(t, {}).get('name', str(t))
        inst = '%d %s' % (t, name)
        where = ctx.where(P.B(b['parser'])) if b['parser'] else ctx.where(Bb, b['bb'])
        so = sorted(fmt_sig(s) for s in o['sigs'])
        sb = sorted(fmt_sig(s) for s in b['sigs'])
        if so == sb:
            ctx.ok('C13.2-twin-layout', inst, sb[0] if sb else '', where)
        else:
            ctx.bad('C13.2-twin-layout', inst, 'owned reads `%s`, zero-copy reads `%s`' % (' | '.join(so), ' | '.join(sb)), where,
                    key='TWIN:%s:layout' % (b['parser'] or 'arm:%d' % t))
        if o['parser'] and b['parser']:
            go, gb = guard_constants(P, o['parser']), guard_constants(P, b['parser'])
            if go == gb:
                ctx.ok('C13.2-twin-guards', inst, '%d guard(s): %s' % (len(gb), [(g[0], g[1]) for g in gb][:4]), where)
            else:
                only_o = [g for g in go if g not in gb]
                only_b = [g for g in gb if g not in go]
                ctx.bad('C13.2-twin-guards', inst, 'guards differ: only in owned %s, only in zero-copy %s' % ([(g[0], g[1]) for g in only_o], [(g[0], g[1]) for g in only_b]), where,
                        key='TWIN:%s:guards' % b['parser'])
        else:
            ctx.ok('C13.2-twin-guards', inst, 'inline arm without guards')
        if o['parser'] and b['parser']:
            co, cb = computed_values(P, o['parser']), computed_values(P, b['parser'])
            verdict = None
            if [r[:3] for r in co] != [r[:3] for r in cb]:
                # spelled differently: the same function of the byte read?  (x != 0 and x > 0 are, x != 0 and x == 1 are not)
                verdict = False
                if [r[:2] for r in co] == [r[:2] for r in cb]:
                    res = [same_function(x[3], y[3]) for x, y in zip(co, cb) if x[2] != y[2]]
                    verdict = True if all(r is True for r in res) else (False if any(r is False for r in res) else None)
            co, cb = [r[:3] for r in co], [r[:3] for r in cb]
            if co == cb or verdict is True:
                ctx.ok('C13.2-twin-values', inst, '%d computed value(s) stored, %s' % (len(cb), 'identical expressions' if co == cb else 'expressions equal at every breakpoint of their constants'), where)
            elif verdict is None:
                ctx.undecided('C13.2-twin-values', inst, 'the parsers spell a stored value differently and the expressions could not be compared: owned %s, zero-copy %s' % ([x for x in co if x not in cb], [x for x in cb if x not in co]), where)
            else:
                ctx.bad('C13.2-twin-values', inst, 'the two parsers compute a stored value differently: owned %s, zero-copy %s' % ([x for x in co if x not in cb], [x for x in cb if x not in co]), where,
                        key='TWIN:%s:values' % b['parser'])
        if o['parser'] and b['parser']:
            (to_, po), (tb_, pb) = twin_policies(P, o['parser']), twin_policies(P, b['parser'])
            # the zero-copy Latin-1 parsers may re-read pure ASCII as UTF-8 (rule C13.2-twin-atom-text): that one extra from_utf8 is theirs
            tb_cmp = tb_ - {'from_utf8'} if t in (100, 115) else tb_
            if to_ != tb_cmp:
                ctx.bad('C13.2-twin-policies', inst + ':text', 'the two parsers turn the bytes into text differently (owned %s, zero-copy %s): input one of them refuses (ill-formed UTF-8) the other accepts with replacement characters, or the other way round'
                        % (sorted(to_) or 'none', sorted(tb_) or 'none'), where, key='TWIN:%s:text-conversion' % b['parser'])
            elif po != pb:
                ctx.bad('C13.2-twin-policies', inst + ':duplicate-keys', 'the two parsers resolve repeated map keys differently (owned %s, zero-copy %s): for a map with two keys that compare equal they keep different values'
                        % (sorted(po), sorted(pb)), where, key='TWIN:%s:duplicate-key-policy' % b['parser'])
            else:
                ctx.ok('C13.2-twin-policies', inst, 'text conversion %s, duplicate keys %s' % (sorted(to_) or '-', sorted(po) or '-'), where)
        vo, vb = set(o['variants']), set(b['variants'])
        if vo == vb and vb:
            ctx.ok('C13.2-twin-variant', inst, 'both build %s' % sorted(vb), where)
        elif not vb or not vo:
            ctx.undecided('C13.2-twin-variant', inst, 'construction not recognised (owned %s, zero-copy %s)' % (sorted(vo), sorted(vb)), where)
        else:
            ctx.bad('C13.2-twin-variant', inst, 'owned builds %s, zero-copy builds %s' % (sorted(vo), sorted(vb)), where, key='TWIN:%s:variant' % (b['parser'] or str(t)))

    # text of the legacy atom tags: both decoders must turn the same bytes into the same characters
    ctx.rule('C13.2-twin-atom-text', 'for the Latin-1 atom tags both decoders yield one character per byte: the zero-copy parser may reuse the raw bytes as UTF-8 (from_utf8) only under an is_ascii() test, '
             'exactly where the two readings coincide', floor=2)
    from .c03 import _ascii_guarded
    for t in spec.get('latin1_tags', []):
        for nm, tbl in (('owned', owned), ('borrowed', borrowed)):
            ent = tbl.get(t)
            if ent is None or ent.get('error_arm'):
                continue
            # the parser of the tag, or - when it was folded into the dispatcher - the dispatcher's arm
            PB = P.B(ent['parser']) if ent.get('parser') else ent.get('host')
            region = None if ent.get('parser') else ent.get('blocks')
            if PB is None:
                continue
            pname = ent['parser'] or ('%s:arm:%d' % (PB.path, t))
            inst = '%d:%s' % (t, nm)
            utf8_calls = [bb for bb, tt in PB.calls() if (region is None or bb in region) and any(n.endswith('::from_utf8') or n.endswith('from_utf8_lossy') or n.endswith('from_utf8_unchecked') for n in callee_names(tt))]
            unguarded = [bb for bb in utf8_calls if not _ascii_guarded(PB, bb)]
            if unguarded:
                ctx.bad('C13.2-twin-atom-text', inst, '%s reads the bytes of a Latin-1 atom as UTF-8 without an is_ascii() test: for bytes such as C3 A9 it yields one character where the other decoder yields two'
                        % pname.rsplit('::', 1)[1], ctx.where(PB, unguarded[0]), key='TWIN:%s:latin1-as-utf8' % pname)
            else:
                ctx.ok('C13.2-twin-atom-text', inst, 'no UTF-8 reading of the raw bytes outside an is_ascii() branch', ctx.where(PB))

    # ---------------- clause 3: to_owned / From<&OwnedTerm> ----------------------------------------------
    ctx.rule('C13.3-conversion-table', 'BorrowedTerm::to_owned (and From<&OwnedTerm>) map variant X to variant X', floor=17)
    for fn, src_adt, dst_adt in (("erltf::borrowed::BorrowedTerm::<'a>::to_owned", BORROWED, OWNED),
                                 ("<erltf::borrowed::BorrowedTerm<'a> as core::convert::From<&'a erltf::term::OwnedTerm>>::from", OWNED, BORROWED)):
        B = ctx.body(fn)
        if B is None:
            continue
        sw = None
        for i in sorted(B.live_blocks()):
            sd = B.switch_on_discr(i)
            if sd and src_adt in sd[1]:
                sw = (i, sd)
                break
        if not ctx.anchor(sw is not None, fn + ':match self'):
            continue
        i, (pl, ty, cases, els) = sw
        starts = sorted({b_ for _, b_ in cases})
        excl = exclusive_blocks(B, starts)
        vs = [v['n'] for v in ctx.F.adts[src_adt]['variants']]
        for v, b_ in cases:
            built = set()
            for bb in excl[b_]:
                for st in B.blocks[bb]['s']:
                    if st['k'] == '=' and st['rv']['k'] == 'agg' and st['rv'].get('adt') == dst_adt:
                        built.add(st['rv']['var'])
            inst = '%s:%s' % (fn.rsplit('::', 1)[1], vs[v])
            if built == {vs[v]}:
                ctx.ok('C13.3-conversion-table', inst, '%s -> %s' % (vs[v], vs[v]), ctx.where(B, b_))
            else:
                ctx.bad('C13.3-conversion-table', inst, '%s is converted to %s' % (vs[v], sorted(built) or 'nothing recognisable'), ctx.where(B, b_),
                        key='TABLE:%s:%s' % (fn.rsplit('::', 1)[1], vs[v]))

    # ---------------- clause 4: byte_offset writes ---------------------------------------------------------
    ctx.rule('C13.4-offset-shape', 'every write to ParsingContext.byte_offset has the form original_len - len(suffix) (optionally - 1 after a successful one-byte read), hence lies within the input', floor=3)
    n = 0
    for B in P.all('erltf'):
        if not B.path.startswith(DEC):
            continue
        seen = {}
        for bb, j, st in B.stmts():
            if st['k'] != '=':
                continue
            ps = st['pl'].get('p') or []
            if not (ps and isinstance(ps[-1], dict) and ps[-1].get('n') == 'byte_offset'):
                continue
            n += 1
            c = canon(B, st['rv']['op']) if st['rv']['k'] == 'use' else ('unknown',)
            k = seen.get(B.path, 0) + 1
            seen[B.path] = k
            inst = '%s%s' % (B.path.rsplit('::', 1)[1], '' if k == 1 else '#%d' % k)
            if _offset_shape(B, c):
                ctx.ok('C13.4-offset-shape', inst, describe(B, c), ctx.where(B, ln=st['ln']))
            else:
                ctx.bad('C13.4-offset-shape', inst, 'byte_offset is assigned %s, which is not of the form original_len - len(suffix)[ - 1]' % describe(B, c), ctx.where(B, ln=st['ln']),
                        key='SHAPE:%s:byte_offset' % B.path)


    # ... and the context they are written to is this call's own
    ctx.rule('C13.4-context-fresh', 'the ParsingContext that decode_borrowed hands to the parsers (and puts into its errors) is created in that call (ParsingContext::new / default / a literal): a context kept from an earlier call '
             'still holds that call\'s byte_offset, which is reported for an input it never belonged to whenever a failure comes before the first write to it (an empty input)', floor=1)
    DB = ctx.body(DEC + 'decode_borrowed')
    if DB is not None:
        n_cx = 0
        for bb, t in DB.calls():
            for a, ty_ in zip(t['args'], (t.get('aty') or []) + [''] * len(t['args'])):
                if 'ParsingContext' not in ty_:
                    continue
                if not any(n_.startswith('erltf::') for n_ in callee_names(t)):
                    continue
                n_cx += 1
                o = unwrap(DB.origin(a))[0]
                inst = 'decode_borrowed:%s' % (callee_of(t)[0] or '?').rsplit('::', 2)[-2 if (callee_of(t)[0] or '').endswith('::new') else -1]
                fresh = o is not None and ((o[0] == 'call' and str(o[1]).rsplit('::', 1)[-1] in ('new', 'default') and 'ParsingContext' in str(o[1])) or (o[0] == 'agg' and 'ParsingContext' in str(o[1].get('adt'))))
                if o is not None and o[0] == 'call' and str(o[1]).endswith('::clone'):
                    continue
                if fresh:
                    ctx.ok('C13.4-context-fresh', inst, 'context built by %s in this call' % (o[1] if o[0] == 'call' else 'a literal'), ctx.where(DB, bb))
                else:
                    ctx.bad('C13.4-context-fresh', inst, 'the parsing context comes from %s, not from a constructor in this call: an offset (and path) left in it by an earlier input is reported for this one'
                            % (describe(DB, canon(DB, a))[:80]), ctx.where(DB, bb), key='PROV:%sdecode_borrowed:context-not-fresh' % DEC)
        ctx.anchor(n_cx >= 1, DEC + 'decode_borrowed: ParsingContext handed to the parser')

    # ---------------- clause 5: map keys are merged by BorrowedTerm's order ------------------------------------
    # decode_borrowed collects MAP_EXT entries into a BTreeMap keyed by BorrowedTerm; the owned decoder keys by OwnedTerm.
    # If the two orders distinguish different things, one decoder merges two keys the other keeps apart.
    ctx.rule('C13.5-key-order', 'the order that keys the zero-copy decoder\'s maps looks at exactly the struct fields the owned order looks at, '
             'and none of its comparisons has the same operand (or different fields) on its two sides', floor=10)
    from ..families import check_self_compare, fields_touched
    CMP_O = '<erltf::term::OwnedTerm as core::cmp::Ord>::cmp'
    CMP_B = "<erltf::borrowed::BorrowedTerm<'a> as core::cmp::Ord>::cmp"
    reach = {}
    for nm, root in (('owned', CMP_O), ('borrowed', CMP_B)):
        if not ctx.anchor(root in ctx.F.bodies, root):
            return
        reach[nm] = sorted(q for q in P.reachable_from([root]) if ctx.F.bodies[q]['crate'] == 'erltf')
    for q in reach['borrowed']:
        before = len(ctx.records)
        k = check_self_compare(ctx, P.B(q), 'C13.5-key-order')
        if k and len(ctx.records) == before:
            ctx.ok('C13.5-key-order', q, '%d comparison(s), operands mirror each other' % k)
    for ty in sorted(t_ for t_ in ctx.F.adts if t_.startswith('erltf::types::') and len(ctx.F.adts[t_]['variants']) == 1):
        fo, fb = set(), set()
        # the comparator bodies themselves (with their closures): identifiers are compared inline there
        for QB in bodies_of_fn(P, CMP_O):
            fo |= fields_touched(QB, ty)
        for QB in bodies_of_fn(P, CMP_B):
            fb |= fields_touched(QB, ty)
        if not fo and not fb:
            continue
        inst = 'fields:' + ty.rsplit('::', 1)[1]
        if fo == fb:
            ctx.ok('C13.5-key-order', inst, 'both orders read %s' % sorted(fo))
        else:
            ctx.bad('C13.5-key-order', inst, 'the owned order reads %s of %s, the zero-copy order reads %s: map keys differing only in %s are merged by one decoder and kept apart by the other'
                    % (sorted(fo), ty.rsplit('::', 1)[1], sorted(fb), sorted(fo ^ fb)), key='TWIN:order-fields:%s' % ty)

    ctx.rule('C13.6-map-key-order', 'the comparator rules of C11/C12 on the orders that key the two decoders\' maps (a key pair merged by one order and kept apart by the other makes the results differ)', floor=60)
    from ..order import map_key_order_rules
    map_key_order_rules(ctx, 'C13.6-map-key-order')

    # dependency: Atom::new
    ctx.rule('C13.3-atom-interning', 'both decoders create atoms with Atom::new: its interning tables agree entry by entry', floor=1)
    from ..etf import check_atom_tables
    check_atom_tables(ctx, 'C13.3-atom-interning')

    # the k-th value a parser reads lands in the field the encoder writes k-th
    from ..fieldorder import check_field_order
    ctx.rule('C13.2-field-order', 'for every structure built by a parser through its constructor (funs, exports, pids, ports, references): the constructor argument for field f derives from the wire read '
             'at the position where the encoder writes f; constructor parameter->field map from the constructor body, read positions from the parser\'s data flow, write order from the encoder\'s success paths', floor=10)
    n_fo = check_field_order(ctx, 'C13.2-field-order')
    ctx.anchor(n_fo >= 10, 'parsers that build a structure through erltf::types::*::new with an encoder for it')


def _offset_shape(B, c):
    def is_total(x):
        if x[0] == 'arg' and (B.local_name(x[1]) or '') in ('original_len',):
            return True
        if x[0] == 'len':
            return True
        if x[0] == 'local' and (B.local_name(x[1]) or '') == 'original_len':
            return True
        if x[0] == 'place' and x[2] and str(x[2][-1]) == 'original_len':
            return True          # the total kept as a field of a cursor / context struct
        return False
    if c[0] == 'bin' and c[1] == 'Sub':
        a, b = c[2], c[3]
        if is_total(a) and b[0] == 'len':
            return True
        if a[0] == 'bin' and a[1] == 'Sub' and is_total(a[2]) and a[3][0] == 'len' and b == ('const', 1):
            return True
    return False
