"""C11 — term comparison is a lawful total preorder consistent with equality and hashing.

Pair table of both comparators over all 17x17 variant pairs (abstract interpretation
over discriminants), catch-all detection, mirror consistency, Eq=>Hash (float bits),
lossy int->float on the comparison path, twin agreement owned/borrowed.
"""
from ..core import callee_of, callee_names, is_call_to, unwrap
from ..pairs import op_bag, walk, rank_table, fingerprint, ORD_NAME
from ..families import check_casts, bodies_of_fn
from ..wire import _sccs

OWNED = 'erltf::term::OwnedTerm'
BORROWED = 'erltf::borrowed::BorrowedTerm'
CMP_O = '<erltf::term::OwnedTerm as core::cmp::Ord>::cmp'
CMP_B = "<erltf::borrowed::BorrowedTerm<'a> as core::cmp::Ord>::cmp"
CONV = ('as_slice', 'as_bytes', 'deref', 'as_ref', 'borrow', 'as_str', 'clone')
HELPERS = ['compare_int_bigint', 'compare_bigint_int', 'compare_bigint', 'bigint_to_u64', 'compare_int_float', 'compare_float_int',
           'compare_bigint_float', 'compare_float_bigint', 'bigint_to_f64']


def comparator_tables(ctx, which):
    P = ctx.P
    if which == 'owned':
        B = ctx.body(CMP_O)
        R = P.B('erltf::term::term_type_order') if 'erltf::term::term_type_order' in ctx.F.bodies else None      # (where it lives today; found by shape below if it has moved)
        rank_fn = 'erltf::term::term_type_order'
        adt = OWNED
    else:
        B = ctx.body(CMP_B)
        R = P.B(CMP_B + '::{closure#0}') if (CMP_B + '::{closure#0}') in ctx.F.bodies else None
        rank_fn = CMP_B + '::{closure#0}'
        adt = BORROWED
    vs = [v['n'] for v in ctx.F.adts[adt]['variants']] if adt in ctx.F.adts else []
    if B is not None and R is not None:
        try:
            if sum(1 for v_ in rank_table(R, len(vs)).values() if v_ is not None) < len(vs) - 1:
                R = None
        except Exception:
            R = None
    if B is not None and R is None:
        # the ranking may live in another function or closure than on the reviewed tree: any callee / closure of the comparator
        # that maps every variant to a number is the rank function
        cands = []
        for bb_, t_ in B.calls():
            cands += [n_ for n_ in callee_names(t_) if n_ in ctx.F.bodies]
        for bb_, j_, st_ in B.stmts():
            if st_['k'] == '=' and st_['rv']['k'] == 'agg' and st_['rv'].get('ak') == 'closure' and st_['rv'].get('def') in ctx.F.bodies:
                cands.append(st_['rv']['def'])
        for c_ in cands:
            RB_ = P.B(c_)
            try:
                rt_ = rank_table(RB_, len(vs))
            except Exception:
                rt_ = {}
            if sum(1 for v_ in rt_.values() if v_ is not None) >= len(vs) - 1 and len(set(rt_.values())) >= 5:
                R, rank_fn = RB_, c_
                break
    if B is None:
        return None
    if R is None:
        # no variant -> number function: the rank may be an enum compared through its derived order, spliced into the comparator.
        # The pair table is evaluated as it stands and the ranks read off it: rank(v) = how many variants sort strictly before v by a constant answer
    # given before the rank comparison said Equal.
        table = {}
        for i, a in enumerate(vs):
            for j, b in enumerate(vs):
                table[(a, b)] = walk(B, i, j, None, None)
        consts = sum(1 for r in table.values() if r['kind'] == 'const')
        if consts < len(vs):
            return None
        ranks = {a: sum(1 for b in vs if table[(b, a)]['kind'] == 'const' and table[(b, a)].get('value') == 'Less' and not table[(b, a)].get('rank_equal')) for a in vs}
        return {'B': B, 'variants': vs, 'ranks': ranks, 'table': table}
    ranks = rank_table(R, len(vs))
    table = {}
    for i, a in enumerate(vs):
        for j, b in enumerate(vs):
            table[(a, b)] = walk(B, i, j, rank_fn, ranks)
    return {'B': B, 'variants': vs, 'ranks': {vs[i]: r for i, r in ranks.items()}, 'table': table}


def arm_summary(B, res):
    """callee names and Ordering constants in the region reached from an arm's first value-dependent block"""
    if res['kind'] != 'compares':
        return None
    calls = []
    consts = set()

    def scan(XB, reg, depth):
        for bb in sorted(reg):
            t = XB.blocks[bb]['t']
            if t['k'] == 'call':
                g, r = callee_of(t)
                n = (r or g or '')
                # `a.then_with(|| b)`: the closure's operations are listed in its place (below)
                if n.rsplit('::', 1)[-1] not in CONV and n != 'core::cmp::Ordering::then_with':
                    calls.append(r or g)
                    for a in t['args']:
                        if a['k'] == 'c' and 'fn' in a:
                            calls.append(a['fn'])
            for st in XB.blocks[bb]['s']:
                if st['k'] == '=' and st['rv']['k'] == 'agg' and st['rv'].get('adt') == 'core::cmp::Ordering':
                    consts.add(st['rv']['var'])
            for st in XB.blocks[bb]['s']:
                if st['k'] == '=' and st['rv']['k'] == 'agg' and st['rv']['ak'] in ('closure',):
                    if st['rv'].get('expanded'):
                        continue       # already spliced in at its then_with
                    CB = XB.PROGRAM.B(st['rv'].get('def')) if getattr(XB, 'PROGRAM', None) is not None else None
                    if CB is not None and depth < 3:
                        # what the closure does counts as done here: written inline or behind then_with makes no difference
                        scan(CB, CB.live_blocks(), depth + 1)
                    else:
                        calls.append('closure')
    scan(B, B.reachable(res['bb']), 0)
    return calls, consts


def reverse_of(P, g):
    """if body of g is `f(b, a).reverse()` return f"""
    B = P.B(g)
    if B is None:
        return None
    calls = [(bb, t) for bb, t in B.calls()]
    if len(calls) != 2:
        return None
    (b1, t1), (b2, t2) = calls
    n2 = callee_of(t2)[0] or ''
    if not n2.endswith('Ordering::reverse'):
        return None
    o = B.origin(t2['args'][0])
    if o[0] != 'call' or o[2] != b1:
        return None
    a = [B.origin(x) for x in t1['args']]
    if len(a) == 2 and a[0][0] == 'arg' and a[1][0] == 'arg' and (a[0][1], a[1][1]) == (2, 1):
        return callee_of(t1)[1] or callee_of(t1)[0]
    return None


def _float_bounded(B, op, bb):
    """is the float operand bounded on both sides by comparisons with constants that dominate bb?
    (x < c / x <= c on the taken edge bounds it above, x > c / x >= c below; |x| < c bounds both; the negations on the other edge)"""
    from ..ranges import canon
    from ..core import dominating_edges
    c = canon(B, op)
    up = lo = False
    for (src, vals, dst) in dominating_edges(B, bb):
        sb = B.switch_bool_edges(src)
        if not sb or sb[0][0] != 'bin':
            continue
        rv = sb[0][2]
        opn = rv['op']
        if opn not in ('Lt', 'Le', 'Gt', 'Ge'):
            continue
        truth = dst == sb[1]
        for side, other in (('a', 'b'), ('b', 'a')):
            x = canon(B, rv[side])
            is_abs = isinstance(x, tuple) and x and x[0] == 'call' and str(x[1]).endswith('::abs') and canon(B, B.blocks[x[2]]['t']['args'][0]) == c
            if x != c and not is_abs:
                continue
            if B.origin(rv[other])[0] != 'const':
                continue
            # relation as seen from x: x OP const
            rel = opn if side == 'a' else {'Lt': 'Gt', 'Le': 'Ge', 'Gt': 'Lt', 'Ge': 'Le'}[opn]
            if not truth:
                rel = {'Lt': 'Ge', 'Le': 'Gt', 'Gt': 'Le', 'Ge': 'Lt'}[rel]
            if rel in ('Lt', 'Le'):
                up = True
                if is_abs:
                    lo = True
            elif not is_abs:
                lo = True
    return up and lo


def run(ctx):
    P = ctx.P
    tabs = {}
    for which in ('owned', 'borrowed'):
        t = comparator_tables(ctx, which)
        if t is None:
            # fail closed: nothing about the order can be decided without the pair table
            ctx.anchor(False, 'pair table of the %s comparator (Ord::cmp of the term type, with a rank function or an evaluable rank comparison)' % which)
            return
        tabs[which] = t

    # ---------------- clause 1: every pair is routed; no heterogeneous same-rank pair is "Equal by default" -------
    ctx.rule('C11.1-pairs', 'all 17x17 variant pairs of both comparators are classified: different rank -> decided by rank; same rank -> an arm that actually compares. A heterogeneous same-rank pair that yields the constant Equal makes <= intransitive', floor=578)
    for which, T in tabs.items():
        cmpname = CMP_O if which == 'owned' else CMP_B
        vs, ranks, table = T['variants'], T['ranks'], T['table']
        for (a, b), res in table.items():
            inst = '%s:(%s,%s)' % (which, a, b)
            if res['kind'] == 'unknown':
                ctx.undecided('C11.1-pairs', inst, res.get('why', ''))
            elif res['kind'] == 'const':
                if ranks[a] != ranks[b]:
                    want = 'Less' if ranks[a] < ranks[b] else 'Greater'
                    if res['value'] == want:
                        ctx.ok('C11.1-pairs', inst, 'rank %s vs %s -> %s' % (ranks[a], ranks[b], want))
                    else:
                        ctx.bad('C11.1-pairs', inst, 'ranks %s vs %s but the result is the constant %s' % (ranks[a], ranks[b], res['value']),
                                key='PAIRS:%s:(%s,%s):rank-result' % (cmpname, a, b))
                elif a == b:
                    ctx.ok('C11.1-pairs', inst, 'same variant, constant %s' % res['value'])
                elif res['value'] == 'Equal':
                    ctx.bad('C11.1-pairs', inst, '%s vs %s have the same rank and fall into an arm that returns Equal without comparing anything: e.g. X <= (any %s) <= Y for all X, Y of %s although X > Y is possible' % (a, b, b, a),
                            ctx.where(T['B']), key='PAIRS:%s:(%s,%s)' % (cmpname, a, b))
                else:
                    ctx.ok('C11.1-pairs', inst, 'same rank, constant %s (mirror checked below)' % res['value'])
            else:
                if ranks[a] != ranks[b]:
                    ctx.bad('C11.1-pairs', inst, 'different ranks (%s, %s) but the pair reaches a value comparison' % (ranks[a], ranks[b]), key='PAIRS:%s:(%s,%s):rank-ignored' % (cmpname, a, b))
                else:
                    ctx.ok('C11.1-pairs', inst, 'compares (%s)' % ', '.join(x.rsplit('::', 1)[-1] for x in (res.get('calls') or [])[:2]))

    # an arm that answers by asking the same question the other way round (`other.cmp(self).reverse()`) terminates only if the
    # swapped pair is answered by a different arm
    ctx.rule('C11.1-swap-terminates', 'no pair of variants (A,B) is answered by calling the comparator on (B,A) while (B,A) is answered by calling it on (A,B): such a pair recurses until the stack is gone '
             '(the process aborts - also inside BTreeMap::insert while a map with two such keys is being decoded)', floor=2)
    for which, T in tabs.items():
        cmpname = CMP_O if which == 'owned' else CMP_B
        vs, table = T['variants'], T['table']

        def swaps(res):
            if res['kind'] != 'compares' or not res.get('args') or len(res['args']) != 2:
                return False
            if not any(n == cmpname or n == 'core::cmp::Ord::cmp' for n in (res.get('calls') or [])):
                return False
            a0, a1 = res['args']
            return a0 is not None and a1 is not None and a0[0] == 'ref' and a1[0] == 'ref' and a0[1] == 'O' and a1[1] == 'S'
        loops = [(a, b) for (a, b), res in table.items() if swaps(res) and swaps(table.get((b, a), {'kind': 'x'}))]
        if loops:
            for (a, b) in loops[:8]:
                ctx.bad('C11.1-swap-terminates', '%s:(%s,%s)' % (which, a, b), 'cmp(%s, %s) is answered by cmp(%s, %s).reverse() and the other way round: comparing two such terms never returns (stack overflow)' % (a, b, b, a),
                        ctx.where(T['B']), key='PAIRS:%s:(%s,%s):swap-loop' % (cmpname, a, b))
        else:
            ctx.ok('C11.1-swap-terminates', which, 'no pair is answered by the swapped call in both directions (%d arms delegate to the swapped pair)' % sum(1 for r in table.values() if swaps(r)), ctx.where(T['B']))

    # ---------------- clause 2: mirror consistency ------------------------------------------------------------------
    ctx.rule('C11.2-mirror', 'for every ordered pair (A,B) the arm for (B,A) is its mirror: opposite constants, or a helper defined as the reverse of the other with swapped arguments', floor=130)
    for which, T in tabs.items():
        cmpname = CMP_O if which == 'owned' else CMP_B
        vs, table, B = T['variants'], T['table'], T['B']
        for i, a in enumerate(vs):
            for b in vs[i + 1:]:
                r1, r2 = table[(a, b)], table[(b, a)]
                inst = '%s:(%s,%s)' % (which, a, b)
                if r1['kind'] == 'const' and r2['kind'] == 'const':
                    mir = {'Less': 'Greater', 'Greater': 'Less', 'Equal': 'Equal'}
                    if mir[r1['value']] == r2['value']:
                        ctx.ok('C11.2-mirror', inst, '%s / %s' % (r1['value'], r2['value']))
                    else:
                        ctx.bad('C11.2-mirror', inst, 'cmp(%s,%s) is always %s but cmp(%s,%s) is always %s' % (a, b, r1['value'], b, a, r2['value']),
                                ctx.where(B), key='MIRROR:%s:(%s,%s)' % (cmpname, a, b))
                elif r1['kind'] == 'compares' and r2['kind'] == 'compares':
                    s1, s2 = arm_summary(B, r1), arm_summary(B, r2)
                    ok = False
                    why = ''
                    for f in s1[0]:
                        for g in s2[0]:
                            if f and g and (reverse_of(P, g) == f or reverse_of(P, f) == g):
                                ok = True
                                why = '%s is reverse(%s) with swapped arguments' % (g.rsplit('::', 1)[-1], f.rsplit('::', 1)[-1])
                    if not ok:
                        mir = {'Less': 'Greater', 'Greater': 'Less', 'Equal': 'Equal'}
                        if sorted(s1[0]) == sorted(s2[0]) and {mir[c] for c in s1[1]} == s2[1]:
                            ok = True
                            why = 'same comparison calls, constants mirrored (%s / %s)' % (sorted(s1[1]), sorted(s2[1]))
                    if ok:
                        ctx.ok('C11.2-mirror', inst, why)
                    else:
                        ctx.bad('C11.2-mirror', inst, 'arms for (%s,%s) and (%s,%s) are not mirrors: %s %s vs %s %s' % (
                            a, b, b, a, [x.rsplit('::', 1)[-1] for x in s1[0]][:3], sorted(s1[1]), [x.rsplit('::', 1)[-1] for x in s2[0]][:3], sorted(s2[1])),
                            ctx.where(B), key='MIRROR:%s:(%s,%s)' % (cmpname, a, b))
                elif 'unknown' in (r1['kind'], r2['kind']):
                    ctx.undecided('C11.2-mirror', inst, 'pair not classified')
                else:
                    ctx.bad('C11.2-mirror', inst, 'one direction compares values, the other returns a constant (%s / %s)' % (r1['kind'], r2['kind']),
                            ctx.where(B), key='MIRROR:%s:(%s,%s)' % (cmpname, a, b))

    # the operators are the order: < <= > >= (and max / min / clamp) come from cmp, nothing answers them on its own
    ctx.rule('C11.2-operators-from-cmp', 'for the term types (and the identifier / atom types inside them) the provided methods of PartialOrd / Ord - lt, le, gt, ge, max, min, clamp - are not overridden by code that looks '
             'at the values itself, and partial_cmp of the two term types is Some(cmp): sort(), is_sorted() and the comparison operators go through lt, so a second opinion there is a second, unexamined order', floor=2)
    import re as _re11
    n_op = 0
    for q in sorted(ctx.F.bodies):
        m_ = _re11.match(r"^<erltf::([A-Za-z_:]+)(<'[a-z_]+>)? as core::cmp::(PartialOrd>::(lt|le|gt|ge|partial_cmp)|Ord>::(max|min|clamp)|PartialEq>::ne)$", q)
        if not m_:
            continue
        meth = q.rsplit('::', 1)[-1]
        is_term = m_.group(1) in ('term::OwnedTerm', 'borrowed::BorrowedTerm')
        if meth == 'partial_cmp' and not is_term:
            continue
        OB = P.B(q)
        n_op += 1
        looks = None
        for bb, j, st in OB.stmts():
            if st['k'] == '=' and st['rv']['k'] == 'discr' and bb in OB.live_blocks():
                o_ = unwrap(OB.origin_place(st['rv']['pl']))[0] if hasattr(OB, 'origin_place') else None
                if o_ is not None and o_[0] == 'arg':
                    looks = bb
        fields = [bb for bb, j, st in OB.stmts() if st['k'] == '=' and bb in OB.live_blocks() and st['rv']['k'] in ('use', 'ref') and
                  any(isinstance(e, dict) and 'f' in e for pl_ in ([st['rv'].get('pl')] if st['rv']['k'] == 'ref' else [st['rv']['op'].get('pl')] if st['rv']['op'].get('k') in ('cp', 'mv') else []) if pl_ for e in (pl_.get('p') or []))
                  and any(l in (1, 2) or l in OB.derived_locals([1, 2]) for l in OB._rv_locals(st['rv']))]
        delegates = any(any(n in ('core::cmp::Ord::cmp', 'core::cmp::PartialOrd::partial_cmp') or n.endswith(' as core::cmp::Ord>::cmp') for n in callee_names(t)) for bb, t in OB.calls())
        inst = '%s::%s' % (m_.group(1).rsplit('::', 1)[-1], meth)
        if looks is not None or (fields and meth != 'partial_cmp') or not delegates:
            ctx.bad('C11.2-operators-from-cmp', inst, '%s is answered by code of its own (it reads the variants / fields of its operands) instead of by cmp: where the two disagree `a < b`, sort() and is_sorted() follow another order than cmp, '
                    'BTreeMap and binary_search' % inst, ctx.where(OB, looks if looks is not None else (fields[0] if fields else None)), key='TWIN:%s:own-answer' % q)
        else:
            ctx.ok('C11.2-operators-from-cmp', inst, 'delegates to cmp', ctx.where(OB))
    ctx.anchor(n_op >= 2, 'partial_cmp of OwnedTerm and BorrowedTerm')

    # ---------------- clause 3: Eq => Hash ----------------------------------------------------------------------------
    ctx.rule('C11.3-eq-hash', 'values that are == hash equally: no f64 is hashed by its raw bit pattern while compared with IEEE == (-0.0 == 0.0) unless zero is normalised', floor=2)
    for adt in (OWNED, BORROWED):
        path = '<%s as core::hash::Hash>::hash' % (adt if adt == OWNED else adt + "<'a>")
        HB = ctx.body(path) if adt == OWNED else P.B(path)
        if HB is None:
            ctx.ok('C11.3-eq-hash', adt.rsplit('::', 1)[1] + '::hash', 'type does not implement Hash')
            continue
        bits = [(bb, t) for bb, t in HB.calls() if any(n.endswith('f64>::to_bits') or n.endswith('::to_bits') for n in callee_names(t))]
        eqimpl = [i for i in ctx.F.impls if i['self'].startswith(adt) and (i.get('trait') or '') == 'core::cmp::PartialEq']
        derived_eq = bool(eqimpl and eqimpl[0]['derived'])
        zero_norm = False
        for bb, j, st in HB.stmts():
            if st['k'] == '=' and st['rv']['k'] == 'bin' and st['rv']['op'] in ('Eq', 'Ne') and st['rv'].get('ty') == 'f64':
                zero_norm = True
        inst = adt.rsplit('::', 1)[1] + '::hash:Float'
        if bits and derived_eq and not zero_norm:
            ctx.bad('C11.3-eq-hash', inst, 'Float is hashed by f64::to_bits while the derived == is IEEE equality: -0.0 == 0.0 but their hashes differ, so a HashMap/HashSet keyed by terms can hold both or miss either',
                    ctx.where(HB, bits[0][0]), key='EQHASH:%s:float-bits' % path)
        elif bits:
            ctx.ok('C11.3-eq-hash', inst, 'to_bits with zero normalisation / non-IEEE equality', ctx.where(HB, bits[0][0]))
        else:
            ctx.ok('C11.3-eq-hash', inst, 'floats are not hashed by raw bits')

    ctx.rule('C11.3-eq-hash-fields', 'for every struct of the term model with both ==, hash and/or an order, hash reads no field that == ignores, and the order reads exactly the fields == reads '
             '(a hash over an ignored field separates equal values; an order over fewer/more fields disagrees with ==)', floor=8)
    from ..families import fields_touched, bodies_of_fn, check_self_compare
    for ty in sorted(ctx.F.adts):
        adt = ctx.F.adts[ty]
        if not ty.startswith('erltf::') or len(adt['variants']) != 1:
            continue
        sets = {}
        for tr, m in (('core::cmp::PartialEq', 'eq'), ('core::hash::Hash', 'hash'), ('core::cmp::Ord', 'cmp')):
            bs = [b_ for pfx in ('<%s as %s>::%s' % (ty, tr, m), "<%s<'a> as %s>::%s" % (ty, tr, m)) for b_ in bodies_of_fn(P, pfx)]
            if bs:
                fs = set()
                for FB in bs:
                    fs |= fields_touched(FB, ty)
                    if m in ('eq', 'cmp'):
                        check_self_compare(ctx, FB, 'C11.3-eq-hash-fields')
                sets[m] = fs
        short = ty.rsplit('::', 1)[1]
        # a hand-written == is field-wise: nothing but == of the fields (and of their parts); a helper that relaxes the
        # comparison of one field (prefix, trailing zeros, case ...) makes == coarser than hash and the order, which stay field-wise
        eqi = [i for i in ctx.F.impls if i['self'] == ty and (i.get('trait') or '') == 'core::cmp::PartialEq']
        if eqi and not eqi[0].get('derived'):
            odd = []
            for it in eqi[0]['items']:
                for FB in bodies_of_fn(P, it):
                    for bb, t in FB.calls():
                        nm = (callee_of(t)[0] or '?')
                        last = nm.rsplit('::', 1)[-1]
                        if last in ('eq', 'ne', 'deref', 'as_ref', 'borrow', 'as_str', 'as_slice', 'as_bytes'):
                            continue
                        odd.append((FB, bb, nm))
            # ... and nothing but field against field: a field compared with a constant (`creation == 0` as a wildcard) makes ==
            # coarser than Hash and Ord just the same, whether it sits in a helper or inline
            if not odd:
                from ..families import comparator_calls as _cc
                for it in eqi[0]['items']:
                    for FB in bodies_of_fn(P, it):
                        for bb, nm_, (ca, cb) in _cc(FB):
                            if (ca[0] == 'const') != (cb[0] == 'const'):
                                other_ = cb if ca[0] == 'const' else ca
                                if isinstance(other_, tuple) and other_[0] == 'place' and other_[1] in (('arg', 1), ('arg', 2)):
                                    odd.append((FB, bb, 'a comparison of the field `%s` with the constant %s' % (other_[2][-1] if other_[2] else '?', (ca if ca[0] == 'const' else cb)[1])))
            if odd:
                FB, bb, nm = odd[0]
                ctx.bad('C11.3-eq-hash-fields', short + ':eq-fieldwise', 'the hand-written == of %s is not plain field-wise equality (it calls %s): values it treats as equal can still differ for Hash and Ord, which compare the fields exactly'
                        % (short, nm.rsplit('::', 2)[-2] + '::' + nm.rsplit('::', 1)[-1] if '::' in nm else nm), ctx.where(FB, bb), key='EQHASH:%s:eq-not-fieldwise' % ty)
            else:
                ctx.ok('C11.3-eq-hash-fields', short + ':eq-fieldwise', 'hand-written == consists of == on fields only')
        if 'eq' in sets and 'hash' in sets:
            extra = sets['hash'] - sets['eq']
            if extra:
                ctx.bad('C11.3-eq-hash-fields', short + ':hash', 'hash reads %s, which == does not look at: two equal %s values can hash differently, so a HashMap/HashSet keyed by terms duplicates or loses them'
                        % (sorted(extra), short), key='EQHASH:%s:hash-reads:%s' % (ty, ','.join(sorted(extra))))
            else:
                ctx.ok('C11.3-eq-hash-fields', short + ':hash', 'hash reads %s, a subset of what == reads' % sorted(sets['hash']))
        if 'eq' in sets and 'cmp' in sets:
            if sets['cmp'] != sets['eq']:
                ctx.bad('C11.3-eq-hash-fields', short + ':cmp', 'the order reads %s, == reads %s: cmp() == Equal and == disagree' % (sorted(sets['cmp']), sorted(sets['eq'])),
                        key='EQORD:%s:fields' % ty)
            else:
                ctx.ok('C11.3-eq-hash-fields', short + ':cmp', 'order and == read the same fields %s' % sorted(sets['eq']))

    ctx.rule('C11.1-no-self-compare', 'no comparison on the comparison path of either term type has the same operand on both sides (a.f.cmp(&a.f) is constantly Equal: '
             'antisymmetry and agreement with == are lost for values differing in f); counted: comparisons scanned', floor=40)
    n_cmp = 0
    for p_ in sorted({q for root in (CMP_O, CMP_B) for q in P.reachable_from([root]) if ctx.F.bodies[q]['crate'] == 'erltf'}):
        before = len(ctx.records)
        k = check_self_compare(ctx, P.B(p_), 'C11.1-no-self-compare')
        n_cmp += k
        if k and len(ctx.records) == before:
            ctx.ok('C11.1-no-self-compare', p_, '%d comparison(s), operands differ in each' % k)
    ctx.info_note('%d comparisons scanned for identical operands' % n_cmp)

    # ---------------- clause 4: lossy numeric conversion on the comparison path -----------------------------------------
    ctx.rule('C11.4-exact-numbers', 'no integer is rounded to f64 on the comparison path (i64 as f64, accumulation of big-integer digits into an f64) unless range-guarded to +-2^53', floor=4)
    for root in (CMP_O, CMP_B):
        reach = sorted(p for p in P.reachable_from([root]) if ctx.F.bodies[p]['crate'] == 'erltf' and ('compare' in p or 'bigint' in p or p == root))
        for p in reach:
            FB = P.B(p)
            # explicit int -> float casts
            n = 0
            from ..ranges import Ranges, canon, ty_range
            from ..families import describe, F64_EXACT
            R = Ranges(FB)
            comps = _sccs(FB, FB.live_blocks())
            loops = [set(c) for c in comps if len(c) > 1]
            for bb, j, st in FB.stmts():
                if st['k'] == '=' and st['rv']['k'] == 'cast' and st['rv']['ck'] == 'IntToFloat':
                    fr = ty_range(st['rv']['from'])
                    if fr is None:
                        continue
                    rng = R.range_of(st['rv']['op'], bb)
                    inst = '%s:%s as f64' % (p, describe(FB, canon(FB, st['rv']['op'])))
                    in_loop = any(bb in l for l in loops)
                    if rng[0] >= F64_EXACT[0] and rng[1] <= F64_EXACT[1] and not in_loop:
                        ctx.ok('C11.4-exact-numbers', inst, 'range [%s, %s] is exactly representable' % rng, ctx.where(FB, ln=st['ln']))
                    elif in_loop:
                        ctx.bad('C11.4-exact-numbers', inst, 'digits are accumulated into an f64 inside a loop: a big integer of more than 53 significant bits is rounded before it is compared (2^64 and 2^64+1 compare Equal to the same float)',
                                ctx.where(FB, ln=st['ln']), key='CAST:%s:f64-accumulation' % p)
                    else:
                        ctx.bad('C11.4-exact-numbers', inst, '%s is converted to f64 before comparing: integers above 2^53 are rounded (2^53 and 2^53+1 both compare Equal to 9007199254740992.0)' % st['rv']['from'],
                                ctx.where(FB, ln=st['ln']), key='CAST:%s:int-as-f64' % p)

    # the other direction: a float narrowed to an integer saturates (1e19 as i64 == i64::MAX) and drops the fraction
    ctx.rule('C11.4-float-not-narrowed', 'no comparison on the number path narrows a float to an integer with `as` unless the interval analysis shows it lies within the integer type: `f as i64` saturates, '
             'so every float beyond the range collapses onto i64::MAX / i64::MIN and compares Equal to it while those floats differ among themselves', floor=0)
    n_fn = 0
    for root in (CMP_O, CMP_B):
        if root not in ctx.F.bodies:
            continue
        for p_ in sorted(q for q in P.reachable_from([root]) if ctx.F.bodies[q]['crate'] == 'erltf' and ('compare' in q or 'bigint' in q or q == root)):
            FB = P.B(p_)
            for bb, j, st in FB.stmts():
                if st['k'] == '=' and st['rv']['k'] == 'cast' and st['rv'].get('ck') == 'FloatToInt':
                    n_fn += 1
                    if _float_bounded(FB, st['rv']['op'], bb):
                        ctx.ok('C11.4-float-not-narrowed', '%s:%s->%s' % (p_.rsplit('::', 1)[-1], st['rv'].get('from'), st['rv'].get('to')),
                               'the float is bounded from above and from below by dominating comparisons before it is narrowed', ctx.where(FB, ln=st['ln']))
                        continue
                    ctx.bad('C11.4-float-not-narrowed', '%s:%s->%s' % (p_.rsplit('::', 1)[-1], st['rv'].get('from'), st['rv'].get('to')),
                            '%s narrows a float to %s with `as`: the cast saturates at the ends of the integer range and truncates the fraction, so distinct floats are compared as one integer' % (p_.rsplit('::', 1)[-1], st['rv'].get('to')),
                            ctx.where(FB, ln=st['ln']), key='CAST:%s:float-as-int' % p_)
    if n_fn == 0:
        ctx.ok('C11.4-float-not-narrowed', 'comparators', 'no float is narrowed to an integer on the comparison path')

    ctx.rule('C11.4-bigint-truncation', 'the 8-digit reader bigint_to_u64 is only applied to operands known to have at most 8 digits', floor=2)
    from ..families import check_bigint_truncation
    check_bigint_truncation(ctx, P, 'C11.4-bigint-truncation')

    # ---------------- clause 5: twin --------------------------------------------------------------------------------------
    ctx.rule('C11.5-twin-pairs', 'BorrowedTerm::cmp orders every pair of variants exactly as OwnedTerm::cmp does (same rank table, same constants, same comparison recipe per arm)', floor=289)
    To, Tb = tabs['owned'], tabs['borrowed']
    if To['variants'] != Tb['variants']:
        ctx.bad('C11.5-twin-pairs', 'variants', 'variant lists differ', key='TWIN:cmp:variants')
    for (a, b), ro in To['table'].items():
        rb = Tb['table'].get((a, b))
        inst = '(%s,%s)' % (a, b)
        if rb is None:
            continue
        if ro['kind'] != rb['kind'] or (ro['kind'] == 'const' and ro['value'] != rb['value']):
            ctx.bad('C11.5-twin-pairs', inst, 'owned: %s, borrowed: %s' % (_show(ro), _show(rb)), key='TWIN:cmp:%s' % inst)
        elif ro['kind'] == 'compares':
            so, sb = arm_summary(To['B'], ro), arm_summary(Tb['B'], rb)
            norm = lambda xs: sorted(_norm_callee(x) for x in xs)
            if norm(so[0]) == norm(sb[0]) and so[1] == sb[1]:
                ctx.ok('C11.5-twin-pairs', inst, 'same recipe')
            elif bool({x for x in norm(so[0]) if x.startswith('X::')} - {x for x in norm(sb[0]) if x.startswith('X::')}) != \
                    bool({x for x in norm(sb[0]) if x.startswith('X::')} - {x for x in norm(so[0]) if x.startswith('X::')}):
                # (exactly one side has a helper call the other lacks; two DIFFERENT helpers on the two sides is a disagreement and stays a violation)
                # one copy has been factored through a helper of its own module that the other copy does not call: the arms can no longer be
                # compared operation by operation; each side is decided on its own by the ordering rules (C11.1 pairs / ranks, C12.4 / C12.5 recipes,
                # field comparisons), which run for both term types
                ctx.undecided('C11.5-twin-pairs', inst, 'one copy calls a module-local helper the other does not (%s); each side is decided by the per-type ordering rules instead'
                              % sorted({x for x in norm(so[0]) if x.startswith('X::')} ^ {x for x in norm(sb[0]) if x.startswith('X::')})[:3])
            else:
                from collections import Counter as _Ctr
                co_, cb_ = _Ctr(norm(so[0])), _Ctr(norm(sb[0]))
                ctx.bad('C11.5-twin-pairs', inst, 'arms differ: only in owned %s %s, only in borrowed %s %s' % (sorted((co_ - cb_).elements())[:6], sorted(so[1] - sb[1]), sorted((cb_ - co_).elements())[:6], sorted(sb[1] - so[1])),
                        key='TWIN:cmp:%s' % inst)
        else:
            ctx.ok('C11.5-twin-pairs', inst, _show(ro))
    ctx.rule('C11.5-twin-helpers', 'the numeric helpers duplicated in borrowed.rs have bodies identical to those in term.rs', floor=9)
    for h in HELPERS:
        Ho, Hb = P.B('erltf::term::' + h), P.B('erltf::borrowed::' + h)
        if Ho is None or Hb is None:
            ctx.undecided('C11.5-twin-helpers', h, 'helper not present on both sides')
            continue
        fo = [fingerprint(x, rename=[('erltf::term::', 'X::')]) for x in sorted(bodies_of_fn(P, 'erltf::term::' + h), key=lambda x: x.path)]
        fb = [fingerprint(x, rename=[('erltf::borrowed::', 'X::')]) for x in sorted(bodies_of_fn(P, 'erltf::borrowed::' + h), key=lambda x: x.path)]
        if fo == fb:
            ctx.ok('C11.5-twin-helpers', h, 'identical MIR modulo module path', ctx.where(Hb))
            continue
        # differently shaped code is fine as long as both copies perform the same operations
        from collections import Counter
        bo, bb_ = Counter(), Counter()
        for x in bodies_of_fn(P, 'erltf::term::' + h):
            bo += op_bag(x, rename=[('erltf::term::', 'X::')])
        for x in bodies_of_fn(P, 'erltf::borrowed::' + h):
            bb_ += op_bag(x, rename=[('erltf::borrowed::', 'X::')])
        if bo == bb_:
            ctx.ok('C11.5-twin-helpers', h, 'differently laid out, same multiset of operations (callees, operators, constants, casts)', ctx.where(Hb))
        elif any(x.b.get('n_inlined') for x in bodies_of_fn(P, 'erltf::term::' + h) + bodies_of_fn(P, 'erltf::borrowed::' + h)):
            # one copy has been factored through a helper that did not exist on the reviewed tree (its body has been spliced in): the copies
            # are no longer comparable operation by operation; each is decided on its own by the ordering rules (C12.3 digit walk, sign arms)
            ctx.undecided('C11.5-twin-helpers', h, 'one copy goes through a new helper function; compared semantically by the ordering rules instead', ctx.where(Hb))
        elif any(k[0] == 'call' and str(k[1]).startswith('X::') and str(k[1]).rsplit('::', 1)[-1] not in HELPERS for k in ((bo - bb_) + (bb_ - bo))):
            # one copy has been factored through a helper of its own module the other copy does not have: the two can no longer be
            # compared operation by operation; each copy is still decided on its own by the ordering rules (C12.3 digit walk, sign arms)
            ctx.undecided('C11.5-twin-helpers', h, 'one copy calls a module-local helper the other does not have; compared semantically by the ordering rules instead', ctx.where(Hb))
        else:
            diff = sorted(str(k) for k in ((bo - bb_) + (bb_ - bo)))[:4]
            ctx.bad('C11.5-twin-helpers', h, 'the copy in borrowed.rs performs different operations from the one in term.rs (%s): the two term types order some pair of numbers differently, '
                    'or one of the copies is wrong' % '; '.join(diff), ctx.where(Hb), key='TWIN:helper:%s' % h)

    # "the zero-copy type orders every pair as the owned type does": each comparator follows the recipes of the term order
    if not getattr(ctx, '_in_c12', False) and type(ctx).__name__ != 'SubCtx':
        ctx.rule('C11.5-order-recipes', 'both comparators follow the same recipe per kind of term - rank table, maps by size then all keys then all values, tuples by size first, lists element-wise, big integers by sign, length and '
                 'most significant digit, numbers by value (rules C12.1 - C12.5 re-run): a comparator that departs from the recipe in one of the two types orders some pair differently from the other', floor=20)
        from ..order import SubCtx as _Sub11
        from . import c12 as _c12
        _c12.run(_Sub11(ctx, 'C11.5-order-recipes', 'c12', allow=('C12.1-rank-table', 'C12.2-number-shapes', 'C12.2-nothing-narrowed', 'C12.3-bigint-digits', 'C12.3-bigint-signs', 'C12.4-map-recipe', 'C12.5-recipes', 'C12.5-zip-needs-length')))


def _show(r):
    if r['kind'] == 'const':
        return r['value']
    if r['kind'] == 'compares':
        return 'compares'
    return 'unknown'


def _norm_callee(n):
    if not n:
        return ''
    if n.startswith('<') and n.endswith('::cmp') and 'core::cmp::Ord' in n or n.startswith('core::cmp::impls::') and n.endswith('::cmp'):
        return 'std-cmp'
    if n.startswith('<') and n.endswith('::partial_cmp') or n.startswith('core::cmp::impls::') and n.endswith('::partial_cmp'):
        return 'std-partial_cmp'
    n = n.replace('erltf::term::', 'X::').replace('erltf::borrowed::', 'X::')
    n = n.replace('compare_owned_term_lists', 'compare_term_lists')
    n = n.replace("erltf::borrowed::BorrowedTerm<'a>", 'TERM').replace("X::BorrowedTerm<'a>", 'TERM').replace('X::OwnedTerm', 'TERM').replace("X::BorrowedTerm<'_>", 'TERM')
    import re
    n = re.sub(r'cmp::\{closure#\d+\}', 'cmp::{closure}', n)
    n = n.replace('alloc::borrow::Cow<', 'OWNED<').replace("'a, ", '').replace("'_, ", '')
    return n


_run_before_scope_rule = run


def run(ctx):
    _run_before_scope_rule(ctx)
    # the comparison of two terms depends on the two terms only: state a comparison keeps on the thread is put back on every way out
    from .c15 import scoped_thread_local_restored
    scoped_thread_local_restored(ctx, 'C11.7-scoped-state-restored')
