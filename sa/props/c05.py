"""C05 — framing is invariant under how the transport splits the byte stream.

Exact-read-only API on the read path, read results never discarded, cap test
dominates the body allocation in both readers, zero-length frame returns before
allocation, the four width tables agree per FrameMode, big-endian everywhere,
one-shot framer == streaming writer.
"""
from ..core import callee_of, callee_names, is_call_to, exclusive_blocks, fold, receiver_root, unwrap, root_fields
from ..ranges import Ranges, canon, INF
from ..families import describe
from ..wire import success_sequences, io_events, fmt_seq, prim_of, widths

FR = 'edp_client::framing::'
READ_FILES = ('crates/edp_client/src/framing.rs', 'crates/edp_client/src/transport.rs', 'crates/edp_client/src/connection.rs')
EXACT = ('read_exact', 'read_u8', 'read_u16', 'read_u32', 'read_u64', 'read_i32', 'read_u16_le', 'read_u32_le')
ARE = 'tokio::io::util::async_read_ext::AsyncReadExt::'
CAP_LIMIT = 1 << 30
# adaptors that pull more bytes from the underlying reader than the caller asked for
BUFFERING = ('BufReader', 'BufStream', 'FramedRead', 'Framed<', 'Lines', 'ReaderStream', 'LinesStream')


def read_calls(B):
    out = []
    for bb, t in B.calls():
        for n in callee_names(t):
            if n.startswith(ARE) or n.startswith('tokio::io::async_read::AsyncRead::') or n.startswith('std::io::Read::'):
                out.append((bb, t, n.rsplit('::', 1)[1]))
                break
    return out


def reader_identity(ctx, rule, B, bb, t, m, inst):
    """the read is issued on the caller's reader itself, not on an adaptor created inside the call"""
    root = receiver_root(B, t['args'][0])[0] if t['args'] else None
    if root is not None and root[0] == 'arg':
        ctx.ok(rule, inst, 'reads from the reader it was given (%s)' % describe(B, canon(B, t['args'][0])), ctx.where(B, bb))
    elif not any(w in (str(root) + ' ' + (t['aty'][0] if t.get('aty') else '')) for w in BUFFERING):
        ctx.undecided(rule, inst, 'the read is issued on %s, built inside this call; it is not one of the known read-ahead adaptors %s' % (describe(B, canon(B, t['args'][0])), list(BUFFERING)),
                      ctx.where(B, bb))
    else:
        ctx.bad(rule, inst, 'the read is issued on %s, an object built inside this call and dropped at its end: whatever it reads beyond the current frame '
                '(the next frame, when two arrive in one segment) is lost' % describe(B, canon(B, t['args'][0])), ctx.where(B, bb),
                key='WHO:%s:%s:local-reader' % (B.path, m))


AWE = 'tokio::io::util::async_write_ext::AsyncWriteExt::'
COMPLETE_WRITES = ('write_all', 'write_u8', 'write_u16', 'write_u32', 'write_u64', 'write_i32', 'write_all_buf', 'flush', 'shutdown')


def write_discipline(ctx, rule):
    """socket writes use only primitives that write everything they are given; an adaptor that buffers reads is never unwrapped"""
    P = ctx.P
    n = 0
    for B in P.all('edp_client'):
        if B.b['file'] not in READ_FILES:
            continue
        seen = {}
        for bb, t in B.calls():
            fn_items = [a['fn'] for a in t['args'] if a['k'] == 'c' and a.get('fn')]
            for nm in list(callee_names(t)) + fn_items:
                m = nm.rsplit('::', 1)[1]
                if nm.startswith(AWE) or nm.startswith('tokio::io::async_write::AsyncWrite::') or nm.startswith('std::io::Write::'):
                    n += 1
                    k = seen.get(m, 0) + 1
                    seen[m] = k
                    inst = '%s:%s%s' % (B.path, m, '' if k == 1 else '#%d' % k)
                    if m in COMPLETE_WRITES:
                        ctx.ok(rule, inst, 'complete-write primitive', ctx.where(B, bb))
                    else:
                        ctx.bad(rule, inst, 'partial-write API %s on the framing write path: the socket may accept only part of the data, and the hand-written continuation is then part of the frame logic '
                                '(a wrong offset there sends a frame whose length prefix does not match its bytes)' % m, ctx.where(B, bb), key='WHO:%s:%s' % (B.path, m))
                    break
                if ('BufReader' in nm or 'BufStream' in nm) and m in ('into_inner', 'into_parts', 'get_mut', 'get_pin_mut'):
                    n += 1
                    ctx.bad(rule, '%s:%s' % (B.path, m), '%s takes the raw reader out of a buffering adaptor: bytes the adaptor has already read from the socket (the next frame, when two arrived together) are dropped or bypassed'
                            % (nm.rsplit('::', 2)[-2] + '::' + m), ctx.where(B, bb), key='WHO:%s:unwraps-buffered-reader' % B.path)
                    break
    return n


def mode_regions(B):
    """blocks exclusive to each FrameMode variant of a `match self.mode`"""
    for i in sorted(B.live_blocks()):
        sd = B.switch_on_discr(i)
        if sd and sd[1].endswith('framing::FrameMode'):
            pl, ty, cases, els = sd
            targets = {v: b for v, b in cases}
            # two-variant enum: the else arm is the remaining variant
            starts = sorted(set(targets.values()) | {els})
            excl = exclusive_blocks(B, starts)
            return i, targets, els, excl
    return None


def transport_rules(ctx, RULE):
    """stream halves are dropped only by connect/close/take; every success path of a write really writes; no frame read is raced"""
    from ..wire import success_sequences
    P = ctx.P
    ctx.rule(RULE, 'the framed transport (a) gives up its stream halves only in connect (before a new stream is stored), close and take_read_half - a failed or timed-out read leaves the stream in place for the next read; '
             '(b) writes a frame on every successful return of write(), the empty frame included (a tick is a frame); (c) never polls a frame read together with another future in a select: '
             'read_exact is not cancellation safe, the bytes consumed so far would be lost and the rest of the frame read as new frames; (d) a timer around a socket read ends the operation when it fires, the read is never tried again on the same stream', floor=3)
    TR = 'edp_client::transport::FramedTransport::'
    allowed = ('connect', 'close', 'take_read_half', 'shutdown', 'disconnect', 'set_stream', 'new')
    n = 0
    for q in sorted(ctx.F.bodies):
        if 'edp_client::transport::' not in q:
            continue
        XB = P.B(q)
        base = q.split('::{')[0].rsplit('::', 1)[-1]
        for bb, j, st in XB.stmts():
            ps = st['pl'].get('p') or [] if st['k'] == '=' else []
            if ps and isinstance(ps[-1], dict) and ps[-1].get('n') in ('read_half', 'write_half'):
                n += 1
                if base in allowed:
                    ctx.ok(RULE, '%s:%s' % (base, ps[-1]['n']), 'assigned in %s' % base, ctx.where(XB, ln=st['ln']))
                else:
                    ctx.bad(RULE, '%s:%s' % (base, ps[-1]['n']), '%s assigns the transport\'s %s: after that every further read / write fails with "no active stream" although the peer did nothing wrong' % (base, ps[-1]['n']),
                            ctx.where(XB, ln=st['ln']), key='WHO:%s%s:writes-%s' % (TR, base, ps[-1]['n']))
        for bb, t in XB.calls():
            nm = callee_of(t)[0] or ''
            if nm.rsplit('::', 1)[-1] in ('take', 'replace') and t['args'] and any(x in str(canon(XB, t['args'][0])) for x in ("'read_half'", "'write_half'")):
                n += 1
                if base in allowed:
                    ctx.ok(RULE, '%s:take' % base, 'stream half handed over in %s' % base, ctx.where(XB, bb))
                else:
                    ctx.bad(RULE, '%s:take' % base, '%s takes a stream half out of the transport' % base, ctx.where(XB, bb), key='WHO:%s%s:takes-stream-half' % (TR, base))
    # (b) write() writes
    WB = P.B(TR + 'write::{closure#0}')
    if ctx.anchor(WB is not None, TR + 'write'):
        def ev(B_, bb):
            t = B_.blocks[bb]['t']
            if t['k'] == 'call' and any(('write' in (x or '').rsplit('::', 1)[-1] or 'frame' in (x or '').rsplit('::', 1)[-1]) and 'tracing' not in (x or '') for x in callee_names(t)):
                return [('w', bb)]
            return []
        seqs, trunc = success_sequences(WB, ev)
        n += 1
        if any(not s_ for s_ in seqs):
            ctx.bad(RULE, 'write:always', 'FramedTransport::write has a successful return on which nothing is written: the message (a tick, if it is empty) never reaches the wire although the caller is told it did',
                    ctx.where(WB), key='WIRE:%swrite:success-path-writes-nothing' % TR)
        else:
            ctx.ok(RULE, 'write:always', 'every successful return of write() has passed the frame write', ctx.where(WB))
    # (c) no select around a frame read
    for q in sorted(ctx.F.bodies):
        if not (q.startswith('edp_client::connection::Connection::receive') or q.startswith('edp_client::connection::Connection::read_message') or 'edp_client::transport::' in q or 'edp_client::framing::' in q):
            continue
        XB = P.B(q)
        for bb, t in XB.calls():
            nm = callee_of(t)[0] or ''
            if 'tokio::macros::support::poll_fn' in nm or nm.endswith('future::poll_fn::poll_fn') or 'futures_util::future::select' in nm or 'tokio::macros::support::thread_rng_n' in nm:
                n += 1
                ctx.bad(RULE, '%s:select' % q.split('::{')[0].rsplit('::', 1)[-1], 'a frame read is polled inside a select together with another future: when the other one wins, the partly read frame is dropped and the stream is out of step',
                        ctx.where(XB, bb), key='LOOP:%s:frame-read-in-select' % q.split('::{')[0])
    # (e) bytes buffered for one stream do not meet the next one
    tadt = ctx.F.adts.get('edp_client::transport::FramedTransport')
    bufs = [f['n'] for v in (tadt or {}).get('variants', []) for f in v.get('fields', []) if any(x in str(f.get('ty')) for x in ('BytesMut', 'Vec<u8>', 'VecDeque<u8>'))]
    if not bufs:
        ctx.ok(RULE, 'stream-buffers', 'the transport keeps no byte buffer of its own between calls')
    for fld in bufs:
        for q in sorted(ctx.F.bodies):
            if 'edp_client::transport::' not in q or ctx.F.bodies[q]['kind'] not in ('Fn', 'AssocFn', 'Closure'):
                continue
            XB = P.B(q)
            swaps = [bb for bb, j, st in XB.stmts() if st['k'] == '=' and (st['pl'].get('p') or []) and isinstance(st['pl']['p'][-1], dict) and st['pl']['p'][-1].get('n') in ('read_half', 'write_half')
                     and bb in XB.live_blocks()]
            if not swaps:
                continue
            resets = [bb for bb, t in XB.calls() if (callee_of(t)[0] or '').rsplit('::', 1)[-1] in ('clear', 'truncate', 'split', 'split_off', 'take', 'replace') and t['args'] and fld in root_fields(XB, t['args'][0])]
            resets += [bb for bb, j, st in XB.stmts() if st['k'] == '=' and (st['pl'].get('p') or []) and isinstance(st['pl']['p'][-1], dict) and st['pl']['p'][-1].get('n') == fld]
            base = q.split('::{')[0].rsplit('::', 1)[-1]
            n += 1
            if resets:
                ctx.ok(RULE, '%s:%s' % (base, fld), 'the buffer is emptied where the stream is replaced', ctx.where(XB, resets[0]))
            else:
                ctx.bad(RULE, '%s:%s' % (base, fld), '%s replaces or drops the stream but leaves the bytes buffered in `%s`: what a previous peer sent (or what was staged for it) is taken for the start of the next connection\'s traffic'
                        % (base, fld), ctx.where(XB, swaps[0]), key='PAIR:%s%s:%s-survives-stream' % (TR, base, fld))
    # (d) a timer around a socket read ends the read: the read is never tried again after the timer fired
    def _reads_socket(name):
        if 'AsyncReadExt::read' in name or 'io::util::read_exact' in name or name.endswith('::read_framed'):
            return True
        roots = [r for r in (name, name + '::{closure#0}') if r in ctx.F.bodies]
        for r in P.reachable_from(roots):
            RB = P.B(r)
            if RB is not None and any(any('AsyncReadExt::read' in x for x in callee_names(t2)) for b2, t2 in RB.calls()):
                return True
        return False
    n_t = 0
    for q in sorted(ctx.F.bodies):
        if ctx.F.bodies[q]['crate'] != 'edp_client' or ctx.F.bodies[q]['kind'] not in ('Fn', 'AssocFn', 'Closure'):
            continue
        XB = P.B(q)
        live = XB.live_blocks()
        for bb, t in XB.calls():
            if bb not in live or not any(x.startswith('tokio::time::timeout::timeout') or x == 'tokio::time::timeout' or x.startswith('tokio::time::timeout_at') for x in callee_names(t)) or len(t['args']) < 2:
                continue
            fty = (t.get('aty') or ['', ''])[1]
            o = unwrap(XB.origin(t['args'][1]))[0]
            src = o[1] if o and o[0] == 'call' and isinstance(o[1], str) else None
            if o and o[0] == 'agg' and isinstance(o[1], dict) and o[1].get('ak') == 'coroutine':
                src = o[1].get('def')         # the async fn was spliced in: what is left of the call is its future being built
            if not (('ReadExact' in fty or 'io::util::read' in fty) or (src and _reads_socket(src))):
                continue
            n_t += 1
            inst = '%s:timeout(%s)' % (q.split('::{')[0].rsplit('::', 1)[-1], (src or fty).rsplit('::', 1)[-1][:40])
            # where the Elapsed outcome goes
            el = [l for l in range(len(XB.b['locals'])) if XB.local_ty(l).startswith('core::result::Result<') and XB.local_ty(l).endswith('tokio::time::error::Elapsed>')]
            arms, unknown = set(), None
            conv = set()
            for cb, ct in XB.calls():
                if cb not in live or not ct['args'] or not any(l in el for l in XB._op_locals(ct['args'][0])):
                    continue
                last = (callee_of(ct)[0] or '').rsplit('::', 1)[-1]
                if last in ('map_err', 'or_else') and not ct['dst'].get('p'):
                    conv.add(ct['dst']['l'])
                elif last in ('drop', 'drop_in_place', 'fmt'):
                    pass
                else:
                    unknown = (cb, last)
            conv |= XB.derived_locals(sorted(conv)) if conv else set()
            for sb in sorted(live):
                sd = XB.switch_on_discr(sb)
                if not sd:
                    continue
                l0 = sd[0]['l']
                if l0 in el and not sd[0].get('p'):
                    arms.update(b_ for v_, b_ in sd[2] if v_ == 1)
                    if not any(v_ == 1 for v_, b_ in sd[2]):
                        arms.add(sd[3])
                elif l0 in conv and not sd[0].get('p') and (sd[1].startswith('core::ops::control_flow::ControlFlow<') or sd[1].startswith('core::result::Result<')):
                    arms.update(b_ for v_, b_ in sd[2] if v_ == 1)
            again = [a for a in sorted(arms) if bb in XB.reachable(a)]
            if again:
                ctx.bad(RULE, inst, 'after the timer around this socket read has fired, control can come back to the same read: the read that was abandoned had already taken bytes of the frame from the stream (read_exact is not '
                        'cancellation safe), the next one starts in the middle of it - this frame and every later one are lost', ctx.where(XB, bb), key='LOOP:%s:read-retried-after-timeout' % q.split('::{')[0])
            elif unknown is not None or not arms:
                ctx.undecided(RULE, inst, 'could not follow where the Elapsed outcome of the timer goes (%s)' % (unknown,), ctx.where(XB, bb))
            else:
                ctx.ok(RULE, inst, 'when the timer fires the operation ends (the Elapsed arm never leads back to the read)', ctx.where(XB, bb))
    ctx.anchor(n_t >= 1, 'timers around socket reads (FramedTransport::read, receive_message_from_read_half x2)')
    return n + n_t


def run(ctx):
    P = ctx.P
    # ---- clause 1: only exact-read primitives on the read path ------------------
    ctx.rule('C05.1-exact-reads', 'socket reads in framing.rs / transport.rs / connection.rs use only exact-read primitives (read_exact, read_uN); short-read APIs do not occur', floor=3)
    ctx.rule('C05.1-reader-identity', 'every socket read is issued on the reader the function was given (a parameter or a field of self), never on a buffering adaptor created per call', floor=4)
    ctx.rule('C05.2-read-result-used', 'the result of every exact read is inspected (?-propagated or matched), never discarded: end-of-stream inside a frame is an error', floor=3)
    n = 0
    for B in P.all('edp_client'):
        if B.b['file'] not in READ_FILES:
            continue
        seen = {}
        for bb, t, m in read_calls(B):
            n += 1
            k = seen.get(m, 0) + 1
            seen[m] = k
            inst = '%s:%s%s' % (B.path, m, '' if k == 1 else '#%d' % k)
            if m in EXACT:
                ctx.ok('C05.1-exact-reads', inst, 'exact-read primitive', ctx.where(B, bb))
            else:
                ctx.bad('C05.1-exact-reads', inst, 'short-read API %s on the framing read path: a frame may be returned partially filled' % m, ctx.where(B, bb),
                        key='WHO:%s:%s' % (B.path, m))
            reader_identity(ctx, 'C05.1-reader-identity', B, bb, t, m, inst)
            # clause 2: result flows into a Try::branch / a discriminant switch
            d = B.derived_locals([t['dst']['l']])
            used = False
            for b2, t2 in B.calls():
                if callee_of(t2)[0] == 'core::ops::try_trait::Try::branch' and any(l in d for l in B._op_locals(t2['args'][0])):
                    # the branch must concern the io::Result (not just the outer timeout result): accept any
                    used = True
            if not used:
                for b2, j2, st2 in B.stmts():
                    if st2['k'] == '=' and st2['rv']['k'] == 'discr' and st2['rv']['pl']['l'] in d and 'Result' in st2['rv']['ty'] and 'Poll' not in st2['rv']['ty']:
                        used = True
            if used:
                ctx.ok('C05.2-read-result-used', inst, 'result reaches a ?/match', ctx.where(B, bb))
            else:
                ctx.bad('C05.2-read-result-used', inst, 'result of the read is never inspected: a short stream would be treated as data', ctx.where(B, bb),
                        key='ERRDISC:%s:%s' % (B.path, m))

    # the frame handed back was read in this call
    ctx.rule('C05.2-frame-buffer-fresh', 'the buffer a frame body is read into is created in the same call, or - when it outlives the call (a caller\'s buffer, a field) - emptied on every successful way out before anything is '
             'read into it: a zero-length frame (tick) or any other early success must not leave the previous frame in it', floor=2)
    n_fb = 0
    for B in P.all('edp_client'):
        if B.b['file'] not in READ_FILES:
            continue
        bodies_ = []
        for bb, t, m in read_calls(B):
            if m != 'read_exact' or len(t['args']) < 2:
                continue
            n_fb += 1
            o = unwrap(B.origin(t['args'][1]))[0]
            ty_ = (t.get('aty') or ['', ''])[1]
            persistent = o is not None and o[0] == 'arg'      # a parameter, a captured variable or a field of self: it was there before this call
            if not persistent:
                ctx.ok('C05.2-frame-buffer-fresh', '%s:read_exact@%s' % (B.path, describe(B, canon(B, t['args'][1]))[:40]), 'reads into a buffer of this call (or a fixed-size prefix array)', ctx.where(B, bb))
                continue
            bodies_.append((bb, t))
        if not bodies_:
            continue
        fills = set(bb for bb, t in bodies_)

        def ev(B_, bb_):
            t_ = B_.blocks[bb_]['t']
            if bb_ in fills:
                return [('f', bb_)]
            if t_['k'] == 'call' and (callee_of(t_)[0] or '').rsplit('::', 1)[-1] in ('clear', 'truncate') and 'Vec' in (callee_of(t_)[0] or ''):
                return [('c', bb_)]
            return []
        seqs, trunc = success_sequences(B, ev)
        stale = [s_ for s_ in seqs if not [e for e in s_ if e[0] == 'c'] or [e[0] for e in s_ if e[0] in ('c', 'f')][:1] == ['f']]
        inst = '%s:persistent-buffer' % B.path
        if stale:
            ctx.bad('C05.2-frame-buffer-fresh', inst, '%s reads frame bodies into a buffer that outlives the call and has a successful return on which that buffer is not emptied first (a zero-length frame, for one): '
                    'the caller is handed the previous frame again' % B.path.split('::{')[0].rsplit('::', 1)[-1], ctx.where(B, sorted(fills)[0]), key='SHAPE:%s:stale-frame-buffer' % B.path.split('::{')[0])
        else:
            ctx.ok('C05.2-frame-buffer-fresh', inst, 'every successful return has emptied the buffer before reading into it', ctx.where(B, sorted(fills)[0]))
    ctx.anchor(n_fb >= 1, 'read_exact of frame bodies / prefixes in the reader files')

    ctx.rule('C05.7-write-discipline', 'socket writes in framing.rs / transport.rs / connection.rs use only complete-write primitives (write_all, write_uN, flush); no partial-write API with a hand-written continuation; '
             'a buffering read adaptor is never unwrapped (into_inner) on the read path', floor=6)
    write_discipline(ctx, 'C05.7-write-discipline')

    # ---- clause 3/5: cap before allocation, zero-length before allocation ---------------
    ctx.rule('C05.3-cap-before-alloc', 'in both frame readers the body buffer allocation is dominated by a guard bounding the wire length by a constant cap', floor=2)
    ctx.rule('C05.5-tick-before-alloc', 'a zero length is handled before the allocation (allocation only with len >= 1), and read_framed returns an empty message for it', floor=2)
    readers = [FR + 'MessageDeframer::read_framed::{closure#0}', 'edp_client::connection::Connection::receive_message_from_read_half::{closure#0}']
    caps = {}
    for path in readers:
        B = ctx.body(path)
        if B is None:
            continue
        R = Ranges(B)
        RESERVE = ('reserve', 'reserve_exact', 'try_reserve', 'try_reserve_exact', 'resize', 'resize_with')
        allocs = [(bb, t) for bb, t in B.calls() if is_call_to(t, 'alloc::vec::from_elem') or is_call_to(t, 'with_capacity')
                  or ((callee_of(t)[0] or '').rsplit('::', 1)[-1] in RESERVE and ('Vec' in (callee_of(t)[0] or '') or 'BytesMut' in (callee_of(t)[0] or '')))]
        allocs = [(bb, t) for bb, t in allocs if 'u8' in B.local_ty(t['dst']['l']) or (callee_of(t)[0] or '').rsplit('::', 1)[-1] in RESERVE]
        if not ctx.anchor(len(allocs) >= 1, path + ':body-allocation'):
            continue
        for bb, t in allocs:
            last_ = (callee_of(t)[0] or '').rsplit('::', 1)[-1]
            szop = t['args'][1] if (is_call_to(t, 'alloc::vec::from_elem') or last_ in RESERVE) and len(t['args']) > 1 else t['args'][-1]
            rng = R.range_of(szop, bb)
            inst = path.split('::')[-2]
            if rng[1] <= CAP_LIMIT:
                caps[inst] = rng[1]
                ctx.ok('C05.3-cap-before-alloc', inst, 'allocation size bounded by %d at the allocation site' % rng[1], ctx.where(B, bb))
            else:
                ctx.bad('C05.3-cap-before-alloc', inst, 'buffer of wire-declared size allocated without a dominating cap test (size range [%s, %s])' % rng, ctx.where(B, bb),
                        key='DOM:%s:alloc-before-cap' % path)
            if rng[0] >= 1:
                ctx.ok('C05.5-tick-before-alloc', inst, 'len >= 1 at the allocation', ctx.where(B, bb))
            else:
                # not a violation by itself: a 0-byte allocation + 0-byte exact read still yields an empty message
                ctx.undecided('C05.5-tick-before-alloc', inst, 'zero length reaches the allocation; an empty message results only if the 0-byte read succeeds', ctx.where(B, bb))
    if len(caps) == 2 and len(set(caps.values())) > 1:
        ctx.info_note('the two frame readers use different caps: %s' % caps)
    # read_framed returns Ok(empty) on len == 0
    B = P.B(readers[0])
    if B is not None:
        found = False
        for bb in sorted(B.live_blocks()):
            sb = B.switch_bool_edges(bb)
            if not sb:
                continue
            source, t_t, f_t = sb
            if source[0] == 'bin' and source[2]['op'] == 'Eq' and fold(B.origin(source[2]['b'])) == 0:
                # true edge region: constructs Ok(Vec::new()) and returns without reading
                reg = B.reachable(t_t) - B.reachable(f_t)
                news = [b for b in reg if is_call_to(B.blocks[b]['t'], 'alloc::vec::Vec::<T>::new') or is_call_to(B.blocks[b]['t'], 'Vec::<T>::new')]
                reads = [b for b in reg if read_calls_in_block(B, b)]
                if news and not reads:
                    found = True
        if not found:
            ctx.undecided('C05.5-tick-before-alloc', 'read_framed:empty', 'no explicit `len == 0 -> Ok(empty)` return; relies on the 0-byte read path', ctx.where(B))
        elif found:
            ctx.ok('C05.5-tick-before-alloc', 'read_framed:empty', 'len == 0 returns Ok(Vec::new()) without reading a body', ctx.where(B))
        else:
            ctx.bad('C05.5-tick-before-alloc', 'read_framed:empty', 'no `len == 0 -> Ok(empty)` return found', ctx.where(B), key='DOM:read_framed:no-empty-return')

    # second reader: 4-byte prefix converted big-endian
    B2 = P.B(readers[1])
    if B2 is not None:
        conv = [n for bb, t in B2.calls() for n in callee_names(t) if n.endswith('from_be_bytes') or n.endswith('from_le_bytes') or n.endswith('from_ne_bytes')]
        first = [x for x in read_calls(B2)]
        from ..wire import _len_of
        plen = _len_of(B2, first[0][1]['args'][1]) if first else None
        ctx.rule('C05.4-second-reader', 'receive_message_from_read_half reads a 4-byte prefix and converts it big-endian', floor=1)
        if plen == 4 and conv and all(c.endswith('from_be_bytes') for c in conv) and 'u32' in conv[0]:
            ctx.ok('C05.4-second-reader', 'prefix', '4 bytes, u32::from_be_bytes', ctx.where(B2))
        else:
            ctx.bad('C05.4-second-reader', 'prefix', 'prefix is %s bytes converted with %s' % (plen, conv), ctx.where(B2), key='TABLE:framing:receive_message_from_read_half:prefix')

    # ---- clause 4: width tables per mode ---------------------------------------------------
    ctx.rule('C05.4-width-tables', 'per FrameMode the prefix width agrees across length_prefix_size, frame_message, write_framed and read_framed (Handshake 2 bytes, Distribution 4 bytes, big-endian)', floor=5)
    tables = {}
    adt = ctx.F.adts.get(FR + 'FrameMode')
    if not ctx.anchor(adt is not None, FR + 'FrameMode'):
        return
    vnames = [v['n'] for v in adt['variants']]
    fns = {
        'length_prefix_size': FR + 'FrameMode::length_prefix_size',
        'frame_message': FR + 'MessageFramer::frame_message',
        'write_framed': FR + 'MessageFramer::write_framed::{closure#0}',
        'read_framed': FR + 'MessageDeframer::read_framed::{closure#0}',
    }
    for name, path in fns.items():
        B = ctx.body(path)
        if B is None:
            continue
        mr = mode_regions(B)
        if mr is None:
            uses_table = any(is_call_to(t, FR + 'FrameMode::length_prefix_size') for bb, t in B.calls())
            if uses_table:
                ctx.ok('C05.4-width-tables', name + ':delegates', 'no per-mode branch: the width comes from length_prefix_size (checked above)', ctx.where(B))
            else:
                ctx.undecided('C05.4-width-tables', name, 'no `match mode` and no use of length_prefix_size: prefix width selection not recognised', ctx.where(B))
            continue
        sw, targets, els, excl = mr
        per = {}
        for vi, vn in enumerate(vnames):
            start = targets.get(vi, els)
            blocks = excl[start]
            if name == 'length_prefix_size':
                vals = set()
                for b in blocks:
                    for st in B.blocks[b]['s']:
                        if st['k'] == '=' and st['pl']['l'] == 0 and st['rv']['k'] == 'use' and 'v' in st['rv']['op']:
                            vals.add(st['rv']['op']['v'])
                per[vn] = ('size', tuple(sorted(vals)))
            else:
                evs = []
                be = False
                for b in sorted(blocks):
                    evs += io_events(B, b, detail=False)
                    if is_call_to(B.blocks[b]['t'], 'from_be_bytes'):
                        be = True
                    if is_call_to(B.blocks[b]['t'], 'from_le_bytes') or is_call_to(B.blocks[b]['t'], 'from_ne_bytes'):
                        be = 'wrong'
                if not evs:
                    # the arm only picks a value of another enum (a "prefix kind") that a later match turns into the read / write:
                    # the region of this mode is then the arm of that later match for the variant built here
                    lits = [st['rv'] for b in sorted(blocks) for st in B.blocks[b]['s'] if st['k'] == '=' and st['rv']['k'] == 'agg' and st['rv'].get('ak') == 'adt' and 'vi' in st['rv']
                            and str(st['rv'].get('adt', '')).startswith('edp_client::')]
                    if len(lits) == 1:
                        for sb2 in sorted(B.live_blocks()):
                            sd2 = B.switch_on_discr(sb2)
                            if sd2 and sd2[1].replace('&', '') == lits[0]['adt'] and sb2 not in blocks:
                                t2 = {v: b for v, b in sd2[2]}
                                starts2 = sorted(set(t2.values()) | {sd2[3]})
                                ex2 = exclusive_blocks(B, starts2)
                                for b in sorted(ex2.get(t2.get(lits[0]['vi'], sd2[3]), ())):
                                    evs += io_events(B, b, detail=False)
                                break
                per[vn] = ('io', tuple(e[1:2] + ((e[2],) if e[1] == 'bytes' else ()) for e in evs), be)
        tables[name] = per
    want = {'Handshake': 2, 'Distribution': 4}
    W = {'u16': 2, 'u32': 4, 'u8': 1, 'u64': 8}
    for name, per in tables.items():
        for vn, ent in per.items():
            inst = '%s:%s' % (name, vn)
            w = None
            detail = str(ent)
            if ent[0] == 'size':
                w = ent[1][0] if len(ent[1]) == 1 else None
            else:
                evs = ent[1]
                if len(evs) == 1 and evs[0][0] in W:
                    w = W[evs[0][0]]
                elif len(evs) == 1 and evs[0][0] == 'bytes' and isinstance(evs[0][1], int):
                    w = evs[0][1]
                    if ent[2] is not True:
                        ctx.bad('C05.4-width-tables', inst + ':endianness', 'raw %d-byte prefix not converted with from_be_bytes' % w, key='TABLE:framing:%s:endianness' % inst)
                        continue
                elif any(e[0].endswith('le') for e in evs):
                    w = None
                    detail = 'little-endian primitive'
            if vn not in want:
                ctx.undecided('C05.4-width-tables', inst, 'frame mode not in the protocol table')
            elif w == want[vn]:
                ctx.ok('C05.4-width-tables', inst, '%d-byte big-endian prefix' % w)
            else:
                ctx.bad('C05.4-width-tables', inst, 'prefix width %s, expected %d for %s mode (%s)' % (w, want[vn], vn, detail), key='TABLE:framing:%s' % inst)

    # writers accept every message that fits the prefix
    ctx.rule('C05.6-accepts-all-that-fit', 'no guard in a frame writer refuses a message whose length the prefix can express: at the site that writes an N-bit prefix the admissible length range reaches 2^N - 1', floor=2)
    for name in ('frame_message', 'write_framed'):
        B = P.B(fns[name])
        if B is None:
            continue
        R = Ranges(B)
        seen = {}
        for bb, j, st in B.stmts():
            if st['k'] == '=' and st['rv']['k'] == 'cast' and st['rv']['ck'] == 'IntToInt' and st['rv']['to'] in ('u16', 'u32') and st['rv']['from'] == 'usize':
                c = canon(B, st['rv']['op'])
                if c[0] != 'len':
                    continue
                rng = R.range_of(st['rv']['op'], bb)
                top = (1 << (16 if st['rv']['to'] == 'u16' else 32)) - 1
                k = seen.get(st['rv']['to'], 0) + 1
                seen[st['rv']['to']] = k
                inst = '%s:%s-prefix' % (name, st['rv']['to'])
                if rng[1] >= top:
                    ctx.ok('C05.6-accepts-all-that-fit', inst, 'lengths up to %d reach the prefix write' % top, ctx.where(B, ln=st['ln']))
                else:
                    ctx.bad('C05.6-accepts-all-that-fit', inst, 'a guard limits the length to %s before the %s prefix is written: messages of %s..%d bytes fit the prefix but are refused (the one-shot and the streaming writer then disagree)' % (
                        rng[1], st['rv']['to'], rng[1] + 1, top), ctx.where(B, ln=st['ln']), key='DOM:framing:%s:refuses-fitting-length' % inst)

    # one-shot framer == streaming writer: prefix then body and nothing else
    ctx.rule('C05.4-writers-equal', 'frame_message and write_framed write prefix(len(data)) then data and nothing else, identically', floor=2)
    sigs = {}
    for name in ('frame_message', 'write_framed'):
        B = P.B(fns[name])
        if B is None:
            continue
        seqs, _ = success_sequences(B, lambda B, bb: io_events(B, bb))
        norm = set()
        for s in seqs:
            norm.add(tuple((e[1], _norm_val(e[2])) for e in s))
        sigs[name] = norm
        good = all(len(s) == 2 and s[0][0] in ('u16', 'u32') and s[0][1] == 'len(data)' and s[1] == ('bytes', 'data') for s in norm) and len(norm) == 2
        if good:
            ctx.ok('C05.4-writers-equal', name, ' | '.join(sorted('%s(%s) %s(%s)' % (s[0][0], s[0][1], s[1][0], s[1][1]) for s in norm)), ctx.where(B))
        else:
            ctx.bad('C05.4-writers-equal', name, 'writer layouts are not {u16(len) data, u32(len) data}: %s' % sorted(norm), ctx.where(B), key='WIRE:framing:%s' % name)
    if len(sigs) == 2 and sigs['frame_message'] != sigs['write_framed']:
        ctx.bad('C05.4-writers-equal', 'agree', 'one-shot and streaming writers differ: %s vs %s' % (sorted(sigs['frame_message']), sorted(sigs['write_framed'])),
                key='WIRE:framing:writers-differ')

    from ..families import check_error_swallow as _swallow
    ctx.rule('C05.8-errors-surface', 'in the functions of this property that can themselves report failure, the Result of one of the repository\'s own fallible functions is never turned into "nothing" or a default (ok(), unwrap_or*, map_or*): an error must surface as an error, not as a value the callee never produced; a rule about what must not be there (exercised on the fixture every run)', floor=0)
    _swallow(ctx, P, 'C05.8-errors-surface', ('edp_client::framing::', 'edp_client::transport::'))

    # the transport keeps its stream until it is closed: a read that fails or times out leaves the next read possible
    transport_rules(ctx, 'C05.9-transport-discipline')


def read_calls_in_block(B, b):
    t = B.blocks[b]['t']
    if t['k'] != 'call':
        return False
    return any(n.startswith(ARE) for n in callee_names(t))


def _norm_val(v):
    """normalise `(len(x) as u16)` / `len(arg1.2)` -> len(data); `arg1.2`/`data` -> data"""
    import re
    if v is None:
        return None
    s = str(v)
    s = re.sub(r'\((.*) as u(16|32)\)', r'\1', s)
    s = re.sub(r'arg1\.\d+|_task_context\.\d+', 'data', s)
    s = s.replace('len(data)', 'len(data)')
    if s.startswith('len('):
        return 'len(data)'
    if s in ('data',):
        return 'data'
    return s
