"""C10 — identifiers received from a peer are re-emitted byte-for-byte.

PROV: capture of the raw node-local bytes in parse_local_ext; WIRE: replay on encode;
FIELDSET: Eq / Hash / Ord of the identifier types read the logical fields only and the
same set; WHO/PROV: no identifier is rebuilt from the fields of another one.
"""
from ..core import callee_of, callee_names, is_call_to, unwrap, fold
from ..ranges import canon
from ..families import fields_touched, describe, bodies_of_fn, check_self_compare
from ..etf import DEC, ENC, OWNED, BORROWED, writer_paths

TYPES = {'Pid': 'erltf::types::ExternalPid', 'Port': 'erltf::types::ExternalPort', 'Reference': 'erltf::types::ExternalReference'}
RAW = 'local_ext_bytes'


def _raw_option(B, pl):
    """the place is an Option derived from the raw-bytes field through as_ref / as_deref / copies (`x.local_ext_bytes.as_deref()`)"""
    from ..families import operand_chain
    from ..core import root_fields
    op = {'k': 'cp', 'pl': {'l': pl['l'], 'p': None}}
    try:
        return RAW in root_fields(B, op)
    except Exception:
        return False


ID_TAGS_ALL = {88, 103, 89, 102, 120, 90, 114, 101}


def run(ctx):
    P = ctx.P
    # ---------------- clause 1: capture ------------------------------------------------------------
    ctx.rule('C10.1-capture', 'parse_local_ext gives a nested pid/port/reference the raw bytes of this very LOCAL_EXT, start[..len(start) - len(what is left after the nested term)] '
             '(written as 8 + consumed-by-the-nested-term or directly), either by rebuilding it with with_local_ext_bytes or by storing into its local_ext_bytes field', floor=3)
    B = ctx.body(DEC + 'parse_local_ext')

    def _lin(c, depth=0):
        """linear form {L: a, R: b, 1: k} of a length expression; L = len(start), R = len(rest after the nested term)"""
        if depth > 12:
            return None
        if c[0] == 'const' and isinstance(c[1], int):
            return {'1': c[1]}
        if c[0] == 'len':
            x = c[1]
            if x == ('arg', 1):
                return {'L': 1}
            sx = str(x)
            if x[0] == 'place' and x[2] == ('0',) and x[1][0] == 'payload' and x[1][1][0] == 'call':
                if x[1][1][1].endswith('be_u64'):
                    return {'L': 1, '1': -8}
                if x[1][1][1].endswith('parse_term'):
                    return {'R': 1}
            return None
        if c[0] == 'bin' and c[1] in ('Add', 'Sub'):
            a, b_ = _lin(c[2], depth + 1), _lin(c[3], depth + 1)
            if a is None or b_ is None:
                return None
            sg = 1 if c[1] == 'Add' else -1
            out = dict(a)
            for k_, v_ in b_.items():
                out[k_] = out.get(k_, 0) + sg * v_
            return {k_: v_ for k_, v_ in out.items() if v_ != 0}
        return None

    def _raw_ok(XB, op, at=None, depth=0):
        """(is start[..L-R], description)"""
        # a value with several definitions reaching this place (the copies jump threading makes of one statement): every one of them must qualify
        if op.get('k') in ('cp', 'mv') and not op['pl'].get('p') and at is not None and depth < 4:
            ds_ = XB.reaching_defs(op['pl']['l'], at)
            if len(ds_) > 1 and all(d_[0] == 's' for d_ in ds_):
                res = []
                for d_ in ds_:
                    rv_ = d_[3]['rv']
                    if rv_['k'] == 'agg' and rv_.get('var') == 'Some' and rv_.get('ops'):
                        res.append(_raw_ok(XB, rv_['ops'][0], (d_[1], d_[2]), depth + 1))
                    elif rv_['k'] == 'use':
                        res.append(_raw_ok(XB, rv_['op'], (d_[1], d_[2]), depth + 1))
                    else:
                        res.append((False, 'definition of another kind'))
                bad_ = [r_ for r_ in res if not r_[0]]
                return (not bad_), (bad_[0][1] if bad_ else res[0][1])
        cur = XB.origin(op, at=at)
        for _ in range(6):
            if cur[0] == 'agg' and cur[1].get('var') == 'Some' and cur[1].get('ops'):
                cur = XB.origin(cur[1]['ops'][0])
                continue
            if cur[0] == 'call' and cur[1] and (cur[1].endswith('to_vec') or 'from' in cur[1] or 'copy_from_slice' in cur[1] or cur[1].endswith('::into')):
                cur = XB.origin(XB.blocks[cur[2]]['t']['args'][0])
                continue
            break
        if cur[0] == 'call' and cur[1] and cur[1].endswith('::index'):
            it = XB.blocks[cur[2]]['t']
            base = XB.origin(it['args'][0])
            ro = XB.origin(it['args'][1])
            if base == ('arg', 1, ()) and ro[0] == 'agg' and ro[1].get('adt', '').endswith('RangeTo'):
                endc = canon(XB, ro[1]['ops'][0])
                return _lin(endc) == {'L': 1, 'R': -1}, describe(XB, endc)
        return False, str(cur)[:160]
    if B is not None:
        # in-place form: stores into the local_ext_bytes field of the nested identifier (directly or through a &mut handed around)
        stores = {}
        for bb, j, st in B.stmts():
            if st['k'] != '=' or not st['pl'].get('p'):
                continue
            ps = st['pl']['p']
            tgts = []
            if isinstance(ps[-1], dict) and ps[-1].get('n') == 'local_ext_bytes':
                tgts = [st['pl']]
            elif ps == ['*']:
                tgts = [x for x in B.ref_targets({'l': st['pl']['l'], 'p': []}, (bb, j)) if x is not None]
            for tg in tgts:
                last = (tg.get('p') or [None])[-1]
                if isinstance(last, dict) and last.get('n') == 'local_ext_bytes':
                    for var, ty in TYPES.items():
                        if last.get('adt') == ty:
                            stores.setdefault(var, []).append((bb, st))
        for var, ty in TYPES.items():
            calls = [(bb, t) for bb, t in B.calls() if is_call_to(t, ty + '::with_local_ext_bytes')]
            inst = var
            # struct-literal form: `ExternalPid { local_ext_bytes: Some(raw), ..pid }`
            lits = [(bb, j, st) for bb, j, st in B.stmts() if st['k'] == '=' and st['rv']['k'] == 'agg' and st['rv'].get('adt') == ty and 'local_ext_bytes' in (st['rv'].get('fn') or [])]
            if not calls and var not in stores and lits:
                bb, j, st = lits[0]
                fn_ = st['rv']['fn']
                good, detail = _raw_ok(B, st['rv']['ops'][fn_.index('local_ext_bytes')], (bb, j))
                carried = True
                for k_, a in enumerate(st['rv']['ops']):
                    if fn_[k_] == 'local_ext_bytes':
                        continue
                    base, projs = unwrap(B.origin(a, at=(bb, j)))
                    if not (base is not None and base[0] == 'call' and base[1] and base[1].endswith('parse_term') and fn_[k_] in [str(p_) for p_ in projs]):
                        carried = False
                if good and carried:
                    ctx.ok('C10.1-capture', inst, '%s { local_ext_bytes: Some(start[..len(start) - len(rest)]), ..<the nested %s> }' % (ty.rsplit('::', 1)[1], var.lower()), ctx.where(B, bb))
                else:
                    ctx.bad('C10.1-capture', inst, 'raw bytes are not start[..everything consumed by this LOCAL_EXT] / a field is not carried over from the same field of the nested term (%s)' % detail, ctx.where(B, bb),
                            key='PROV:%sparse_local_ext:%s:capture' % (DEC, var))
                continue
            if not calls and var in stores:
                bb, st = stores[var][0]
                good, detail = _raw_ok(B, st['rv']['op'], (bb, None)) if st['rv']['k'] == 'use' else (_raw_ok(B, st['rv']['ops'][0], (bb, None)) if st['rv']['k'] == 'agg' and st['rv'].get('var') == 'Some' and st['rv'].get('ops') else (False, 'not a Some(..)'))
                if good:
                    ctx.ok('C10.1-capture', inst, 'the nested %s keeps its fields and gets local_ext_bytes = Some(start[..len(start) - len(rest)])' % var.lower(), ctx.where(B, bb))
                else:
                    ctx.bad('C10.1-capture', inst, 'raw bytes stored into the nested %s are not start[..everything consumed by this LOCAL_EXT] (%s)' % (var.lower(), detail), ctx.where(B, bb),
                            key='PROV:%sparse_local_ext:%s:capture' % (DEC, var))
                continue
            if not calls:
                ctx.bad('C10.1-capture', inst, 'a %s decoded from LOCAL_EXT is not rebuilt with its raw bytes: the 8-byte hash is lost and cannot be re-emitted' % var, ctx.where(B),
                        key='PROV:%sparse_local_ext:%s:no-capture' % (DEC, var))
                continue
            bb, t = calls[0]
            good, detail = _raw_ok(B, t['args'][-1], (bb, None))
            # the other fields are carried over from the nested identifier
            carried = True
            for a in t['args'][:-1]:
                base, projs = unwrap(B.origin(a))
                if not (base is not None and base[0] == 'call' and base[1] and base[1].endswith('parse_term')):
                    carried = False
            if good and carried:
                ctx.ok('C10.1-capture', inst, 'with_local_ext_bytes(<fields of the nested %s>, start[..8 + consumed])' % var.lower(), ctx.where(B, bb))
            else:
                ctx.bad('C10.1-capture', inst, 'raw bytes are not start[..8 + consumed-by-nested-term] / fields not carried from the nested term (%s)' % detail, ctx.where(B, bb),
                        key='PROV:%sparse_local_ext:%s:capture' % (DEC, var))

    # wherever the envelope is re-attached, all three identifier kinds are handled (the owned and any zero-copy twin alike)
    ctx.rule('C10.1-capture-all-kinds', 'a function that re-attaches node-local bytes to one kind of identifier does so for pids, ports and references alike', floor=1)
    groups = {}
    for q in ctx.F.bodies:
        if ctx.F.bodies[q]['crate'] != 'erltf':
            continue
        QB = P.B(q)
        kinds = {var for var, ty in TYPES.items() for bb, t in QB.calls() if is_call_to(t, ty + '::with_local_ext_bytes')}
        if not kinds and q.split('::{')[0].rsplit('::', 1)[0] not in TYPES.values():
            # struct-literal form
            kinds |= {var for var, ty in TYPES.items() for bb, j, st in QB.stmts() if st['k'] == '=' and st['rv']['k'] == 'agg' and st['rv'].get('adt') == ty
                      and 'local_ext_bytes' in (st['rv'].get('fn') or []) and q.startswith(DEC)}
        if not kinds and q.split('::{')[0].rsplit('::', 1)[0] not in TYPES.values():
            # in-place form: a &mut to / a store into the local_ext_bytes field
            for bb, j, st in QB.stmts():
                pls = []
                if st['k'] == '=' and st['rv']['k'] == 'ref' and st['rv'].get('mut'):
                    pls.append(st['rv']['pl'])
                if st['k'] == '=' and st['pl'].get('p'):
                    pls.append(st['pl'])
                for pl_ in pls:
                    last = (pl_.get('p') or [None])[-1]
                    if isinstance(last, dict) and last.get('n') == 'local_ext_bytes':
                        kinds |= {var for var, ty in TYPES.items() if last.get('adt') == ty}
        if kinds:
            groups.setdefault(q.split('::{')[0], set()).update(kinds)
    ctx.anchor(bool(groups), 'callers of with_local_ext_bytes')
    for base_fn, kinds in sorted(groups.items()):
        if base_fn.rsplit('::', 1)[0] in TYPES.values():
            continue
        missing = set(TYPES) - kinds
        inst = base_fn.rsplit('::', 1)[1] if '::' in base_fn else base_fn
        if missing:
            ctx.bad('C10.1-capture-all-kinds', inst, '%s re-attaches the node-local bytes for %s but not for %s: a node-local %s that passes through it is re-emitted in plain form (the peer\'s hash is lost)'
                    % (inst, sorted(kinds), sorted(missing), '/'.join(sorted(m.lower() for m in missing))), ctx.where(P.B(base_fn)) if P.B(base_fn) else None, key='TABLE:%s:local-ext-kinds-missing:%s' % (base_fn, ','.join(sorted(missing))))
        else:
            ctx.ok('C10.1-capture-all-kinds', inst, 'handles Pid, Port and Reference')

    # every way out of parse_local_ext goes through the match that re-attaches the envelope
    if B is not None:
        sw = [bb for bb in sorted(B.live_blocks()) if (lambda sd: sd and sd[1].replace('&', '') == OWNED and 'parse_term' in str(B.origin_place(sd[0])))(B.switch_on_discr(bb))]
        oks = [bb for bb, j, st in B.stmts() if st['k'] == '=' and B.is_ret_slot(st['pl']['l']) and not st['pl'].get('p') and st['rv']['k'] == 'agg' and st['rv'].get('var') == 'Ok']
        if ctx.anchor(bool(sw) and bool(oks), DEC + 'parse_local_ext: match on the nested term / Ok returns'):
            early = [bb for bb in oks if not any(B.block_dominates(s_, bb) for s_ in sw)]
            if early:
                ctx.bad('C10.1-capture', 'all-returns', '%d of the %d successful returns of parse_local_ext do not pass the match on the nested term that re-attaches the raw bytes: an identifier that leaves that way '
                        '(decided by something other than the decoded term itself, e.g. a peek at the nested tag) loses its node-local form' % (len(early), len(oks)), ctx.where(B, early[0]),
                        key='DOM:%sparse_local_ext:return-bypasses-capture' % DEC)
            else:
                ctx.ok('C10.1-capture', 'all-returns', 'every successful return is dominated by the match on the nested term', ctx.where(B, sw[0]))

    # ---------------- clause 2: replay ----------------------------------------------------------------
    ctx.rule('C10.2-replay', 'when raw node-local bytes are present the encoder writes exactly LOCAL_EXT followed by those bytes', floor=3)
    for var, fn in (('Pid', 'encode_pid_impl'), ('Port', 'encode_port_impl'), ('Reference', 'encode_reference_impl')):
        paths = writer_paths(P, ENC + fn)
        EB = P.B(ENC + fn)
        if not ctx.anchor(EB is not None, ENC + fn):
            continue
        replay = [p_ for p_ in paths if p_['tag'] == 121]
        # the Some(bytes) edge must lead to the replay path only: check the path's raw events
        if not replay:
            ctx.bad('C10.2-replay', var, '%s never writes LOCAL_EXT: received node-local %ss are re-encoded from their parsed fields (hash lost)' % (fn, var.lower()), ctx.where(EB),
                    key='WIRE:%s%s:no-replay' % (ENC, fn))
            continue
        raw = replay[0]['raw']
        ok = len(raw) == 2 and raw[1][0] == 'w' and raw[1][1] == 'bytes' and RAW in str(raw[1][2])
        # and the non-replay path must be taken only when the bytes are absent: the switch is on the Option discriminant of local_ext_bytes
        guarded = False
        for bb in sorted(EB.live_blocks()):
            sd = EB.switch_on_discr(bb)
            if sd:
                pl = sd[0]
                base_, projs_ = unwrap(EB.origin_place(pl))
                if any(isinstance(e, dict) and e.get('n') == RAW for e in (pl.get('p') or [])) or RAW in projs_ or _raw_option(EB, pl):
                    guarded = True
        # ... and only then: every write of the plain form lies behind the None edge of that very test.  A second condition on the
        # Some side (a freshness heuristic, a length test) sends identifiers that do carry raw bytes down the plain path, hash lost.
        escaped = None
        if ok and guarded:
            from ..wire import prim_of
            for bb in sorted(EB.live_blocks()):
                sd = EB.switch_on_discr(bb)
                if not sd:
                    continue
                pl = sd[0]
                base_, projs_ = unwrap(EB.origin_place(pl))
                if not (any(isinstance(e, dict) and e.get('n') == RAW for e in (pl.get('p') or [])) or RAW in projs_ or _raw_option(EB, pl)):
                    continue
                none_t = [b_ for v_, b_ in sd[2] if v_ == 0]
                some_t = [b_ for v_, b_ in sd[2] if v_ == 1]
                none_t = none_t[0] if none_t else sd[3]
                some_t = some_t[0] if some_t else sd[3]
                from_some = EB.reachable(some_t)
                for wb, wt in EB.calls():
                    pr = prim_of(wt)
                    if pr is not None and pr[0] == 'w' and wb in from_some:
                        from ..wire import _val
                        v_ = _val(EB, wt['args'][1]) if len(wt['args']) > 1 else None
                        if isinstance(v_, int) and v_ != 121 and pr[1] == 'u8' and v_ in ID_TAGS_ALL:
                            escaped = (wb, v_)
        if ok and guarded and escaped:
            ctx.bad('C10.2-replay', var, 'the plain form (tag %d) can be written although raw node-local bytes are present: the test that selects the replay has a further condition, and an identifier failing it '
                    'is re-encoded from its parsed fields - the 8-byte hash of LOCAL_EXT is lost' % escaped[1], ctx.where(EB, escaped[0]), key='WIRE:%s%s:plain-form-with-raw-bytes' % (ENC, fn))
        elif ok and guarded:
            ctx.ok('C10.2-replay', var, 'Some(bytes) => u8(121) bytes(%s); the plain form is written only behind None' % RAW, ctx.where(EB))
        else:
            ctx.bad('C10.2-replay', var, 'replay path is not exactly `121, raw bytes` (events %s, selected by the Option=%s)' % ([e[:3] for e in raw], guarded), ctx.where(EB),
                    key='WIRE:%s%s:replay-shape' % (ENC, fn))

    # every identifier the encoder writes goes through the replaying encoder of its type
    ctx.rule('C10.2-single-writer', 'an encoder function that writes a pid/port/reference in plain form without looking at the raw node-local bytes is called only from the replaying encoder of that type '
             '(so no identifier, wherever it is nested - e.g. the creator pid of a fun - bypasses the replay); every other encoder hands identifiers to the replaying encoder', floor=3)
    ID_TAGS = {'Pid': {88, 103}, 'Port': {89, 102, 120}, 'Reference': {90, 114, 101}}
    REPLAYING = {'Pid': ENC + 'encode_pid_impl', 'Port': ENC + 'encode_port_impl', 'Reference': ENC + 'encode_reference_impl'}
    for var, ty in TYPES.items():
        short = ty.rsplit('::', 1)[1]
        takers = [q for q in ctx.F.bodies if q.startswith(ENC) and ctx.F.bodies[q]['kind'] == 'Fn'
                  and any(short in P.B(q).local_ty(i) for i in range(1, P.B(q).b['argc'] + 1))]
        ctx.anchor(REPLAYING[var] in takers, REPLAYING[var] + ' takes a ' + short)
        for q in sorted(takers):
            paths = writer_paths(P, q)
            tags = {p_['tag'] for p_ in paths}
            inst = '%s:%s' % (var, q.rsplit('::', 1)[1])
            if 121 in tags:
                ctx.ok('C10.2-single-writer', inst, 'replaying encoder (has the LOCAL_EXT path)')
                continue
            if not (tags & ID_TAGS[var]):
                ctx.ok('C10.2-single-writer', inst, 'writes no identifier tag itself')
                continue
            callers = sorted({c for c, bb, t in P.callers_of(lambda n, q=q: n == q)})
            foreign = [c for c in callers if c.split('::{')[0] != REPLAYING[var]]
            if foreign:
                ctx.bad('C10.2-single-writer', inst, '%s writes a %s in plain form (tags %s) without consulting the raw node-local bytes and is called from %s: a %s received in node-local form is re-emitted '
                        'from its parsed fields there (hash lost)' % (q.rsplit('::', 1)[1], var.lower(), sorted(tags & ID_TAGS[var]), [c.rsplit('::', 1)[1] for c in foreign], var.lower()),
                        ctx.where(P.B(q)), key='WHO:%s:plain-%s-writer-called-from:%s' % (q, var.lower(), ','.join(c.rsplit('::', 1)[1] for c in foreign)))
            else:
                ctx.ok('C10.2-single-writer', inst, 'plain writer, called only from %s' % REPLAYING[var].rsplit('::', 1)[1])

    inline = 0
    all_id_tags = set().union(*ID_TAGS.values())
    for q in sorted(x for x in ctx.F.bodies if x.startswith(ENC + 'encode_') and ctx.F.bodies[x]['kind'] == 'Fn'):
        if q in REPLAYING.values():
            continue
        QB = P.B(q)
        if any(any(TYPES[v].rsplit('::', 1)[1] in QB.local_ty(i) for v in TYPES) for i in range(1, QB.b['argc'] + 1)):
            continue       # takers are handled above
        inline += 1
        hits = sorted({e[2] for p_ in writer_paths(P, q) for e in p_['raw'] if e[0] == 'w' and e[1] == 'u8' and isinstance(e[2], int) and e[2] in all_id_tags})
        if hits:
            ctx.bad('C10.2-single-writer', 'inline:' + q.rsplit('::', 1)[1], '%s writes the identifier tag(s) %s itself instead of calling the replaying encoder' % (q.rsplit('::', 1)[1], hits), ctx.where(QB),
                    key='WHO:%s:inline-identifier-tag' % q)
    ctx.info_note('%d other encoder functions scanned for identifier tags written inline: none' % inline)

    # ---------------- clause 3: logical-field equality / hash / order ---------------------------------------
    ctx.rule('C10.3-logical-fields', 'PartialEq::eq, Hash::hash and Ord::cmp of each identifier type read the same field set: all fields except the raw bytes', floor=9)
    for var, ty in TYPES.items():
        adt = ctx.F.adts.get(ty)
        if not ctx.anchor(adt is not None, ty):
            continue
        all_fields = {f['n'] for f in adt['variants'][0]['fields']}
        want = all_fields - {RAW}
        sets = {}
        for tr, m in (('core::cmp::PartialEq', 'eq'), ('core::hash::Hash', 'hash'), ('core::cmp::Ord', 'cmp')):
            path = '<%s as %s>::%s' % (ty, tr, m)
            fs = set()
            found = False
            for FB in bodies_of_fn(P, path):
                found = True
                fs |= fields_touched(FB, ty)
                if m in ('eq', 'cmp'):
                    check_self_compare(ctx, FB, 'C10.3-logical-fields')
            if not ctx.anchor(found, path):
                continue
            sets[m] = fs
            inst = '%s::%s' % (var, m)
            if fs == want:
                ctx.ok('C10.3-logical-fields', inst, 'reads %s' % sorted(fs))
            elif RAW in fs:
                ctx.bad('C10.3-logical-fields', inst, '%s depends on the raw node-local bytes: the same identifier received in plain and node-local form is no longer recognised as the same' % m,
                        key='FIELDSET:%s::%s:uses-raw-bytes' % (ty, m))
            else:
                ctx.bad('C10.3-logical-fields', inst, '%s reads %s, the logical fields are %s' % (m, sorted(fs), sorted(want)), key='FIELDSET:%s::%s:fields' % (ty, m))
        # derived Clone carries everything
        cl = [i for i in ctx.F.impls if i['self'] == ty and (i.get('trait') or '') == 'core::clone::Clone']
        if cl and cl[0]['derived']:
            ctx.ok('C10.3-logical-fields', var + '::clone', 'derived Clone (all fields, raw bytes included)')
        elif cl:
            # a hand-written Clone: every method of the impl (clone and, if overridden, clone_from) carries every field, raw bytes included
            for it in cl[0]['items']:
                fs = set()
                for CB in bodies_of_fn(P, it):
                    fs |= fields_touched(CB, ty)
                m_ = it.rsplit('::', 1)[1]
                if fs >= all_fields:
                    ctx.ok('C10.3-logical-fields', '%s::%s' % (var, m_), 'manual %s copies every field' % m_)
                else:
                    ctx.bad('C10.3-logical-fields', '%s::%s' % (var, m_), '%s of %s does not copy %s: a value overwritten in place keeps its old node-local bytes (or none), so it is re-emitted as a different identifier / in a different form'
                            % (m_, var, sorted(all_fields - fs)), key='FIELDSET:%s::%s' % (ty, m_))

    # term-level comparators may compare identifiers inline instead of delegating: same field set, no self-comparison
    ctx.rule('C10.3-term-level', 'where OwnedTerm / BorrowedTerm compare, equate or hash an identifier inline (not through the identifier type\'s own impl) they read exactly its logical fields, '
             'and no comparison in these bodies has the same operand on both sides', floor=6)
    for termty in (OWNED, BORROWED + "<'a>"):
        for tr, m in (('core::cmp::PartialEq', 'eq'), ('core::hash::Hash', 'hash'), ('core::cmp::Ord', 'cmp')):
            path = '<%s as %s>::%s' % (termty, tr, m)
            bodies = bodies_of_fn(P, path)
            if not bodies:
                continue      # derived / absent: delegates to the identifier type's impl
            ncmp = 0
            for FB in bodies:
                ncmp += check_self_compare(ctx, FB, 'C10.3-term-level')
            for var, ty in TYPES.items():
                adt = ctx.F.adts.get(ty)
                if adt is None:
                    continue
                want = {f['n'] for f in adt['variants'][0]['fields']} - {RAW}
                fs = set()
                for FB in bodies:
                    fs |= fields_touched(FB, ty)
                inst = '%s::%s:%s' % (termty.rsplit('::', 1)[1].split('<')[0], m, var)
                if not fs:
                    ctx.ok('C10.3-term-level', inst, 'no inline field access: delegates to %s' % ty.rsplit('::', 1)[1])
                elif fs == want:
                    ctx.ok('C10.3-term-level', inst, 'inline, reads %s (%d comparisons scanned for self-comparison)' % (sorted(fs), ncmp))
                elif RAW in fs:
                    ctx.bad('C10.3-term-level', inst, '%s of the term type depends on the raw node-local bytes of a %s' % (m, var.lower()), key='FIELDSET:%s:%s:uses-raw-bytes' % (path, var))
                else:
                    ctx.bad('C10.3-term-level', inst, '%s of the term type reads %s of a %s, the logical fields are %s: identifiers differing only in %s are treated as the same (e.g. merged as map keys)'
                            % (m, sorted(fs), var.lower(), sorted(want), sorted(want - fs)), key='FIELDSET:%s:%s:fields' % (path, var))

    # ---------------- clause 4: no identifier is rebuilt from another's fields -------------------------------------
    ctx.rule('C10.4-no-rebuild', 'no function of the library builds a pid/port/reference from the fields of an existing one (which would drop the raw bytes); conversions move or clone the whole value', floor=6)
    n = 0
    for B2 in P.all():
        if B2.b['crate'] not in ('erltf', 'erltf_serde', 'edp_client', 'edp_node', 'edp_elixir_terms'):
            continue
        seen = {}
        for var, ty in TYPES.items():
            sites = []
            for bb, t in B2.calls():
                if is_call_to(t, ty + '::new'):
                    sites.append((bb, t['args'], 'new'))
            for bb, j, st in B2.stmts():
                if st['k'] == '=' and st['rv']['k'] == 'agg' and st['rv'].get('adt') == ty and not B2.path.startswith(ty + '::') \
                        and not B2.path.startswith('<%s as core::clone::Clone>' % ty):
                    sites.append((bb, st['rv']['ops'], 'literal'))
            for bb, args, how in sites:
                n += 1
                rebuilt = []
                for a in args:
                    base, projs = unwrap(B2.origin(a))
                    # a field projection out of a value whose type is the same identifier type
                    if base is not None and base[0] in ('arg', 'local') and any(p in ('node', 'id', 'serial', 'creation', 'ids') for p in projs if isinstance(p, str)):
                        root_ty = B2.local_ty(base[1])
                        # the projection chain passes through the identifier type?
                        if ty.rsplit('::', 1)[1] in root_ty or any(isinstance(p, str) and p.startswith('as:' + var) for p in projs):
                            rebuilt.append(projs)
                k = seen.get((var, how), 0) + 1
                seen[(var, how)] = k
                inst = '%s:%s::%s%s' % (B2.path, var, how, '' if k == 1 else '#%d' % k)
                if rebuilt:
                    ctx.bad('C10.4-no-rebuild', inst, 'builds a fresh %s from the fields %s of an existing one: raw node-local bytes are dropped, so the identifier is re-emitted in a different form' % (
                        var.lower(), [tuple(r) for r in rebuilt][:3]), ctx.where(B2, bb), key='WHO:%s:rebuilds-%s' % (B2.path, var))
                else:
                    ctx.ok('C10.4-no-rebuild', inst, 'constructed from fresh values', ctx.where(B2, bb))
    # conversion arms carry the struct whole
    for fn, src in (("erltf::borrowed::BorrowedTerm::<'a>::to_owned", BORROWED),
                    ("<erltf::borrowed::BorrowedTerm<'a> as core::convert::From<&'a erltf::term::OwnedTerm>>::from", OWNED)):
        CB = ctx.body(fn)
        if CB is None:
            continue
        for var, ty in TYPES.items():
            dst = OWNED if src == BORROWED else BORROWED
            aggs = [(bb, st) for bb, j, st in CB.stmts() if st['k'] == '=' and st['rv']['k'] == 'agg' and st['rv'].get('adt') == dst and st['rv']['var'] == var]
            inst = '%s:%s' % (fn.rsplit('::', 1)[1], var)
            if not aggs:
                ctx.bad('C10.4-no-rebuild', inst, 'conversion never produces %s' % var, key='TABLE:%s:%s' % (fn.rsplit('::', 1)[1], var))
                continue
            bb, st = aggs[0]
            o = CB.origin(st['rv']['ops'][0])
            base, projs = unwrap(o)
            whole = base is not None and base[0] == 'arg' and any(isinstance(p, str) and p == 'as:' + var for p in projs) and not any(
                p in ('node', 'id', 'serial', 'creation', 'ids') for p in projs)
            if whole:
                ctx.ok('C10.4-no-rebuild', inst, 'clone of the whole identifier', ctx.where(CB, bb))
            else:
                ctx.bad('C10.4-no-rebuild', inst, 'identifier is not carried over whole: %s' % (o,), ctx.where(CB, bb), key='PROV:%s:%s:not-whole' % (fn.rsplit('::', 1)[1], var))

    # plain identifiers are rebuilt from their fields: the node atom must come out in the form it came in
    ctx.rule('C10.2-node-atom-form', 'a plain (not node-local) identifier is re-encoded from its parsed fields, node atom included: the atom encoder picks the short form for every name that fits it, '
             'so an identifier received from a current OTP peer (SMALL_ATOM_UTF8_EXT for names up to 255 bytes) is written back byte for byte', floor=1)
    from ..etf import check_canonical_forms
    check_canonical_forms(ctx, 'C10.2-node-atom-form')

    # "compare and hash by their logical fields": == must be plain field-wise equality, or Hash and Ord (which are) disagree with it
    ctx.rule('C10.3-eq-hash-order-agree', 'the hand-written == of each identifier type is field-wise equality of the logical fields, hash reads no field == ignores and the order reads the fields == reads '
             '(rule C11.3-eq-hash-fields re-run): a relaxed == (wildcards, prefixes) recognises "the same identifier" where HashMap, BTreeMap and the term-level comparison do not', floor=8)
    from ..order import SubCtx as _Sub10
    from . import c11 as _c11
    _c11.run(_Sub10(ctx, 'C10.3-eq-hash-order-agree', 'c11', allow=('C11.3-eq-hash-fields',)))
    # ... and the term-level order places identifiers as their logical fields say, in both term types
    ctx.rule('C10.3-identifiers-in-the-term-order', 'every pair of term variants that involves a pid, a port or a reference is ordered by rank or by an arm that compares (never the constant Equal), and the zero-copy type '
             'orders it as the owned type does (rules C11.1-pairs and C11.5-twin-pairs re-run for these pairs): a port that compares Equal to every pid, or references compared over their common words only, '
             'are merged as map keys and lost on the way back', floor=100)
    _idv = ('Pid', 'Port', 'Reference')
    _c11.run(_Sub10(ctx, 'C10.3-identifiers-in-the-term-order', 'c11', allow=('C11.1-pairs', 'C11.5-twin-pairs'), inst=lambda i_: any(v_ in i_ for v_ in _idv)))

    from ..families import check_sibling_ctors as _sib
    ctx.rule('C10.1-identifier-constructors', 'for pids, ports and references the constructor that attaches the raw node-local bytes stores the logical fields exactly as the plain constructor does', floor=3)
    for ty_ in ('ExternalPid', 'ExternalPort', 'ExternalReference'):
        _sib(ctx, P, 'C10.1-identifier-constructors', 'erltf::types::' + ty_, ['erltf::types::%s::new' % ty_, 'erltf::types::%s::with_local_ext_bytes' % ty_], {'local_ext_bytes'})

    # the numbers of an identifier are opaque: every parser hands them on unchanged
    from ..etf import check_identifier_fields_verbatim as _verb10
    ctx.rule('C10.1-identifier-fields-verbatim', 'every pid / port / reference parser passes the integers it read to the constructor unchanged (widening only): masking "reserved" bits or any other arithmetic '
             'makes the identifier written back differ from the one received', floor=10)
    _verb10(ctx, 'C10.1-identifier-fields-verbatim')

    # ... and to the field they were read for: the k-th number read is the k-th number the encoder writes
    ctx.rule('C10.1-identifier-field-order', 'every parser that builds a pid / port / reference (or a fun carrying one) through its constructor feeds each constructor argument from the wire read at the position '
             'where the encoder writes that field (rule C03.2-field-order re-run): two numbers of the same width exchanged on the way in are written back exchanged', floor=6)
    from . import c03 as _c03_10
    if type(ctx).__name__ != 'SubCtx':
        _c03_10.run(_Sub10(ctx, 'C10.1-identifier-field-order', 'c03', allow=('C03.2-field-order',)))

    # an identifier inside a container is written by its own encoder arm, whatever its neighbours look like
    ctx.rule('C10.2-elements-written', 'every element of a list / tuple / map goes through the encoder on every way round the element loop (rule C01.2-elements-written re-run): == on identifiers ignores the '
             'node-local form, so a neighbour\'s bytes copied for an "equal" element put the wrong form (or the wrong hash) on the wire', floor=1)
    from . import c01 as _c01_10
    if type(ctx).__name__ != 'SubCtx':
        _c01_10.run(_Sub10(ctx, 'C10.2-elements-written', 'c01', allow=('C01.2-elements-written',)))


_run_before_cache_rules = run


def run(ctx):
    _run_before_cache_rules(ctx)
    # the node of a pid, port or reference is usually an ATOM_CACHE_REF: it resolves through what earlier headers entered (C14 rules re-run)
    from .c14 import cache_threading
    cache_threading(ctx, 'C10.9-cache-kept')
    # the node of an identifier goes out as a slot number: the slots the body refers to are the slots the header defines (<= 255 atoms, one list for both)
    from .c01 import reviewed_premises
    ctx.rule('C10.9-header-slots', 'the header writer refuses more distinct atoms than a header has slots for before any position is narrowed to a slot number, and the list the slot numbers are taken from '
             'is not shortened afterwards (a slot number the header does not define names another node on the receiving side)', floor=1)
    reviewed_premises(ctx, 'C10.9-header-slots')
    WB = ctx.P.B(ENC + 'encode_with_dist_header_multi')
    if WB is not None:
        maps = [bb for bb, t in WB.calls() if any(n.endswith('::insert') for n in callee_names(t)) and 'HashMap<&erltf::types::Atom, u8>' in ((t.get('aty') or [''])[0])]
        maps += [bb for bb, t in WB.calls() if any(n.endswith('Iterator::collect') for n in callee_names(t)) and 'HashMap<&erltf::types::Atom, u8>' in WB.local_ty(t['dst']['l'])]
        shr = [(bb, callee_names(t)[0].rsplit('::', 1)[1]) for bb, t in WB.calls() if bb in WB.live_blocks() and 'mut' in ((t.get('aty') or [''])[0]) and 'Vec<&erltf::types::Atom>' in ((t.get('aty') or [''])[0])
               and any(n.endswith(('::truncate', '::pop', '::remove', '::swap_remove', '::drain', '::retain', '::split_off', '::clear', '::dedup')) for n in callee_names(t))]
        late = [(bb, nm) for bb, nm in shr if any(bb in WB.reachable(m) for m in maps)]
        if late:
            ctx.bad('C10.9-header-slots', 'list-shortened-after-numbering', 'the atom list is shortened (%s) after the atom -> slot map was built from it: atoms beyond the cut keep slot numbers the header no longer defines' % late[0][1],
                    ctx.where(WB, late[0][0]), key='ORDER:%sencode_with_dist_header_multi:list-shortened-after-numbering' % ENC)
        else:
            ctx.ok('C10.9-header-slots', 'list-shortened-after-numbering', '%d numbering site(s); the list is not shortened after them' % len(maps))
