"""C02 — decoding untrusted bytes always returns: no panic, abort, overflow or blow-up.

PANIC, ALLOC, REC and read-to-end obligations over everything reachable from the
decode entry points inside erltf (plus the receive-path glue in edp_client).
"""
from ..core import callee_of, callee_names, is_call_to
from ..ranges import canon
from ..families import check_panics, check_allocs, check_read_to_end, check_recursion, check_casts, describe

ENTRY = ['erltf::decoder::decode', 'erltf::decoder::decode_with_trailing', 'erltf::decoder::decode_raw_term',
         'erltf::decoder::decode_with_cache', 'erltf::decoder::decode_with_atom_cache', 'erltf::decoder::decode_borrowed',
         'erltf::decoder::decode_fragment_header', 'erltf::decoder::decode_fragment_cont',
         'erltf::borrowed::BorrowedTerm::<\'a>::to_owned']

SUFFIX = ('every `input` handed down the zero-copy parser family is a suffix of the buffer whose length is `original_len` '
          '(decode_borrowed passes data.len(); nom parsers only consume from the front), so the difference cannot underflow; '
          'the shape of every byte_offset write is checked by C13.4')
REVIEWED_PANIC = {
    r're:erltf::decoder::parse_compressed:.*\[total_in\(.*\)\.\.\]':
        'flate2 contract: ZlibDecoder::total_in() counts bytes consumed from the reader it wraps, which is exactly `rest`, so consumed <= rest.len()',
    r're:erltf::decoder::parse_local_ext:input\[\.\.Add\(8,Sub\(len\(be_u64\(input\)\?\.0\),len\(parse_term\(.*\)\?\.0\)\)\)\]':
        '`start[..8 + (input.len() - remaining.len())]`: input is start minus the 8 bytes consumed by be_u64 (start.len() = input.len() + 8) and remaining is a '
        'suffix of input (suffix relation proven for the inner Sub), so the bound equals start.len() - remaining.len() <= start.len()',
    r're:erltf::decoder::parse_\w*_borrowed:Sub\((\w+\.)?original_len,len\(.*\)\)(#\d+)?': SUFFIX,
    r're:erltf::decoder::parse_versioned_term_borrowed:Sub\(Sub\(original_len,len\(be_u8\(input\)\?\.0\)\),1\)':
        'after be_u8 succeeded the remaining input is at least one byte shorter than the buffer of length original_len, so the difference is >= 1',
    r're:erltf::types::Atom::new:index next\(.*\)\.as:Some\.0\.1 < len \d+':
        'index read from the static COMMON_ATOMS table, whose second components are 0..13 and which has the same length as CACHED_ATOMS (no input data involved)',
}
REVIEWED_ALLOC = {}


def scope(ctx):
    P = ctx.P
    roots = [e for e in ENTRY if ctx.anchor(e in ctx.F.bodies, e)]
    reach = P.reachable_from(roots)
    # Ordered / hashed collections call back into the key type: BTreeMap<Term, _>::insert runs Ord::cmp of the term type
    # (and its helpers) on attacker-chosen keys while decoding. The call graph has no edge for that (std is external), so
    # the comparison / hashing entry points of the key type are added as roots wherever such a collection is filled.
    implied = set()
    for p in sorted(reach):
        if ctx.F.bodies[p]['crate'] != 'erltf':
            continue
        for bb, t in P.B(p).calls():
            g = callee_of(t)[0] or ''
            aty = (t.get('aty') or [''])[0]
            if not any(m in g for m in ('BTreeMap', 'BTreeSet', 'HashMap', 'HashSet')) or g.rsplit('::', 1)[-1] not in ('insert', 'entry', 'get', 'contains_key', 'remove', 'get_mut'):
                continue
            for term, cmps in (('erltf::term::OwnedTerm', ('<erltf::term::OwnedTerm as core::cmp::Ord>::cmp', '<erltf::term::OwnedTerm as core::hash::Hash>::hash')),
                               ('erltf::borrowed::BorrowedTerm', ("<erltf::borrowed::BorrowedTerm<'a> as core::cmp::Ord>::cmp", "<erltf::borrowed::BorrowedTerm<'a> as core::hash::Hash>::hash"))):
                if ('<' + term) in aty:
                    hashed = 'Hash' in g
                    implied.add(cmps[1] if hashed else cmps[0])
    implied = {q for q in implied if q in ctx.F.bodies}
    if implied:
        reach |= P.reachable_from(sorted(implied))
    ctx.implied_roots = sorted(implied)
    return roots, sorted(p for p in reach if ctx.F.bodies[p]['crate'] == 'erltf')


def run(ctx):
    P = ctx.P
    roots, bodies = scope(ctx)
    ctx.rule('C02.0-scope', 'decode entry points found and the reachable function set inside erltf enumerated', floor=8)
    for r in roots:
        ctx.ok('C02.0-scope', r, 'entry point')
    ctx.info_note('%d functions reachable from the %d decode entry points inside erltf (including %s, run by the map collections while decoding)' % (len(bodies), len(roots), getattr(ctx, 'implied_roots', [])))
    ctx.anchor(len(bodies) >= 60, 'reachable decoder functions (>= 60)')

    ctx.rule('C02.1-no-panic', 'no panic-capable site (indexing, slicing, arithmetic overflow, division, unwrap/expect, explicit panic, partial std API) reachable from a decode entry point is undischarged', floor=15)
    ctx.rule('C02.2-alloc-bounded', 'every wire-sized allocation is bounded by the remaining input length or by a constant of at most 1 MiB', floor=10)
    ctx.rule('C02.4-inflate-bounded', 'compressed data is inflated through a reader limited by the declared size', floor=1)
    n_rte = 0
    for p in bodies:
        B = P.B(p)
        check_panics(ctx, B, 'C02.1-no-panic', reviewed=REVIEWED_PANIC)
        check_allocs(ctx, B, 'C02.2-alloc-bounded', reviewed=REVIEWED_ALLOC)
        n_rte += check_read_to_end(ctx, B, 'C02.4-inflate-bounded')

    # premise of the reviewed indexing in Atom::new: every index listed in COMMON_ATOMS exists in CACHED_ATOMS (re-established on every run)
    ctx.rule('C02.1-atom-table-premise', 'Atom::new indexes CACHED_ATOMS with the positions listed in COMMON_ATOMS: every listed position exists (and holds the same text), otherwise decoding that atom panics', floor=1)
    from ..etf import check_atom_tables
    check_atom_tables(ctx, 'C02.1-atom-table-premise')

    # premises of the other reviewed entries, re-established from the MIR
    ctx.rule('C02.1-reviewed-premises', 'the facts the reviewed panic entries rest on still hold: the buffer sliced by total_in() is the very buffer the inflater reads from; '
             'in parse_local_ext the nested term is parsed from what be_u64 left of the function\'s own input', floor=2)
    PCB = P.B('erltf::decoder::parse_compressed')
    if PCB is not None:
        news = [t for bb, t in PCB.calls() if (callee_of(t)[0] or '').endswith('ZlibDecoder::<R>::new')]
        idx = [t for bb, t in PCB.calls() if (callee_of(t)[0] or '').endswith('::index') and 'total_in' in str(canon(PCB, t['args'][1]) if len(t['args']) > 1 else '') + str(PCB.origin(t['args'][1]) if len(t['args']) > 1 else '')]
        from ..ranges import canon as _c
        if len(news) == 1 and idx and all(_c(PCB, t['args'][0]) == _c(PCB, news[0]['args'][0]) for t in idx):
            ctx.ok('C02.1-reviewed-premises', 'parse_compressed:total_in', 'rest[total_in()..] slices the buffer handed to ZlibDecoder::new')
        elif not idx:
            ctx.ok('C02.1-reviewed-premises', 'parse_compressed:total_in', 'no slice by total_in() any more (nothing to review)')
        else:
            ctx.bad('C02.1-reviewed-premises', 'parse_compressed:total_in', 'a buffer other than the one the inflater reads from is sliced by total_in(): the count of consumed bytes is no bound for it',
                    ctx.where(PCB), key='PREMISE:erltf::decoder::parse_compressed:total_in-buffer')
    PLB = P.B('erltf::decoder::parse_local_ext')
    if PLB is not None:
        pts = [t for bb, t in PLB.calls() if is_call_to(t, 'erltf::decoder::parse_term')]
        hs = [(bb, t) for bb, t in PLB.calls() if (callee_of(t)[0] or '').endswith('be_u64')]
        from ..ranges import canon as _c
        good = len(pts) == 1 and len(hs) == 1 and PLB.origin(hs[0][1]['args'][0]) == ('arg', 1, ()) and 'be_u64' in str(_c(PLB, pts[0]['args'][0])) and "'0'" in str(_c(PLB, pts[0]['args'][0]))
        if good:
            ctx.ok('C02.1-reviewed-premises', 'parse_local_ext:nested-input', 'the nested term is parsed from the remainder of be_u64(input)')
        else:
            ctx.bad('C02.1-reviewed-premises', 'parse_local_ext:nested-input', 'the nested term is not parsed from what be_u64 left of the input: the reviewed bound 8 + consumed <= start.len() has lost its premise',
                    ctx.where(PLB), key='PREMISE:erltf::decoder::parse_local_ext:nested-input')

    ctx.rule('C02.3-recursion-bounded', 'every recursive cycle reachable from a decode entry point passes a depth guard', floor=2)
    check_recursion(ctx, P, roots, 'C02.3-recursion-bounded', crate='erltf')

    # map keys are compared while a map is being decoded (BTreeMap::insert): the comparators must return
    ctx.rule('C02.3-comparator-terminates', 'the term comparators, which BTreeMap::insert calls while a MAP_EXT is decoded, do not answer a pair of variants by the swapped call in both directions '
             '(rule C11.1-swap-terminates re-run): two such keys in one map overflow the stack and abort the process', floor=2)
    from ..order import SubCtx as _Sub02
    from . import c11 as _c11_02
    if type(ctx).__name__ != 'SubCtx':
        _c11_02.run(_Sub02(ctx, 'C02.3-comparator-terminates', 'c11', allow=('C11.1-swap-terminates',)))

    # each single allocation bounded by the rest of the input is not enough when a parser that runs once per element copies the REST of the input
    # (instead of the bytes it consumed): a list of n such elements keeps n copies of the tail alive - memory quadratic in the input
    ctx.rule('C02.2-no-remainder-copies', 'no term parser (the family that parse_term calls once per nested element) copies the unconsumed remainder of its input into an owned buffer '
             '(to_vec / copy_from_slice / Bytes::from / to_owned of the input parameter or of what a sub-parser left over): only bounded prefixes (take(n), x[..n]) are copied', floor=1)
    from ..ranges import Ranges as _R02, canon as _canon02
    COPY = ('to_vec', 'copy_from_slice', 'to_owned', 'extend_from_slice', 'put_slice')
    fam = [q for q in bodies if q.startswith('erltf::decoder::parse_') and ctx.F.bodies[q]['kind'] in ('Fn', 'Closure')]
    n_rc = 0
    for q in fam:
        XB = P.B(q)
        RX = _R02(XB)
        for bb, t in XB.calls():
            nm = callee_of(t)[0] or ''
            last = nm.rsplit('::', 1)[-1]
            src = None
            if last in ('to_vec', 'to_owned') and ('slice' in nm or '[T]' in nm or 'ToOwned' in nm) and t['args']:
                src = t['args'][0]
            elif last == 'copy_from_slice' and 'Bytes' in nm and t['args']:
                src = t['args'][0]
            elif last == 'from' and t['args'] and ('Bytes' in str(t.get('ga')) or 'Vec<u8>' in str(t.get('ga'))) and '&[u8]' in str(t.get('aty')):
                src = t['args'][0]
            if src is None:
                continue
            XB._cur_at = (bb, None)
            c = _canon02(XB, src)
            XB._cur_at = None
            rem = c == ('arg', 1) or RX.suffix_parent(c) is not None
            if rem:
                n_rc += 1
                ctx.bad('C02.2-no-remainder-copies', '%s:%s' % (q.rsplit('::', 1)[1], last), 'copies the whole unconsumed remainder of the input (%s): called once per nested element, the copies add up to memory quadratic in the length of the input'
                        % describe(XB, c), ctx.where(XB, bb), key='ALLOC:%s:copies-remainder' % q)
    ctx.anchor(len(fam) >= 20, 'the term parser family (at least twenty erltf::decoder::parse_* bodies)')
    if n_rc == 0:
        ctx.ok('C02.2-no-remainder-copies', 'decoder', 'no copy of an input remainder in %d parser bodies' % len(fam))


_run_before_tl_rule = run


def run(ctx):
    _run_before_tl_rule(ctx)
    # "junk costs only itself": what a rejected input leaves in a buffer must not reach the next decode
    from .c20 import thread_local_buffers
    thread_local_buffers(ctx, 'C02.8-no-leftovers-between-calls')
    tl_borrow_not_across_parser(ctx, 'C02.8-no-borrow-across-the-parser')
    # a limit kept on the thread (nesting depth) that a refused input leaves advanced refuses valid input later
    from .c15 import scoped_thread_local_restored
    scoped_thread_local_restored(ctx, 'C02.8-scoped-state-restored')


def tl_borrow_not_across_parser(ctx, rule):
    """a RefCell kept in a thread-local is not borrowed while the (recursive, input-driven) parser runs"""
    P = ctx.P
    ctx.rule(rule, 'no closure that holds a borrow of thread-local state (LocalKey::with / with_borrow / with_borrow_mut) calls back into the term parser: the input decides how deep the parser nests, '
             'the nested call asks for the same RefCell and the thread panics (BorrowMutError) instead of returning a DecodeError. A rule about what must not be there', floor=0)
    from ..etf import DEC
    n = 0
    for q in sorted(ctx.F.bodies):
        if not q.startswith('erltf::') or ctx.F.bodies[q]['kind'] != 'Closure' or '::tests::' in q or '::{closure#' not in q:
            continue
        parent = q.rsplit('::{closure#', 1)[0]
        if parent not in ctx.F.bodies:
            continue
        PB = P.B(parent)
        if not any(any('thread::local::LocalKey::<' in n_ and n_.rsplit('::', 1)[1].startswith('with') for n_ in callee_names(t)) for bb, t in PB.calls()):
            continue
        DB = P.B(q)
        # is this closure the one handed to the LocalKey call?  (its first parameter type is the closure itself; the second the cell / its content)
        borrows = any(any('thread::local::LocalKey::<' in n_ and n_.rsplit('::', 1)[1] in ('with_borrow', 'with_borrow_mut') for n_ in callee_names(t)) for bb, t in PB.calls())
        if DB.b['argc'] < 2 or not ('RefCell' in DB.local_ty(2) or (borrows and DB.local_ty(2).startswith('&'))):
            continue     # (a Cell is read and written without a borrow: nothing to trip over)
        n += 1
        back = [(bb, nm) for bb, t in DB.calls() for nm in callee_names(t) if bb in DB.live_blocks() and nm.startswith(DEC + 'parse_')]
        name = parent.rsplit('::', 1)[1]
        if back:
            ctx.bad(rule, '%s:borrow' % name, '%s calls %s while it holds a borrow of thread-local state: a term nested in the input makes the parser come back here, '
                    'the second borrow fails and the thread panics on input that should be refused with an error' % (name, back[0][1].rsplit('::', 1)[1]), ctx.where(DB, back[0][0]),
                    key='SHAPE:%s:thread-local-borrow-across-parser' % parent)
        else:
            ctx.ok(rule, '%s:borrow' % name, 'the closure does not call the parser', ctx.where(DB))
    if n == 0:
        ctx.ok(rule, 'none', 'the decoder keeps no borrowed thread-local state')
