"""C15 — serde round trip returns the original Rust value, also across the wire.

Variant-level closure: Prod(X) (what the serialiser builds for data-model type X),
Wire(.) (what that becomes after encode+decode, from C01's tag flow and the encoder's
width thresholds) and Acc(X) (what the deserialiser method accepts):
Prod(X) <= Acc(X) and Wire(Prod(X)) <= Acc(X).  Plus constant agreement of the atoms
for bool / none / unit and the enum-variant shapes.
"""
from ..core import callee_of, callee_names, is_call_to, unwrap, exclusive_blocks, fold
import re
from ..ranges import Ranges, canon, ty_range, INT
from ..families import check_casts, check_panics, bodies_of_fn
from ..etf import dispatch_table, DEC, ENC, OWNED, encoder_dispatch, tags_of, writer_paths

SER = '<&mut erltf_serde::ser::Serializer as serde_core::ser::Serializer>::'
DES = "<&mut erltf_serde::de::Deserializer<'de> as serde_core::de::Deserializer<'de>>::"
PRIMS = ['bool', 'i8', 'i16', 'i32', 'i64', 'u8', 'u16', 'u32', 'u64', 'f32', 'f64', 'char', 'str', 'bytes', 'unit']
I32 = INT['i32']


def prod(ctx, m):
    """variants serialize_<m> can return"""
    B = ctx.P.B(SER + 'serialize_' + m)
    if B is None:
        return None
    out = set()
    for bb, j, st in B.stmts():
        if st['k'] == '=' and st['rv']['k'] == 'agg' and st['rv'].get('adt') == OWNED:
            if 0 in B.derived_locals([st['pl']['l']]):
                out.add(st['rv']['var'])
    return out


def acc(ctx, m):
    """variants deserialize_<m> accepts (arms that reach a visitor / sub-deserializer), following delegation"""
    P = ctx.P
    path = DES + 'deserialize_' + m
    B = P.B(path)
    if B is None:
        return None
    # delegation: `self.deserialize_str(visitor)`
    for bb, t in B.calls():
        for n in callee_names(t):
            if n.startswith(DES + 'deserialize_') and n != path:
                return acc(ctx, n[len(DES + 'deserialize_'):])
            if n.endswith('Deserializer::<\'de>::expect_atom'):
                return {'Atom'}
    sw = None
    for i in sorted(B.live_blocks()):
        sd = B.switch_on_discr(i)
        if sd and sd[1] == OWNED:
            sw = (i, sd)
            break
    if sw is None:
        # the match may live in a helper of the deserialiser (`self.narrow_integer::<T>()?`): look one level down
        for bb, t in B.calls():
            for n in callee_names(t):
                if n.startswith('erltf_serde::de::') and n in ctx.F.bodies and n != path:
                    HB = P.B(n)
                    for i in sorted(HB.live_blocks()):
                        sd = HB.switch_on_discr(i)
                        if sd and sd[1] == OWNED:
                            B, sw = HB, (i, sd)
                            break
                if sw:
                    break
            if sw:
                break
    if sw is None:
        return None
    i, (pl, ty, cases, els) = sw
    vs = [v['n'] for v in ctx.F.adts[OWNED]['variants']]
    starts = sorted({b for _, b in cases} | {els})
    excl = exclusive_blocks(B, starts)
    out = set()
    for v, b in cases:
        reg = B.reachable(b)
        # an accepting arm calls a Visitor method (or another deserializer) before any error is built
        accepts = False
        # (everything the arm can reach, not only what it reaches alone: arms may bind a value and share the code that hands it to the visitor)
        for bb in reg:
            t = B.blocks[bb]['t']
            if t['k'] == 'call':
                for n in callee_names(t):
                    if 'serde_core::de::Visitor' in n or n.endswith('::and_then') or 'visit_' in n.rsplit('::', 1)[-1] or n.endswith('::try_from') or 'bigint_to_' in n:
                        accepts = True
        if accepts:
            out.add(vs[v])
    return out


def wire_of(ctx, variant, src_range, tagflow):
    """variants a term of `variant` (holding a value of the given integer range, if numeric) can decode to"""
    dec, tags_by_variant, int_tags = tagflow
    out = set()
    for t in tags_by_variant.get(variant, ()):
        if variant == 'Integer' and src_range is not None:
            # the encoder leaves the two small tags only for values outside the i32 range
            if t in int_tags['big'] and src_range[0] >= I32[0] and src_range[1] <= I32[1]:
                continue
        ent = dec.get(t)
        if ent is None or ent['error_arm'] or t in (82, 121, 80):
            continue
        vs_ = set(ent['variants'])
        if t == 108 and variant in ('List', 'ImproperList'):
            # LIST_EXT decodes to List or ImproperList according to the tail the encoder of that variant wrote
            vs_ = {variant}
        out |= vs_
    return out


def run(ctx):
    P = ctx.P
    dec, Bd = dispatch_table(ctx, DEC + 'parse_term_from_tag', OWNED)
    disp = encoder_dispatch(ctx)
    if dec is None or disp is None:
        return
    tags_by_variant = {v: tags_of(P, fn) for v, fn in disp.items() if fn}
    # integer thresholds of the encoder, established by the interval analysis on encode_integer
    EB = ctx.body(ENC + 'encode_integer')
    int_tags = {'small': set(), 'big': set()}
    rng98 = None
    if EB is not None:
        R = Ranges(EB)
        for bb, t in EB.calls():
            from ..wire import prim_of
            p = prim_of(t)
            if p and p[0] == 'w' and p[1] == 'u8' and t['args'][1]['k'] == 'c' and 'v' in t['args'][1]:
                tag = t['args'][1]['v']
                rng = R.range_of({'k': 'cp', 'pl': {'l': 2}}, bb)
                if tag == 98:
                    rng98 = rng
                if tag in (97, 98) and rng[0] >= I32[0] and rng[1] <= I32[1]:
                    int_tags['small'].add(tag)
                elif tag in (110, 111):
                    int_tags['big'].add(tag)
        ctx.rule('C15.2-integer-widths', 'the encoder writes SMALL_INTEGER_EXT / INTEGER_EXT only for values the interval analysis shows to lie within the i32 range, and has a big-integer form for the rest: '
                 'this is what makes "wide integers come back as big integers" (and nothing else) the wire image of i64/u64/u32 fields', floor=1)
        if int_tags['small'] == {97, 98} and int_tags['big'] >= {110} and rng98 is not None and (rng98[0] > I32[0] or rng98[1] < I32[1]):
            ctx.bad('C15.2-integer-widths', 'encode_integer', 'INTEGER_EXT is written only for values in [%s, %s], not for the whole i32 range: the missing values (e.g. i32::MIN) go out as big integers and come back as BigInt, '
                    'which the 32-bit readers (deserialize_i32, as_integer-based from_term of the wrappers) do not accept' % rng98, ctx.where(EB), key='CAST:%sencode_integer:i32-range-incomplete' % ENC)
        elif int_tags['small'] == {97, 98} and int_tags['big'] >= {110}:
            ctx.ok('C15.2-integer-widths', 'encode_integer', 'tags 97/98 written only with the value within [-2^31, 2^31-1] (INTEGER_EXT for exactly that range); 110 (and 111) otherwise', ctx.where(EB))
        else:
            ctx.bad('C15.2-integer-widths', 'encode_integer', 'the small integer tags are not confined to the i32 range (tags shown to be in range: %s, big forms: %s): a value just outside it is written with a 32-bit form and comes back altered'
                    % (sorted(int_tags['small']), sorted(int_tags['big'])), ctx.where(EB), key='CAST:%sencode_integer:small-tags-outside-i32' % ENC)
    tagflow = (dec, tags_by_variant, int_tags)

    ctx.rule('C15.1-in-memory', 'for every primitive of the serde data model the variants the serialiser builds are accepted by the matching deserialiser method (to_term -> from_term)', floor=14)
    ctx.rule('C15.2-across-wire', 'the variants those terms turn into after encoding and decoding are accepted too (to_bytes -> from_bytes): wide integers come back as big integers, strings as binaries, empty lists as nil', floor=14)
    for m in PRIMS:
        pr = prod(ctx, m)
        ac = acc(ctx, m)
        if pr is None or ac is None:
            ctx.undecided('C15.1-in-memory', m, 'method table not recognised (prod=%s acc=%s)' % (pr, ac))
            continue
        rng = ty_range(m)
        if pr <= ac:
            ctx.ok('C15.1-in-memory', m, 'serialize_%s builds %s, deserialize_%s accepts %s' % (m, sorted(pr), m, sorted(ac)))
        else:
            ctx.bad('C15.1-in-memory', m, 'serialize_%s builds %s but deserialize_%s only accepts %s' % (m, sorted(pr - ac), m, sorted(ac)), key='CLOSURE:%s:in-memory' % m)
        w = set()
        for v in pr:
            w |= wire_of(ctx, v, rng, tagflow)
        if not w:
            ctx.undecided('C15.2-across-wire', m, 'wire image of %s not computed' % sorted(pr))
        elif w <= ac:
            ctx.ok('C15.2-across-wire', m, '%s -> wire -> %s, all accepted' % (sorted(pr), sorted(w)))
        else:
            ctx.bad('C15.2-across-wire', m, 'a %s value serialised as %s comes back from the wire as %s, which deserialize_%s rejects (accepted: %s): to_bytes/from_bytes fails where to_term/from_term succeeds' % (
                m, sorted(pr), sorted(w - ac), m, sorted(ac)), ctx.where(P.B(DES + 'deserialize_' + m)), key='CLOSURE:%s:across-wire:%s' % (m, ','.join(sorted(w - ac))))

    # ---------------- containers ---------------------------------------------------------------------------------
    ctx.rule('C15.3-containers', 'sequences, tuples, maps/structs: the variant built by the compound serialiser (and its wire image) is accepted by the matching deserialiser method', floor=4)
    comp = {
        'seq': ('<erltf_serde::ser::SerializeVec as serde_core::ser::SerializeSeq>::end', 'seq'),
        'tuple': ('<erltf_serde::ser::SerializeVec as serde_core::ser::SerializeTuple>::end', 'tuple'),
        'tuple_struct': ('<erltf_serde::ser::SerializeVec as serde_core::ser::SerializeTupleStruct>::end', 'tuple_struct'),
        'map': ('<erltf_serde::ser::SerializeMap as serde_core::ser::SerializeMap>::end', 'map'),
        'struct': ('<erltf_serde::ser::SerializeMap as serde_core::ser::SerializeStruct>::end', 'struct'),
    }
    for name, (endfn, dm) in comp.items():
        B = P.B(endfn)
        ac = acc(ctx, dm)
        if B is None or ac is None:
            ctx.undecided('C15.3-containers', name, 'not recognised')
            continue
        pr = {st['rv']['var'] for bb, j, st in B.stmts() if st['k'] == '=' and st['rv']['k'] == 'agg' and st['rv'].get('adt') == OWNED}
        w = set()
        for v in pr:
            w |= wire_of(ctx, v, None, tagflow)
        if name in ('seq',):
            w |= {'Nil'} if 106 in tags_by_variant.get('List', ()) else set()
        missing = (pr | w) - ac
        if not missing:
            ctx.ok('C15.3-containers', name, '%s (wire: %s) accepted by deserialize_%s %s' % (sorted(pr), sorted(w), dm, sorted(ac)))
        else:
            ctx.bad('C15.3-containers', name, 'serialised as %s (wire image %s) but deserialize_%s rejects %s' % (sorted(pr), sorted(w), dm, sorted(missing)), key='CLOSURE:%s:%s' % (name, ','.join(sorted(missing))))

    # ---------------- constants: bool / none / unit atoms ---------------------------------------------------------------
    ctx.rule('C15.4-atoms', 'the atoms written for true/false, None and unit are the ones the deserialiser tests for (under the feature configuration of this build)', floor=3)
    def strs(path):
        out = set()
        for B in bodies_of_fn(P, path):
            for bb, t in B.calls():
                for a in t['args']:
                    if a['k'] == 'c' and 's' in a:
                        out.add(a['s'])
            for bb, j, st in B.stmts():
                if st['k'] == '=' and st['rv']['k'] == 'use' and st['rv']['op']['k'] == 'c' and 's' in st['rv']['op']:
                    out.add(st['rv']['op']['s'])
        return out
    pairs = [('bool', SER + 'serialize_bool', DES + 'deserialize_bool'), ('none', SER + 'serialize_none', DES + 'deserialize_option'),
             ('unit', SER + 'serialize_unit', DES + 'deserialize_unit')]
    for name, sp, dp in pairs:
        ws, rs = strs(sp), strs(dp)
        if name == 'unit':
            rs |= strs("erltf_serde::de::Deserializer::<'de>::expect_atom") if False else rs
        ws = {w for w in ws if w and w[0].isalpha() and ' ' not in w}
        if ws and ws <= rs:
            ctx.ok('C15.4-atoms', name, 'writes %s, reader tests %s' % (sorted(ws), sorted(x for x in rs if x in ws)))
        elif not ws:
            ctx.undecided('C15.4-atoms', name, 'no atom literal found in the serialiser')
        else:
            ctx.bad('C15.4-atoms', name, 'serialiser writes atom(s) %s that the deserialiser does not test for (it knows %s)' % (sorted(ws - rs), sorted(rs)), key='CONST:serde:%s' % name)

    # Option: None is told from Some(x) by the term alone, so nothing a Some(x) can look like may read as None
    ctx.rule('C15.4-option-none-set', 'deserialize_option answers None only for the atom(s) serialize_none writes: any other variant sent to visit_none would turn Some(x) into None '
             'for every x that serialises (or decodes) to that variant - e.g. Some(vec![]) arrives from the wire as Nil', floor=1)
    OB = P.B(DES + 'deserialize_option')
    if ctx.anchor(OB is not None, DES + 'deserialize_option'):
        sw = None
        for i in sorted(OB.live_blocks()):
            sd = OB.switch_on_discr(i)
            if sd and sd[1].replace('&', '') == OWNED:
                sw = (i, sd)
                break
        if ctx.anchor(sw is not None, DES + 'deserialize_option:match on the term'):
            i, (pl, ty, cases, els) = sw
            vs = [v['n'] for v in ctx.F.adts[OWNED]['variants']]
            starts = sorted({b for _, b in cases} | {els})
            excl = exclusive_blocks(OB, starts)

            def to_none(blocks):
                return any(OB.blocks[bb]['t']['k'] == 'call' and any(n.rsplit('::', 1)[-1] == 'visit_none' for n in callee_names(OB.blocks[bb]['t'])) for bb in blocks)
            none_vs = sorted(vs[v] for v, b in cases if to_none(excl[b] | {b}))
            if to_none(excl[els] | {els}) and els not in {b for _, b in cases}:
                none_vs.append('<every other variant>')
            extra = [v for v in none_vs if v != 'Atom']
            if extra:
                ctx.bad('C15.4-option-none-set', 'deserialize_option', 'visit_none is reached for %s, not only for the None atom: Some(x) with x serialising to such a term comes back as None' % extra,
                        ctx.where(OB, i), key='TABLE:%sdeserialize_option:none-for:%s' % (DES, ','.join(extra)))
            elif none_vs:
                ctx.ok('C15.4-option-none-set', 'deserialize_option', 'visit_none only inside the Atom arm (atoms tested: %s)' % sorted(x for x in strs(DES + 'deserialize_option') if x and x[0].isalpha()), ctx.where(OB, i))
            else:
                ctx.undecided('C15.4-option-none-set', 'deserialize_option', 'no arm reaching visit_none recognised')

    # ---------------- enum variant shapes -------------------------------------------------------------------------------------
    ctx.rule('C15.5-variant-shapes', 'the four enum-variant shapes produced (atom / {atom,value} / {atom,fields..} / {atom,map}) are the shapes VariantAccess expects', floor=4)
    shapes = {
        'unit_variant': (SER + 'serialize_unit_variant', {'Atom'}),
        'newtype_variant': (SER + 'serialize_newtype_variant', {'Tuple'}),
        'tuple_variant': ('<erltf_serde::ser::SerializeTupleVariant as serde_core::ser::SerializeTupleVariant>::end', {'Tuple'}),
        'struct_variant': ('<erltf_serde::ser::SerializeStructVariant as serde_core::ser::SerializeStructVariant>::end', {'Tuple'}),
    }
    enum_acc = acc(ctx, 'enum') or set()
    for name, (fn, want) in shapes.items():
        B = P.B(fn)
        if B is None:
            ctx.undecided('C15.5-variant-shapes', name, 'serialiser method not found')
            continue
        built = {st['rv']['var'] for bb, j, st in B.stmts() if st['k'] == '=' and st['rv']['k'] == 'agg' and st['rv'].get('adt') == OWNED and 0 in B.derived_locals([st['pl']['l']])}
        outer = built & {'Atom', 'Tuple'}
        if name == 'unit_variant':
            outer = built
        top = {'Tuple'} if 'Tuple' in built else built
        if top <= enum_acc and top == want:
            ctx.ok('C15.5-variant-shapes', name, 'built as %s, deserialize_enum accepts %s' % (sorted(top), sorted(enum_acc)))
        else:
            ctx.bad('C15.5-variant-shapes', name, 'variant is serialised as %s, deserialize_enum accepts %s' % (sorted(top), sorted(enum_acc)), key='TABLE:serde:%s' % name)

    # the atom that names the variant is made from the variant's name, in this call
    ctx.rule('C15.5-variant-atom-from-name', 'in every variant serialiser the atom that tags the value is Atom::new applied to the variant name handed in by serde (or to the name stored in the compound serialiser): '
             'an atom taken from anywhere else - a memo keyed by enum name and index - can be the atom of a variant of another enum of the same name', floor=4)
    for name, (fn, want) in shapes.items():
        B = P.B(fn)
        if B is None:
            continue
        atoms = [(bb, st) for bb, j, st in B.stmts() if st['k'] == '=' and st['rv']['k'] == 'agg' and st['rv'].get('adt') == OWNED and st['rv'].get('var') == 'Atom' and bb in B.live_blocks()]
        if not ctx.anchor(bool(atoms), fn + ': OwnedTerm::Atom literal'):
            continue
        for bb, st in atoms:
            o = unwrap(B.origin(st['rv']['ops'][0]))[0]
            good, why = False, str(o)[:80]
            if o is not None and o[0] == 'call' and str(o[1]) == 'erltf::types::Atom::new':
                ct = B.blocks[o[2]]['t']
                ao = unwrap(B.origin(ct['args'][0]))
                base, projs = ao
                if base is not None and base[0] == 'arg':
                    nm_ = B.local_name(base[1]) if isinstance(base[1], int) else ''
                    fl = [p_ for p_ in list(base[2]) + list(projs) if p_ not in ('deref', '*')]
                    if nm_ == 'variant' and not fl:
                        good = True
                    elif nm_ == 'self' and fl and str(fl[-1]).endswith('name'):
                        good = True
                    else:
                        why = 'Atom::new(%s%s)' % (nm_, ''.join('.' + str(x) for x in fl))
                else:
                    why = 'Atom::new(%s)' % (str(base)[:60],)
            if good:
                ctx.ok('C15.5-variant-atom-from-name', name, 'Atom::new(variant name)', ctx.where(B, bb))
            else:
                ctx.bad('C15.5-variant-atom-from-name', name, 'the tag atom of the %s comes from %s, not from Atom::new of the variant name given for this value: the name written can be that of another variant' % (name.replace('_', ' '), why),
                        ctx.where(B, bb), key='PROV:serde:%s:tag-atom' % name)

    # ---------------- CAST / PANIC in de.rs -------------------------------------------------------------------------------------------
    ctx.rule('C15.6-de-safety', 'no unguarded narrowing cast and no panic-capable site in the deserialiser', floor=3)
    for p in sorted(ctx.F.bodies):
        if p.startswith("<&mut erltf_serde::de::Deserializer") or p.startswith('erltf_serde::de::') or p.startswith('<erltf_serde::de::'):
            if ctx.F.bodies[p]['kind'] in ('Fn', 'AssocFn', 'Closure'):
                B = P.B(p)
                check_casts(ctx, B, 'C15.6-de-safety', include_float=False)
                check_panics(ctx, B, 'C15.6-de-safety', kinds=('index', 'slice', 'bounds', 'unwrap', 'partial'))

    # ---------------- dependencies in erltf ---------------------------------------------------------------------------------
    # variant tags, unit-struct names, true/false/None are written and read through Atom::new: its interning tables must agree
    ctx.rule('C15.4-atom-interning', 'every atom the serialiser writes and the deserialiser compares goes through Atom::new, whose two interning tables agree entry by entry', floor=1)
    from ..etf import check_atom_tables
    check_atom_tables(ctx, 'C15.4-atom-interning')
    # maps and structs are built as BTreeMap<OwnedTerm, _> by the serialiser and by the decoder: distinct keys must not compare Equal
    ctx.rule('C15.3-map-key-order', 'maps are collected into BTreeMap<OwnedTerm, _> (by the serialiser and again by the decoder): two different keys - e.g. two u64 above i64::MAX, carried as big integers - '
             'must never compare Equal; the comparator rules of C11/C12 re-run here', floor=60)
    from ..order import map_key_order_rules
    map_key_order_rules(ctx, 'C15.3-map-key-order', which=('owned',))

    # ---------------- the derive macro: both generated impls name the fields alike -------------------------------------------
    ctx.rule('C15.7-derive-keys', '#[derive(ElixirStruct)] generates the Serialize and the Deserialize impl from the same list of field-name strings: neither generator rewrites the names '
             '(strip_prefix, trim, replace, case changes) unless the other does the same', floor=1)
    from ..families import bodies_of_fn as _bof
    gens = {}
    for g_ in ('generate_serialize_impl', 'generate_deserialize_impl'):
        bs_ = _bof(P, 'erltf_serde_derive::' + g_)
        if not bs_:
            continue
        ops = set()
        for GB in bs_:
            for bb, t in GB.calls():
                n_ = callee_of(t)[0] or ''
                if (n_.startswith('core::str::') or n_.startswith('alloc::str::') or n_.startswith('alloc::string::String::')) and \
                        n_.rsplit('::', 1)[-1] not in ('to_string', 'clone', 'as_str', 'len', 'is_empty', 'to_owned', 'as_ref', 'from', 'new', 'push_str', 'as_bytes'):
                    ops.add(n_.rsplit('::', 1)[-1])
        gens[g_] = ops
    if len(gens) == 2:
        a_, b_ = gens['generate_serialize_impl'], gens['generate_deserialize_impl']
        if a_ == b_:
            ctx.ok('C15.7-derive-keys', 'ElixirStruct', 'neither generator transforms the field names%s' % ('' if not a_ else ' differently (both apply %s)' % sorted(a_)))
        else:
            ctx.bad('C15.7-derive-keys', 'ElixirStruct', 'the Serialize generator applies %s to the field names, the Deserialize generator %s: for some field names (raw identifiers such as r#type) the key written is not the key looked up, '
                    'and the derived type cannot be read back' % (sorted(a_) or 'nothing', sorted(b_) or 'nothing'), key='TWIN:erltf_serde_derive:field-name-transforms')
    else:
        ctx.info_note('derive macro generators not found (crate erltf_serde_derive not part of this build)')

    # wide integers come back from the wire as big integers: the helper that turns them into i64 must not turn away a value that fits
    ctx.rule('C15.2-bigint-acceptance', 'the big-integer -> i64 helper answers None only where the value cannot fit: at every `None` it returns, either the digit count is shown to exceed 8 bytes '
             'or the 64-bit magnitude is shown to be at least 2^63 (interval analysis at the return site)', floor=1)
    from ..ranges import Ranges as _Rng
    helpers = [q for q, b_ in ctx.F.bodies.items() if q.startswith('erltf_serde::') and b_['kind'] in ('Fn', 'AssocFn') and b_.get('argc', 0) >= 1
               and any('BigInt' in b_['locals'][i]['ty'] for i in range(1, b_['argc'] + 1)) and b_['locals'][0]['ty'] == 'core::option::Option<i64>']
    HB = P.B(helpers[0]) if helpers else None
    if ctx.anchor(HB is not None, 'a helper of erltf_serde taking a BigInt and returning Option<i64>'):
        Rh = _Rng(HB)
        mag = [(bb, t) for bb, t in HB.calls() if (callee_of(t)[0] or '').endswith('::from_le_bytes') or (callee_of(t)[0] or '').endswith('::from_be_bytes')]
        k_ = 0
        for bb, j, st in HB.stmts():
            if not (st['k'] == '=' and st['rv']['k'] == 'agg' and st['rv'].get('adt') == 'core::option::Option' and st['rv'].get('var') == 'None'):
                continue
            if not (st['pl']['l'] == 0 or 0 in HB.derived_locals([st['pl']['l']])):
                continue
            k_ += 1
            inst = 'bigint_to_i64:None#%d' % k_
            where = ctx.where(HB, ln=st['ln'])
            dom = [(mb, mt) for mb, mt in mag if HB.block_dominates(mb, bb) and mb != bb]
            if dom:
                mb, mt = dom[-1]
                lo, hi = Rh.range_of({'k': 'cp', 'pl': mt['dst']}, bb)
                if lo >= 2 ** 63:
                    ctx.ok('C15.2-bigint-acceptance', inst, 'magnitude in [%s, %s]: does not fit i64' % (lo, hi), where)
                else:
                    ctx.bad('C15.2-bigint-acceptance', inst, 'None is returned for magnitudes from %s on, but every magnitude up to 2^63-1 (and 2^63 for a negative value) is an i64: such a value serialises to a big integer and fails to deserialise' % lo,
                            where, key='RANGE:erltf_serde::de::bigint_to_i64:rejects-fitting-value')
            else:
                lens = [(lb, lt) for lb, lt in HB.calls() if (callee_of(lt)[0] or '').endswith('::len') and HB.block_dominates(lb, bb)]
                lo = None
                for lb, lt in lens:
                    r_ = Rh.range_of({'k': 'cp', 'pl': lt['dst']}, bb)
                    lo = r_[0] if lo is None else max(lo, r_[0])
                if lo is not None and lo >= 9:
                    ctx.ok('C15.2-bigint-acceptance', inst, 'digit count >= %s: more than 8 bytes' % lo, where)
                elif lo is None:
                    ctx.undecided('C15.2-bigint-acceptance', inst, 'None returned before the magnitude is formed and no digit count in sight', where)
                else:
                    ctx.bad('C15.2-bigint-acceptance', inst, 'None is returned for big integers of %s digit bytes on, although up to 8 bytes may hold an i64' % lo, where,
                            key='RANGE:erltf_serde::de::bigint_to_i64:rejects-short-digits')
        if k_ == 0:
            # no hand-written `None`: the rejections come from checked std operations, which turn away exactly what does not fit
            chk = sorted({(callee_of(t)[0] or '').rsplit('::', 1)[-1] for bb, t in HB.calls() if (callee_of(t)[0] or '').rsplit('::', 1)[-1] in
                          ('try_from', 'try_into', 'checked_sub_unsigned', 'checked_neg', 'checked_sub', 'checked_add_unsigned', 'checked_abs')})
            if chk:
                ctx.ok('C15.2-bigint-acceptance', 'bigint_to_i64:checked', 'no literal None: every rejection is the failure of a checked std conversion (%s) or of the digit-count helper' % ', '.join(chk), ctx.where(HB))
            else:
                ctx.undecided('C15.2-bigint-acceptance', 'bigint_to_i64', 'no None literal and no checked conversion recognised', ctx.where(HB))
        ctx.anchor(bool(mag) or k_ == 0, 'the magnitude is formed with from_le_bytes / from_be_bytes')

    # a char is up to four bytes of UTF-8: where the deserialiser hands out a char, the byte length of the text it came from
    # must not have been pinned below 4 (a byte length standing in for a character count turns every non-ASCII char away)
    ctx.rule('C15.2-char-width', 'at every visit_char the interval analysis allows the byte length of the source text to reach 4: no test on the way there restricts it to fewer bytes than a character may have', floor=1)
    n_vc = 0
    for q in sorted(ctx.F.bodies):
        if not (q.startswith('<') and 'erltf_serde::de::' in q and q.split('::{')[0].endswith('::deserialize_char')):
            continue
        CB_ = P.B(q)
        Rc = _Rng(CB_)
        lens = [(lb, lt) for lb, lt in CB_.calls() if (callee_of(lt)[0] or '').rsplit('::', 1)[-1] == 'len' and lt.get('dst')]
        for vb, vt in CB_.calls():
            if not any(n.endswith('::visit_char') for n in callee_names(vt)):
                continue
            n_vc += 1
            inst = '%s:visit_char@%d' % (q.split(' as ')[0].lstrip('<&mut ').split("<")[0], n_vc)
            worst = None
            for lb, lt in lens:
                if not CB_.block_dominates(lb, vb):
                    continue
                r_ = Rc.range_of({'k': 'cp', 'pl': lt['dst']}, vb)
                if r_[1] < 4:
                    worst = r_
            if worst is not None:
                ctx.bad('C15.2-char-width', inst, 'the char is handed out only when the byte length of its text is in [%s, %s]: every character of more than %s byte(s) (U+0080 and up) is refused after a trip through bytes' % (worst[0], worst[1], worst[1]),
                        ctx.where(CB_, vb), key='RANGE:%s:char-byte-length' % q.split('::{')[0])
            else:
                ctx.ok('C15.2-char-width', inst, 'no byte-length restriction below 4 on the way to visit_char', ctx.where(CB_, vb))
    ctx.anchor(n_vc >= 1, 'visit_char calls in deserialize_char')

    from ..families import check_error_swallow as _swallow
    ctx.rule('C15.6-errors-surface', 'in the functions of this property that can themselves report failure, the Result of one of the repository\'s own fallible functions is never turned into "nothing" or a default (ok(), unwrap_or*, map_or*): an error must surface as an error, not as a value the callee never produced; a rule about what must not be there (exercised on the fixture every run)', floor=0)
    _swallow(ctx, P, 'C15.6-errors-surface', ('erltf_serde::ser::', 'erltf_serde::de::', 'erltf_serde::lib', 'erltf_serde::to_', 'erltf_serde::from_'))

    # the digits of a big integer are as many as the number needs (the wire form is trimmed): nothing may insist on exactly 8
    ctx.rule('C15.2-bigint-any-length', 'no deserialiser converts the digit vector of a big integer into a fixed-size array ([u8; N]::try_from / try_into): the conversion succeeds only for exactly N digits, '
             'and a u64 between 2^31 and 2^56 comes back from the wire with 4 to 7', floor=0)
    n_ba = 0
    for q in sorted(ctx.F.bodies):
        if 'erltf_serde::de' not in q:
            continue
        DB = P.B(q)
        for bb, t in DB.calls():
            nm = callee_of(t)[0] or ''
            if not (nm.endswith('TryFrom::try_from') or nm.endswith('TryInto::try_into')):
                continue
            dty = DB.local_ty(t['dst']['l']) if not t['dst'].get('p') else ''
            if not re.search(r'Result<\[u8; \d+\]', dty):
                continue
            src = str(canon(DB, t['args'][0])) + str(DB.origin(t['args'][0]))
            if "'digits'" in src or 'digits' in src:
                n_ba += 1
                ctx.bad('C15.2-bigint-any-length', '%s:try_from' % q.split('::{')[0].rsplit('::', 1)[-1], 'the digits of the big integer are converted into %s: only a digit vector of exactly that length is accepted, shorter (trimmed) ones are refused'
                        % re.search(r'\[u8; \d+\]', dty).group(0), ctx.where(DB, bb), key='SHAPE:%s:digits-fixed-length' % q.split('::{')[0])
    if n_ba == 0:
        ctx.ok('C15.2-bigint-any-length', 'de', 'no fixed-size conversion of big-integer digits')

    # every f32 widens to an f64 (the infinities included): a magnitude test that refuses doubles must let the infinities through
    ctx.rule('C15.2-float-infinities', 'where a float deserialiser compares the magnitude of the double it received against a bound, the same function also tests for (in)finiteness: '
             'abs(f) > f32::MAX is true of the infinities, which are values of f32', floor=0)
    n_fi = 0
    for q in sorted(ctx.F.bodies):
        base = q.split('::{')[0]
        if 'erltf_serde::de' not in q or not (base.endswith('::deserialize_f32') or base.endswith('::deserialize_f64')):
            continue
        DB = P.B(q)
        cmps = [(bb, st) for bb, j, st in DB.stmts() if st['k'] == '=' and st['rv']['k'] == 'bin' and st['rv']['op'] in ('Lt', 'Le', 'Gt', 'Ge') and st['rv'].get('ty') in ('f64', 'f32')]
        fin = [bb for bb, t in DB.calls() if (callee_of(t)[0] or '').rsplit('::', 1)[-1] in ('is_finite', 'is_infinite')]
        for bb, st in cmps:
            n_fi += 1
            if fin:
                ctx.ok('C15.2-float-infinities', '%s:cmp' % base.rsplit('::', 1)[-1], 'magnitude test accompanied by a finiteness test', ctx.where(DB, ln=st['ln']))
            else:
                ctx.bad('C15.2-float-infinities', '%s:cmp' % base.rsplit('::', 1)[-1], '%s compares the magnitude of the received double with a bound but never asks whether it is finite: +/-infinity, a value of the target type, takes the out-of-range branch'
                        % base.rsplit('::', 1)[-1], ctx.where(DB, ln=st['ln']), key='SHAPE:%s:magnitude-test-without-finiteness' % base)
    if n_fi == 0:
        ctx.ok('C15.2-float-infinities', 'de', 'the float deserialisers apply no magnitude test')

    # to_bytes goes through the term encoder: what it writes for lengths and counts must be what is there
    if type(ctx).__name__ != 'SubCtx':
        ctx.rule('C15.2-encoder-counts', 'the byte path of the serde layer is the term encoder and decoder: every length / arity / count the encoder writes in a narrower width is range-guarded, every emitted layout is the one the decoder reads '
                 'and the bytes returned are those of a buffer of that call (rules C01.3-no-truncation, C01.2-writer-vs-reader, C01.1-own-buffer, C01.2-elements-written re-run): a sequence of exactly 65536 small integers must not be written with a 16-bit count of 0', floor=10)
        from ..order import SubCtx as _Sub15
        from . import c01 as _c01
        _c01.run(_Sub15(ctx, 'C15.2-encoder-counts', 'c01', allow=('C01.3-no-truncation', 'C01.2-writer-vs-reader', 'C01.1-own-buffer', 'C01.2-elements-written')))

    # the derived Serialize writes a module atom; the derived Deserialize must insist on that very atom
    ctx.rule('C15.7-derive-module-name', '#[derive(ElixirStruct)] hands the same module-name string to the generator of Serialize (which writes it as __struct__) and to the generator of Deserialize (which compares __struct__ with it): '
             'a generator that is given the bare alias instead accepts maps tagged with a different module atom', floor=1)
    DB_ = P.B('erltf_serde_derive::derive_elixir_struct')
    if DB_ is not None:
        calls_ = {}
        for bb, t in DB_.calls():
            n_ = callee_of(t)[0] or ''
            if n_ in ('erltf_serde_derive::generate_serialize_impl', 'erltf_serde_derive::generate_deserialize_impl'):
                calls_[n_.rsplit('::', 1)[1]] = (bb, t)
        if len(calls_) == 2:
            (sb_, st_), (db_, dt_) = calls_['generate_serialize_impl'], calls_['generate_deserialize_impl']
            s_strs = [canon(DB_, a) for a, ty in zip(st_['args'], st_.get('aty') or []) if ty.replace("'_ ", '') in ('&str', "&'static str")]
            d_strs = [canon(DB_, a) for a, ty in zip(dt_['args'], dt_.get('aty') or []) if ty.replace("'_ ", '') in ('&str', "&'static str")]
            if s_strs and d_strs and s_strs == d_strs:
                ctx.ok('C15.7-derive-module-name', 'module-name', 'both generators receive the same module-name value', ctx.where(DB_, db_))
            elif not s_strs or not d_strs:
                ctx.undecided('C15.7-derive-module-name', 'module-name', 'string arguments of the two generators not found (%s / %s)' % (len(s_strs), len(d_strs)), ctx.where(DB_, db_))
            else:
                ctx.bad('C15.7-derive-module-name', 'module-name', 'the Deserialize generator is given another module-name value than the Serialize generator: the atom checked on the way in is not the atom written on the way out', ctx.where(DB_, db_),
                        key='TWIN:erltf_serde_derive::derive_elixir_struct:module-name-arguments')
        else:
            ctx.undecided('C15.7-derive-module-name', 'module-name', 'calls of the two generators not found in derive_elixir_struct')
    else:
        ctx.info_note('derive macro crate not part of this build')

    # a newtype wrapper holds ONE value: whatever that value serialises to becomes one element
    ctx.rule('C15.5-newtype-payload-opaque', 'serialize_newtype_variant places the serialised inner value as a single element and never looks at its kind: '
             'a serialiser that splices a tuple-shaped payload into the variant\'s own tuple writes {Variant, a, b} for Variant((a, b)), which the deserialiser reads as a tuple variant', floor=1)
    n_np = 0
    for fnm in ('serialize_newtype_variant',):     # (serialize_newtype_struct looks at the payload on purpose: the atom markers)
        for NBv in bodies_of_fn(P, SER + fnm):
            inner = [(bb, t) for bb, t in NBv.calls() if any(n.endswith('ser::Serialize::serialize') or n.endswith('::serialize') and 'Serialize' in n for n in callee_names(t))]
            if not inner:
                continue
            n_np += 1
            der = NBv.derived_locals([t['dst']['l'] for bb, t in inner if not t['dst'].get('p')])
            peeks = [(bb, st) for bb, j, st in NBv.stmts() if st['k'] == '=' and st['rv']['k'] == 'discr' and st['rv']['pl']['l'] in der
                     and str(st['rv'].get('ty', '')).replace('&', '').split('<')[0] == OWNED]
            if peeks:
                ctx.bad('C15.5-newtype-payload-opaque', fnm, '%s branches on the kind of the serialised inner value: a payload that is itself a tuple (a Rust tuple, a nested data-carrying variant) is not kept as one element' % fnm,
                        ctx.where(NBv, peeks[0][0]), key='SHAPE:%s%s:payload-inspected' % (SER, fnm))
            else:
                ctx.ok('C15.5-newtype-payload-opaque', fnm, 'the inner value is moved into the result without being looked at', ctx.where(NBv))
    ctx.anchor(n_np >= 1, SER + 'serialize_newtype_variant: the call that serialises the inner value')


_run_before_scope_rule = run


def run(ctx):
    _run_before_scope_rule(ctx)
    scoped_thread_local_restored(ctx, 'C15.7-scoped-state-restored')


def scoped_thread_local_restored(ctx, rule):
    """a thread-local value set for the duration of a call is put back to what it was, not to a constant"""
    P = ctx.P
    ctx.rule(rule, 'a function that sets a thread-local cell, runs other code (a callback, the nested serializer) and sets the cell again on the way out writes back the value it found there: '
             'scopes nest (a struct inside a struct), and a constant written on the way out of the inner scope switches the outer one off for the rest of its fields. A rule about what must not be there', floor=0)
    n = 0
    for q in sorted(ctx.F.bodies):
        if not q.lstrip('<').startswith(('erltf::', 'erltf_serde::', 'edp_elixir_terms::')) or '::tests::' in q or ctx.F.bodies[q]['kind'] not in ('Fn', 'AssocFn', 'Closure'):
            continue
        DB = P.B(q)
        sets = {}
        for bb, t in DB.calls():
            if bb not in DB.live_blocks():
                continue
            for nm in callee_names(t):
                if 'thread::local::LocalKey::<core::cell::Cell<' in nm and nm.rsplit('::', 1)[1] in ('set', 'replace') and len(t['args']) >= 2:
                    key = str(DB.origin(t['args'][0]))
                    sets.setdefault(key, []).append((bb, nm.rsplit('::', 1)[1], t))
        for key, ss in sorted(sets.items()):
            if len(ss) < 2:
                continue
            # the writes on the way out: those reachable from another write to the same key with some other call in between
            for bb, op, t in ss:
                before = [b0 for b0, op0, t0 in ss if b0 != bb and bb in DB.reachable(b0)]
                if not before:
                    continue
                between = [b1 for b1, t1 in DB.calls() if b1 not in (bb,) and all(b1 != b0 for b0 in before) and any(b1 in DB.reachable(b0) for b0 in before) and bb in DB.reachable(b1)
                           and not any('thread::local::LocalKey' in n_ for n_ in callee_names(t1))]
                if not between:
                    continue
                n += 1
                o = DB.origin(t['args'][1])
                name = q.split('::{')[0].rsplit('::', 1)[1]
                kshort = key.rsplit('::', 1)[-1].strip("')")
                if o and o[0] == 'const':
                    ctx.bad(rule, '%s:%s' % (name, kshort), '%s sets the thread-local %s on the way in and writes the constant %s on the way out instead of the value it found: '
                            'leaving a nested scope switches the enclosing one off' % (name, kshort, o[1]), ctx.where(DB, bb), key='SHAPE:%s:scope-exit-writes-constant:%s' % (q.split('::{')[0], kshort))
                else:
                    ctx.ok(rule, '%s:%s' % (name, kshort), 'the value written on the way out is computed (the saved one)', ctx.where(DB, bb))
        # ... and on every way out: an early return between the write on the way in and the write that puts the value back leaves the cell advanced for good
        for key, ss in sorted(sets.items()):
            if len(ss) < 2:
                continue
            entries = [(bb, t) for bb, op, t in ss if not any(b0 != bb and bb in DB.reachable(b0) for b0, _o, _t in ss)]
            exits = [bb for bb, op, t in ss if (bb, t) not in entries]
            name = q.split('::{')[0].rsplit('::', 1)[1]
            kshort = key.rsplit('::', 1)[-1].strip("')")
            for bb, t in entries:
                nxt = t.get('t')
                if nxt is None or not exits:
                    continue
                n += 1
                if DB.all_paths_pass(nxt, set(exits)):
                    ctx.ok(rule, '%s:%s:every-exit' % (name, kshort), 'every way out after the first write passes a write that puts the value back', ctx.where(DB, bb))
                else:
                    ctx.bad(rule, '%s:%s:every-exit' % (name, kshort), '%s changes the thread-local %s and has a way out (an early return, a `?`) that does not pass the write which puts it back: '
                            'each such call leaves the cell advanced, and what the cell guards (a depth limit, a mode) goes wrong for every later call on the thread' % (name, kshort), ctx.where(DB, bb),
                            key='SHAPE:%s:thread-local-not-restored-on-every-exit:%s' % (q.split('::{')[0], kshort))
    if n == 0:
        ctx.ok(rule, 'none', 'no thread-local cell is set around a call')
