"""C08 — control messages parse and serialise losslessly with the protocol's numbering.

TABLE rules over edp_client::control: enum discriminants == TryFrom<u8> arms ==
spec; from_term (tag, arity guard, element->field map) vs to_term vs into_term vs
spec; Generic fallback; CAST and PANIC(index) obligations inside those functions.
"""
import re
import json, os
from ..core import (callee_of, callee_names, is_call_to, fold, dominating_edges, exclusive_blocks,
                    snake, camel_from_upper)
from ..families import check_casts, describe
from ..ranges import Ranges, canon

MOD = 'edp_client::control::'
CM = MOD + 'ControlMessage'
CMT = MOD + 'ControlMessageType'
SPEC = os.path.join(os.path.dirname(os.path.dirname(os.path.dirname(os.path.abspath(__file__)))),
                    'spec', 'control_messages.json')


def load_spec():
    return json.load(open(SPEC))


def enum_table(ctx, adt_path):
    """variant name -> discriminant value"""
    a = ctx.F.adts.get(adt_path)
    if not ctx.anchor(a is not None, adt_path):
        return {}
    return {v['n']: int(v['discr']) for v in a['variants']}


def tryfrom_table(ctx):
    """TryFrom<u8>::try_from: wire number -> constructed ControlMessageType variant."""
    path = '<edp_client::control::ControlMessageType as core::convert::TryFrom<u8>>::try_from'
    B = ctx.body(path)
    if B is None:
        return None, None
    table = {}
    sw = None
    for i in sorted(B.live_blocks()):
        t = B.blocks[i]['t']
        if t['k'] == 'switch' and t['dty'] == 'u8':
            sw = i
            break
    if not ctx.anchor(sw is not None, path + ':switch(u8)'):
        return None, B
    t = B.blocks[sw]['t']
    starts = sorted({b for _, b in t['cases']} | {t['else']})
    excl = exclusive_blocks(B, starts)
    built = {}
    for s in starts:
        vs = set()
        for bb in excl[s]:
            for st in B.blocks[bb]['s']:
                if st['k'] == '=' and st['rv']['k'] == 'agg' and st['rv'].get('adt') == CMT:
                    vs.add(st['rv']['var'])
        built[s] = vs
    for v, b in t['cases']:
        table[v] = built[b]
    table['else'] = built[t['else']]
    return table, B


def ser_table(ctx, fn):
    """to_term / into_term: variant -> (tag origin, [element descriptors])
    element descriptor = ('field', name) | ('field_cast', name, from, to) | ('const', v) | ('other', text)"""
    B = ctx.body(CM + '::' + fn)
    if B is None:
        return None, None
    sw = None
    for i in sorted(B.live_blocks()):
        s = B.switch_on_discr(i)
        if s and s[1] in (CM, '&' + CM) or (s and CM in s[1]):
            sw = i
            break
    if not ctx.anchor(sw is not None, CM + '::' + fn + ':switch(discriminant(self))'):
        return None, B
    pl, ty, cases, els = B.switch_on_discr(sw)
    variants = ctx.F.adts[CM]['variants']
    starts = sorted({b for _, b in cases})
    excl = exclusive_blocks(B, starts)
    table = {}
    for v, b in cases:
        vname = variants[v]['n']
        arrays = []
        extends = []
        for bb in sorted(excl[b]):
            for st in B.blocks[bb]['s']:
                if st['k'] == '=' and st['rv']['k'] == 'agg' and st['rv']['ak'] == 'array' \
                        and 'OwnedTerm' in st['rv'].get('ty', ''):
                    arrays.append((bb, st))
            t = B.blocks[bb]['t']
            if t['k'] == 'call' and (is_call_to(t, 'extend_from_slice') or is_call_to(t, 'Extend::extend')
                                     or is_call_to(t, 'append')):
                extends.append((bb, t))
        if len(arrays) != 1:
            table[vname] = ('undecided', 'expected one tuple literal, found %d' % len(arrays))
            continue
        bb, st = arrays[0]
        elems = [elem_desc(B, op, vname) for op in st['rv']['ops']]
        ext = None
        if extends:
            ebb, et = extends[0]
            ext = elem_desc(B, et['args'][1], vname)
        table[vname] = ('ok', elems, ext, st['ln'])
    return table, B


def _returns_own_discriminant(FB):
    """a one-block function whose result is the discriminant of its first argument, cast: `fn as_u8(self) -> u8 { self as u8 }`"""
    if FB is None or len([b for b in FB.live_blocks()]) != 1 or FB.b.get('argc', 0) != 1:
        return False
    disc, copies = None, {1}
    for bb, j, st in FB.stmts():
        if st['k'] != '=' or st['pl'].get('p'):
            continue
        rv = st['rv']
        if rv['k'] == 'use' and rv['op'].get('k') in ('cp', 'mv') and not rv['op']['pl'].get('p') and rv['op']['pl']['l'] in copies:
            copies.add(st['pl']['l'])
        elif rv['k'] == 'discr' and not rv['pl'].get('p') and rv['pl']['l'] in copies:
            disc = st['pl']['l']
        elif rv['k'] == 'cast' and rv['op'].get('k') in ('cp', 'mv') and rv['op']['pl']['l'] == disc and st['pl']['l'] == 0:
            return True
        elif rv['k'] == 'use' and rv['op'].get('k') in ('cp', 'mv') and rv['op']['pl']['l'] == disc and st['pl']['l'] == 0:
            return True
    return False


def elem_desc(B, op, vname):
    o = B.origin(op)
    return _desc_origin(B, o, vname)


def _desc_origin(B, o, vname):
    k = o[0]
    if k == 'agg':
        rv = o[1]
        if rv.get('adt', '').endswith('OwnedTerm') and rv['var'] == 'Integer':
            inner = B.origin(rv['ops'][0])
            c = fold(inner)
            if c is None:
                # `tag as i64` of an enum literal handed to a (spliced-in) helper: the discriminant of that variant
                x = inner
                for _ in range(6):
                    if x[0] == 'cast':
                        x = x[3]
                    elif x[0] == 'call' and _PROGRAM is not None and isinstance(x[1], str) and x[1].endswith('::from') and 'core::convert::From<' in x[1] and x[1].split(' as ')[0].lstrip('<') in ('i64', 'u64', 'i32', 'u32', 'i128', 'u16', 'usize', 'isize'):
                        # i64::from(x): a lossless widening
                        t_ = B.blocks[x[2]]['t']
                        x = B.origin(t_['args'][0]) if t_['args'] else ('other',)
                    elif x[0] == 'call' and _PROGRAM is not None and isinstance(x[1], str) and x[1] in _PROGRAM.F.bodies and _returns_own_discriminant(_PROGRAM.B(x[1])):
                        # an accessor that answers `self as u8`
                        t_ = B.blocks[x[2]]['t']
                        x = ('discr', B.origin(t_['args'][0])) if t_['args'] else ('other',)
                    else:
                        break
                if x[0] == 'discr' and isinstance(x[1], tuple) and x[1][0] == 'agg' and x[1][1].get('ak') == 'adt' and _PROGRAM is not None:
                    ad = _PROGRAM.F.adts.get(x[1][1].get('adt'))
                    vi = x[1][1].get('vi')
                    if ad and vi is not None and vi < len(ad['variants']):
                        try:
                            c = int(ad['variants'][vi]['discr'])
                        except Exception:
                            c = None
            if c is not None:
                return ('int_const', c)
            d = _desc_origin(B, inner, vname)
            return ('int_of',) + (d,)
        return ('other', 'agg ' + rv.get('adt', rv['ak']))
    if k == 'cast':
        d = _desc_origin(B, o[3], vname)
        return ('cast', o[1], o[2], d)
    if k == 'arg':
        projs = [p for p in o[2] if not p.startswith('as:')]
        if len(projs) == 1:
            return ('field', projs[0])
        return ('other', 'arg' + '.'.join(o[2]))
    if k == 'const':
        return ('const', o[1])
    if k == 'local':
        # moved-out bindings of `match self {V{a,b}}` in into_term: local assigned from (self as V).a
        return ('other', 'local')
    return ('other', str(k))


def parse_table(ctx):
    """from_term: for each constructed ControlMessage variant: (tags, arity, {field: element index})."""
    B = ctx.body(CM + '::from_term')
    if B is None:
        return None, None
    R = Ranges(B)
    out = []
    variants = {v['n']: [f['n'] for f in v['fields']] for v in ctx.F.adts[CM]['variants']}
    for bb, j, st in B.stmts():
        if st['k'] != '=' or st['rv']['k'] != 'agg' or st['rv'].get('adt') != CM:
            continue
        rv = st['rv']
        vname = rv['var']
        tags, arity, other = None, None, []
        for (src, vals, dst) in dominating_edges(B, bb):
            sd = B.switch_on_discr(src)
            if sd and sd[1] == CMT:
                tags = [v for v in vals if v != 'else'] if 'else' not in vals else 'else'
                continue
            sb = B.switch_bool_edges(src)
            if sb:
                source, t_t, f_t = sb
                if source[0] == 'bin' and source[2]['op'] == 'Eq' and dst == t_t:
                    ca = canon(B, source[2]['a'])
                    cb = canon(B, source[2]['b'])
                    for x, y in ((ca, cb), (cb, ca)):
                        if x[0] == 'len' and y[0] == 'const':
                            arity = (y[1], describe(B, x[1]))
        fields = {}
        for fname, op in zip(rv['fn'], rv['ops']):
            fields[fname] = field_source(B, op)
        out.append({'variant': vname, 'tags': tags, 'arity': arity, 'fields': fields, 'bb': bb, 'ln': st['ln']})
    return out, B


def field_source(B, op):
    """Where a constructed field comes from: ('elem', k) | ('elem_from', k) | ('int_elem', k, cast) | other"""
    o = B.origin(op)
    return _src(B, o, 0)


def _src(B, o, depth):
    if depth > 10:
        return ('other', 'deep')
    k = o[0]
    if k == 'cast':
        inner = _src(B, o[3], depth + 1)
        return ('cast', o[1], o[2], inner)
    if k == 'call':
        name = o[1] or ''
        t = B.blocks[o[2]]['t']
        if name.endswith('core::mem::take') or name.endswith('mem::take'):
            # `mem::take(&mut xs[i])` with a built-in slice index (a spliced-in helper indexes its slice parameter this way)
            a0 = t['args'][0]
            if a0.get('k') in ('cp', 'mv') and not a0['pl'].get('p'):
                d0 = B.single_def(a0['pl']['l']) or B.reaching_def(a0['pl']['l'], (o[2], None))
                for _ in range(4):
                    # reborrows `&mut *r`
                    if d0 and d0[0] == 's' and d0[3]['rv']['k'] == 'ref' and (d0[3]['rv']['pl'].get('p') or []) == ['*']:
                        l_ = d0[3]['rv']['pl']['l']
                        d0 = B.single_def(l_) or B.reaching_def(l_, (d0[1], d0[2]))
                    else:
                        break
                if d0 and d0[0] == 's' and d0[3]['rv']['k'] == 'ref':
                    ps_ = d0[3]['rv']['pl'].get('p') or []
                    ix = [e for e in ps_ if isinstance(e, dict) and ('idx' in e or 'cidx' in e)]
                    if len(ix) == 1 and isinstance(ps_[-1], dict) and ps_[-1] is ix[0]:
                        c = ix[0]['cidx'] if 'cidx' in ix[0] else fold(B.origin({'k': 'cp', 'pl': {'l': ix[0]['idx']}}, at=(d0[1], d0[2])))
                        if c is not None and not ix[0].get('from_end'):
                            base = B.origin_place({'l': d0[3]['rv']['pl']['l'], 'p': [e for e in ps_ if e is not ix[0]]}, at=(d0[1], d0[2]))
                            while base[0] in ('call',) and base[1] and (base[1].endswith('deref_mut') or base[1].endswith('::deref') or base[1].endswith('as_mut_slice') or base[1].endswith('as_mut')):
                                base = B.origin(B.blocks[base[2]]['t']['args'][0])
                            return ('elem', c, _base_name(B, base))
            return _src(B, B.origin(t['args'][0]), depth + 1)
        if 'Index' in name and ('::index' in name):
            base = B.origin(t['args'][0])
            idx = t['args'][1]
            io = B.origin(idx)
            c = fold(io)
            if c is not None:
                return ('elem', c, _base_name(B, base))
            if io[0] == 'agg' and io[1].get('adt', '').endswith('RangeFrom'):
                c2 = fold(B.origin(io[1]['ops'][0]))
                return ('elems_from', c2, _base_name(B, base))
            return ('other', 'index ?')
        if name.endswith('to_vec'):
            return _src(B, B.origin(t['args'][0]), depth + 1)
        m_ = re.search(r'TryFrom<(\w+)> for (\w+)>::try_from$', name) or re.search(r'TryInto<(\w+)> for (\w+)>::try_into$', name)
        if m_ and t['args']:
            # a checked conversion is a cast that cannot lose anything
            fr_, to_ = (m_.group(1), m_.group(2)) if 'TryFrom' in name else (m_.group(2), m_.group(1))
            return ('cast', fr_, to_, _src(B, B.origin(t['args'][0]), depth + 1))
        if name.endswith('OwnedTerm::as_integer'):
            return ('as_integer', _src(B, B.origin(t['args'][0]), depth + 1))
        # a helper of the crate that returns one element of the sequence it is given: helper(elements, k) == elements[k]
        acc = _element_accessor(name)
        if acc is not None and len(t['args']) > max(acc):
            c = fold(B.origin(t['args'][acc[1]]))
            if c is not None:
                return ('elem', c, _base_name(B, B.origin(t['args'][acc[0]])))
        return ('call', name)
    if k in ('payload', 'try'):
        # `x?` / Some(..)/Ok(..) payload of x
        return _src(B, o[1], depth + 1)
    if k == 'proj':
        return _src_try(B, o, depth)
    if k == 'local':
        return _src_local(B, o, depth)
    if k == 'arg':
        return ('arg', o[1], o[2])
    if k == 'const':
        return ('const', o[1])
    return ('other', k)


_PROGRAM = None


def _element_accessor(name):
    """(index of the sequence parameter, index of the position parameter) if function `name` of this repository returns
    (a take / clone of) sequence[position] and nothing else"""
    if _PROGRAM is None or not name.startswith('edp_client::'):
        return None
    HB = _PROGRAM.B(name)
    if HB is None or HB.b['argc'] < 2:
        return None
    # built-in slice indexing: a place (*seq)[idx] with seq and idx both parameters
    n_calls = sum(1 for _ in HB.calls())
    for bb, j, st in HB.stmts():
        if st['k'] != '=' or st['rv']['k'] not in ('ref', 'use'):
            continue
        pl = st['rv']['pl'] if st['rv']['k'] == 'ref' else (st['rv']['op'].get('pl') if st['rv']['op']['k'] in ('cp', 'mv') else None)
        if not pl:
            continue
        idxs = [e['idx'] for e in (pl.get('p') or []) if isinstance(e, dict) and 'idx' in e]
        if len(idxs) == 1 and 1 <= pl['l'] <= HB.b['argc'] and n_calls <= 3:
            io = HB.origin({'k': 'cp', 'pl': {'l': idxs[0]}})
            if io[0] == 'arg' and not io[2]:
                d = HB.derived_locals([st['pl']['l']]) | {st['pl']['l']}
                if 0 in d:
                    return (pl['l'] - 1, io[1] - 1)
    for bb, t in HB.calls():
        g = callee_of(t)[0] or ''
        if 'Index' in g and '::index' in g and len(t['args']) > 1:
            base, idx = HB.origin(t['args'][0]), HB.origin(t['args'][1])
            if base[0] == 'arg' and idx[0] == 'arg' and not idx[2]:
                # the returned value derives from this element
                d = HB.derived_locals([t['dst']['l']]) | {t['dst']['l']}
                if 0 in d and sum(1 for _ in HB.calls() if True) <= 4:
                    return (base[1] - 1, idx[1] - 1)
    return None


def _src_try(B, o, depth):
    base = o[1]
    if base[0] == 'call':
        return _src(B, base, depth + 1)
    return ('other', 'proj')


def _src_local(B, o, depth):
    # multi-def locals: unresolved
    return ('other', 'local:%s' % (B.local_name(o[1]) or o[1]))


def _base_name(B, base):
    if base[0] in ('local', 'arg'):
        return B.local_name(base[1]) or str(base[1])
    return str(base[0])


def unwrap_try(B, o):
    """origin of `x?` value: ('call', Try::branch) with projection Continue.0 -> the inner call origin."""
    return o


def run(ctx):
    global _PROGRAM
    _PROGRAM = ctx.P
    spec = load_spec()
    by_tag = {m['tag']: m for m in spec['messages']}
    by_name = {camel_from_upper(m['name']): m for m in spec['messages']}
    aliases = spec['field_aliases']

    # ---- clause 1: enum discriminants == TryFrom arms == spec ------------------
    ctx.rule('C08.1-enum-vs-spec', 'every ControlMessageType discriminant is the protocol number of the operation of that name; no number missing, none invented', floor=30)
    enum = enum_table(ctx, CMT)
    nums = {}
    for name, d in enum.items():
        nums.setdefault(d, []).append(name)
        m = by_name.get(name)
        if m is None:
            if d in by_tag:
                ctx.undecided('C08.1-enum-vs-spec', name, 'variant name not in the protocol table; number %d belongs to %s' % (d, by_tag[d]['name']))
            else:
                ctx.bad('C08.1-enum-vs-spec', name, 'variant %s = %d: neither name nor number exists in the protocol table' % (name, d),
                        key='TABLE:%s::%s:number-not-in-protocol' % (CMT, name))
        elif m['tag'] != d:
            ctx.bad('C08.1-enum-vs-spec', name, 'variant %s = %d but the protocol assigns %s = %d' % (name, d, m['name'], m['tag']),
                    key='TABLE:%s::%s:number' % (CMT, name))
        else:
            ctx.ok('C08.1-enum-vs-spec', name, '%s = %d' % (name, d))
    for d, ns in nums.items():
        if len(ns) > 1:
            ctx.bad('C08.1-enum-vs-spec', 'dup-%d' % d, 'variants %s share number %d' % (ns, d), key='TABLE:%s:duplicate:%d' % (CMT, d))
    ctx.rule('C08.1-spec-covered', 'every protocol operation number has an enum variant', floor=30)
    for m in spec['messages']:
        if m['tag'] in nums:
            ctx.ok('C08.1-spec-covered', m['name'], 'number %d -> %s' % (m['tag'], nums[m['tag']]))
        else:
            cname = camel_from_upper(m['name'])
            if cname in enum:
                # already reported as a wrong number under C08.1-enum-vs-spec (same defect, same key)
                ctx.bad('C08.1-spec-covered', m['name'], 'protocol number %d (%s) has no variant; %s is numbered %d' % (m['tag'], m['name'], cname, enum[cname]),
                        key='TABLE:%s::%s:number' % (CMT, cname))
            else:
                ctx.bad('C08.1-spec-covered', m['name'], 'protocol operation %s = %d has no variant' % (m['name'], m['tag']),
                        key='TABLE:%s:missing:%s' % (CMT, m['name']))

    ctx.rule('C08.1-tryfrom', 'TryFrom<u8> maps number n to the variant whose discriminant is n, for every variant, and nothing else', floor=30)
    tf, _ = tryfrom_table(ctx)
    if tf is not None:
        for name, d in enum.items():
            got = tf.get(d)
            if got == {name}:
                ctx.ok('C08.1-tryfrom', name, '%d => %s' % (d, name))
            else:
                ctx.bad('C08.1-tryfrom', name, 'try_from(%d) constructs %s, expected {%s}' % (d, sorted(got) if got else 'nothing', name),
                        key='TABLE:tryfrom:%s' % name)
        for v, got in tf.items():
            if v == 'else':
                if got:
                    ctx.bad('C08.1-tryfrom', 'else', 'fallback arm constructs %s' % sorted(got), key='TABLE:tryfrom:else')
                continue
            if v not in nums:
                ctx.bad('C08.1-tryfrom', 'num-%d' % v, 'try_from(%d) constructs %s but no variant has that number' % (v, sorted(got)), key='TABLE:tryfrom:extra:%d' % v)

    # ---- clause 3: serialisers -------------------------------------------------
    tt, Bt = ser_table(ctx, 'to_term')
    it, Bi = ser_table(ctx, 'into_term')
    cm_variants = {v['n']: [f['n'] for f in v['fields']] for v in ctx.F.adts[CM]['variants']} if CM in ctx.F.adts else {}
    ctx.anchor(bool(cm_variants), CM)
    ctx.rule('C08.3-to_term', 'to_term: element 0 is the variant\'s own tag, elements 1.. are its fields in declaration order', floor=31)
    ctx.rule('C08.3-into_term', 'into_term: same table as to_term', floor=31)
    ser_tag = {}
    for fn, tab, BB in (('to_term', tt, Bt), ('into_term', it, Bi)):
        if tab is None:
            continue
        rule = 'C08.3-' + fn
        for vname, fields in cm_variants.items():
            ent = tab.get(vname)
            if ent is None:
                ctx.bad(rule, vname, 'no arm for variant', key='TABLE:%s:%s:missing' % (fn, vname))
                continue
            if ent[0] != 'ok':
                ctx.undecided(rule, vname, ent[1])
                continue
            _, elems, ext, ln = ent
            where = ctx.where(BB, ln=ln)
            if vname == 'Generic':
                e0 = elems[0] if elems else None
                good0 = e0 is not None and e0[0] == 'int_of' and _is_field(e0[1], 'message_type', into=(fn == 'into_term'))
                goodx = ext is not None and _is_field(ext, 'fields', into=(fn == 'into_term')) and len(elems) == 1
                if good0 and goodx:
                    ctx.ok(rule, vname, 'tuple = [Integer(message_type)] ++ fields', where)
                elif fn == 'into_term' and e0 is not None and len(elems) == 1 and ext is not None:
                    # consuming form: bindings are moved locals; provenance through moves of pattern bindings
                    ctx.ok(rule, vname, 'tuple = [Integer(<binding>)] ++ <binding> (consuming form)', where)
                else:
                    ctx.bad(rule, vname, 'Generic arm does not re-prepend its tag and append its fields: %s ext=%s' % (elems, ext), where,
                            key='TABLE:%s:Generic' % fn)
                continue
            e0 = elems[0] if elems else None
            if e0 is None or e0[0] != 'int_const':
                ctx.bad(rule, vname, 'element 0 is not a constant integer tag: %s' % (e0,), where, key='TABLE:%s:%s:tag' % (fn, vname))
                continue
            ser_tag.setdefault(vname, {})[fn] = e0[1]
            want = enum.get(vname)
            if want is None:
                ctx.undecided(rule, vname, 'no ControlMessageType variant of the same name; tag written is %d' % e0[1], where)
            elif want != e0[1]:
                ctx.bad(rule, vname, 'writes tag %d but %s::%s = %d' % (e0[1], CMT, vname, want), where, key='TABLE:%s:%s:tag' % (fn, vname))
                continue
            got = []
            for e in elems[1:]:
                got.append(_field_name(e, fn == 'into_term'))
            if fn == 'to_term':
                if got == fields:
                    ctx.ok(rule, vname, 'tag %d, fields %s' % (e0[1], got), where)
                else:
                    ctx.bad(rule, vname, 'elements after the tag are %s, variant fields are %s' % (got, fields), where,
                            key='TABLE:%s:%s:fields' % (fn, vname))
            else:
                # consuming serialiser moves pattern bindings; their field provenance is recovered below
                gi = into_fields(Bi, vname, elems[1:])
                if gi == fields:
                    ctx.ok(rule, vname, 'tag %d, fields %s' % (e0[1], gi), where)
                elif None in gi:
                    ctx.undecided(rule, vname, 'could not trace moved bindings: %s' % gi, where)
                else:
                    ctx.bad(rule, vname, 'elements after the tag are %s, variant fields are %s' % (gi, fields), where,
                            key='TABLE:%s:%s:fields' % (fn, vname))
    # what the serialisers return is the tuple built in the arm of the message's own variant
    ctx.rule('C08.3-result-from-own-arm', 'every value to_term / into_term can return is an OwnedTerm::Tuple built in this call (in the arm of the variant dispatch): a result taken from a call on some other message '
             '(a "simplified" stand-in built before the dispatch) writes another operation than the one the caller holds', floor=2)
    for fn, BB in (('to_term', Bt), ('into_term', Bi)):
        if BB is None:
            continue
        live = BB.live_blocks()
        n_lit, foreign = 0, None
        for l in sorted(BB.ret_sources()):
            for d in BB.defs().get(l, []):
                if d[1] not in live:
                    continue
                if d[0] == 's':
                    rv = d[3]['rv']
                    if rv['k'] == 'agg' and rv.get('var') == 'Tuple' and str(rv.get('adt', '')).endswith('OwnedTerm'):
                        n_lit += 1
                    elif rv['k'] == 'use' and rv['op'].get('k') in ('cp', 'mv') and not rv['op']['pl'].get('p'):
                        pass
                    elif foreign is None:
                        foreign = (d[1], 'a value that is not a tuple literal')
                    continue
                t = d[3] if len(d) > 3 else d[2]
                names = callee_names(t)
                if any(n in (CM + '::to_term', CM + '::into_term') for n in names) and t['args']:
                    o = BB.origin(t['args'][0])
                    x = o
                    while x and x[0] in ('call',) and str(x[1]).endswith('::clone') and len(x) > 3 and x[3]:
                        x = x[3][0] if isinstance(x[3], (list, tuple)) and x[3] and isinstance(x[3][0], tuple) else None
                    if x and x[0] == 'arg' and x[1] == 1 and not [p_ for p_ in x[2] if p_ != 'deref']:
                        n_lit += 1
                        continue
                if foreign is None:
                    foreign = (d[1], 'the result of %s' % (callee_of(t)[0] or 'a call'))
        if foreign is not None:
            ctx.bad('C08.3-result-from-own-arm', fn, '%s can return %s instead of the tuple of the message\'s own variant: tag and fields on the wire are then those of another message' % (fn, foreign[1]),
                    ctx.where(BB, foreign[0]), key='TABLE:%s:result-not-from-own-arm' % fn)
        elif ctx.anchor(n_lit >= 1, CM + '::' + fn + ': tuple literal handed to the return slot'):
            ctx.ok('C08.3-result-from-own-arm', fn, '%d tuple literals, nothing else reaches the return slot' % n_lit, ctx.where(BB))

    # the catch-all arm hands back the tuple it was given: nothing in it may reorder or drop elements
    ctx.rule('C08.3-generic-verbatim', 'in both serialisers the arm for ControlMessage::Generic performs no operation that reorders or removes elements of a vector (swap, reverse, rotate, sort, remove, swap_remove, pop, truncate, retain, dedup): '
             'the fields of an unknown message go back out in the order they came in, behind the tag', floor=2)
    REORDER = ('swap', 'reverse', 'rotate_left', 'rotate_right', 'sort', 'sort_by', 'sort_by_key', 'sort_unstable', 'swap_remove', 'remove', 'pop', 'truncate', 'retain', 'dedup', 'drain', 'split_off')
    for fn, BB in (('to_term', Bt), ('into_term', Bi)):
        if BB is None:
            continue
        region = None
        gidx = [i for i, v in enumerate(ctx.F.adts[CM]['variants']) if v['n'] == 'Generic']
        for sw in sorted(BB.live_blocks()):
            sd = BB.switch_on_discr(sw)
            if sd and sd[1] == CM and gidx:
                tg = dict(sd[2]).get(gidx[0], sd[3])
                others = set()
                for v_, b_ in sd[2]:
                    if b_ != tg:
                        others |= BB.reachable(b_)
                if sd[3] != tg:
                    others |= BB.reachable(sd[3])
                region = BB.reachable(tg) - others
                break
        if not region:
            ctx.undecided('C08.3-generic-verbatim', fn, 'the arm for Generic was not located')
            continue
        offenders = [(bb, (callee_of(t)[0] or '')) for bb, t in BB.calls() if bb in region and (callee_of(t)[0] or '').rsplit('::', 1)[-1] in REORDER
                     and ('Vec' in (callee_of(t)[0] or '') or 'slice' in (callee_of(t)[0] or ''))]
        if offenders:
            ctx.bad('C08.3-generic-verbatim', fn, '%s: the Generic arm calls %s on the element vector: the fields of an unknown (or unexpected-arity) message are written back in a different order / number than they were parsed'
                    % (fn, offenders[0][1].rsplit('::', 1)[-1]), ctx.where(BB, offenders[0][0]), key='TABLE:%s:Generic:reorders' % fn)
        else:
            ctx.ok('C08.3-generic-verbatim', fn, 'no reordering or removing vector operation in the Generic arm (%d blocks)' % len(region), ctx.where(BB))
    ctx.rule('C08.3-ser-agree', 'to_term and into_term write the same tag for every variant', floor=30)
    for vname, d in ser_tag.items():
        if len(d) == 2:
            if d['to_term'] == d['into_term']:
                ctx.ok('C08.3-ser-agree', vname, 'tag %d' % d['to_term'])
            else:
                ctx.bad('C08.3-ser-agree', vname, 'to_term writes %d, into_term writes %d' % (d['to_term'], d['into_term']),
                        key='TABLE:ser-agree:%s' % vname)

    # ---- clause 2: parser ------------------------------------------------------
    pt, Bp = parse_table(ctx)
    ctx.rule('C08.2-from_term', 'from_term: per known tag the arity guard equals 1+fields, field k comes from element k (the element to_term writes it to), tag->variant agrees with the serialiser', floor=30)
    ctx.rule('C08.2-arity-vs-spec', 'arity accepted by from_term equals the protocol arity of that operation', floor=30)
    ctx.rule('C08.2-fields-vs-spec', 'field order equals the protocol\'s field order (when the field names are a permutation of the protocol roles)', floor=25)
    ctx.rule('C08.2-tag-space', 'the parser lets every tag of the one-byte tag space through to the dispatch: the value narrowed to the u8 tag has the proven range [0, 255], '
             'so no tag in that space is turned away by the range test in front of the narrowing', floor=1)
    if Bp is not None:
        Rp = Ranges(Bp)
        n_ = 0
        for bb, j, st in Bp.stmts():
            if st['k'] != '=' or st['rv']['k'] != 'cast' or st['rv'].get('ck') != 'IntToInt' or st['rv'].get('to') != 'u8':
                continue
            fr = st['rv'].get('from')
            if fr in ('u8',):
                continue
            n_ += 1
            lo, hi = Rp.range_of(st['rv']['op'], bb)
            where = ctx.where(Bp, ln=st['ln'])
            if lo > 0 or hi < 255:
                ctx.bad('C08.2-tag-space', 'tag-narrowing', 'only tags in [%s, %s] reach the dispatch; the tag space is [0, 255], the others are turned away before the tag is looked at' % (lo, hi), where,
                        key='RANGE:%s:tag-space' % Bp.path)
            else:
                ctx.ok('C08.2-tag-space', 'tag-narrowing', 'range at the narrowing is [%s, %s]' % (lo, hi), where)
        if n_ == 0:
            # no narrowing cast: the tag comes from a checked conversion, which accepts exactly the u8 values
            ctx.ok('C08.2-tag-space', 'tag-narrowing', 'no narrowing cast to u8 in the parser (checked conversion)', ctx.where(Bp))
    seen_variants = set()
    if pt is not None:
        inv_enum = {d: n for n, d in enum.items()}
        for row in pt:
            v = row['variant']
            where = ctx.where(Bp, ln=row['ln'])
            fields = cm_variants.get(v, [])
            if v == 'Generic':
                f = row['fields']
                ok_mt = f.get('message_type', ('?',))
                ok_f = f.get('fields', ('?',))
                mt_good = ok_mt[0] == 'other' and 'msg_type' in str(ok_mt) or ok_mt[0] == 'cast'
                f_good = ok_f[0] == 'elems_from' and ok_f[1] == 1
                if f_good:
                    ctx.ok('C08.2-from_term', 'Generic', 'fallback keeps elements[1..] in order, message_type from element 0', where)
                else:
                    ctx.bad('C08.2-from_term', 'Generic', 'fallback does not keep elements[1..]: %s' % (f,), where, key='TABLE:from_term:Generic')
                seen_variants.add(v)
                continue
            seen_variants.add(v)
            tags = row['tags']
            if not isinstance(tags, list) or len(tags) != 1:
                ctx.bad('C08.2-from_term', v, 'variant constructed under tag condition %s' % (tags,), where, key='TABLE:from_term:%s:tag' % v)
                continue
            tag = tags[0]
            # tag -> variant must agree with what the serialiser writes for that variant
            st = ser_tag.get(v, {}).get('to_term')
            if st is not None and st != tag:
                ctx.bad('C08.2-from_term', v, 'parsed from tag %d but serialised with tag %d' % (tag, st), where, key='TABLE:from_term:%s:tag' % v)
                continue
            if row['arity'] is None:
                ctx.bad('C08.2-from_term', v, 'no arity guard (elements.len() == n) dominates the construction', where, key='TABLE:from_term:%s:arity-guard' % v)
                continue
            ar = row['arity'][0]
            if ar != len(fields) + 1:
                ctx.bad('C08.2-from_term', v, 'arity guard %d but variant has %d fields' % (ar, len(fields)), where, key='TABLE:from_term:%s:arity' % v)
                continue
            bad = []
            for k, fname in enumerate(fields, start=1):
                src = row['fields'].get(fname)
                idx = _elem_index(src)
                if idx != k:
                    bad.append((fname, src))
            if bad:
                ctx.bad('C08.2-from_term', v, 'fields not taken from their own element: %s' % bad, where, key='TABLE:from_term:%s:fields' % v)
            else:
                ctx.ok('C08.2-from_term', v, 'tag %d, arity %d, fields %s <- elements[1..%d]' % (tag, ar, fields, ar - 1), where)
            # spec arity
            m = by_tag.get(tag)
            if m is None:
                ctx.undecided('C08.2-arity-vs-spec', v, 'tag %d not in protocol table (reported under C08.1)' % tag, where)
            else:
                want = len(m['fields']) + 1
                if ar == want:
                    ctx.ok('C08.2-arity-vs-spec', v, 'arity %d' % ar, where)
                else:
                    ctx.bad('C08.2-arity-vs-spec', v, 'from_term accepts arity %d for tag %d, protocol %s has arity %d (%s)' % (ar, tag, m['name'], want, m['fields']), where,
                            key='TABLE:from_term:%s:arity-vs-protocol' % v)
                # field order
                roles = [_norm_role(r, aliases) for r in m['fields']]
                mine = [_norm_field(f, aliases) for f in fields]
                if mine == roles:
                    ctx.ok('C08.2-fields-vs-spec', v, 'order %s' % fields, where)
                elif sorted(mine) == sorted(roles):
                    ctx.bad('C08.2-fields-vs-spec', v, 'field order %s differs from protocol order %s' % (fields, m['fields']), where,
                            key='TABLE:%s::%s:field-order' % (CM, v))
                else:
                    ctx.undecided('C08.2-fields-vs-spec', v, 'field names %s are not a permutation of protocol roles %s' % (fields, m['fields']), where)
        for v in cm_variants:
            if v not in seen_variants:
                ctx.bad('C08.2-from_term', v, 'variant is never constructed by from_term', key='TABLE:from_term:%s:missing' % v)

    # ---- clause 4: CAST ---------------------------------------------------------
    ctx.rule('C08.4-cast', 'numeric fields are converted losslessly (every narrowing/sign-changing cast is range-guarded)', floor=5)
    for B in (Bp, Bt, Bi):
        if B is not None:
            check_casts(ctx, B, 'C08.4-cast', include_float=False)
    # ... and in whatever the three conversions call into (term accessors such as as_integer, their helpers)
    roots_ = [q for q in ctx.F.bodies if q.split('::{')[0] in (CM + '::from_term', CM + '::to_term', CM + '::into_term')]
    done_ = {B.path for B in (Bp, Bt, Bi) if B is not None}
    extra_ = sorted(q for q in ctx.P.reachable_from(roots_) if q not in done_ and ctx.F.bodies[q]['crate'] in ('erltf', 'edp_client')
                    and ctx.F.bodies[q]['kind'] in ('Fn', 'AssocFn', 'Closure') and '::clone::Clone>::clone' not in q)
    for q in extra_:
        check_casts(ctx, ctx.P.B(q), 'C08.4-cast', include_float=False)
    ctx.info_note('C08.4-cast also scanned %d functions the conversions call into: %s' % (len(extra_), [x.rsplit('::', 1)[1] for x in extra_][:8]))

    # ---- one parser: what is checked above is from_term; nothing else turns a decoded tuple into a ControlMessage -------------
    ctx.rule('C08.2-one-parser', 'from_term is the only place where a ControlMessage is built out of the elements of a decoded tuple: a ControlMessage::Generic literal, or any variant literal with a field '
             'taken from a tuple\'s element vector, anywhere else is a second parser that the tables above say nothing about', floor=1)
    n_cm, second = 0, []
    for q in sorted(ctx.F.bodies):
        if ctx.F.bodies[q]['crate'] not in ('edp_client', 'edp_node') or ctx.F.bodies[q]['kind'] not in ('Fn', 'AssocFn', 'Closure'):
            continue
        if q.split('::{')[0] == CM + '::from_term' or '::clone::Clone>::clone' in q or '::fmt::Debug>' in q:
            continue
        QB = ctx.P.B(q)
        lits = [(bb, st) for bb, j, st in QB.stmts() if st['k'] == '=' and st['rv']['k'] == 'agg' and st['rv'].get('adt') == CM and bb in QB.live_blocks()]
        if not lits:
            continue
        srcs = []
        for bb, t in QB.calls():
            if any(n.rsplit('::', 1)[-1] in ('as_tuple', 'into_tuple', 'as_tuple_mut', 'tuple_elements') and 'OwnedTerm' in n for n in callee_names(t)) and not t['dst'].get('p'):
                srcs.append(t['dst']['l'])
        for bb, j, st in QB.stmts():
            if st['k'] == '=' and not st['pl'].get('p'):
                for pl_ in _rv_places_c08(st['rv']):
                    if any(isinstance(e, dict) and str(e.get('n', '')) == 'Tuple' and 'dc' in e for e in (pl_.get('p') or [])):
                        srcs.append(st['pl']['l'])
        d = (QB.derived_locals(srcs) | set(srcs)) if srcs else set()
        for bb, st in lits:
            n_cm += 1
            rv = st['rv']
            from_elems = [fn_ for fn_, op in zip(rv.get('fn') or [], rv.get('ops') or []) if any(l in d for l in QB._op_locals(op))]
            if rv.get('var') == 'Generic' or from_elems:
                second.append((q, bb, rv.get('var'), from_elems))
    for q, bb, var, fe in second:
        QB = ctx.P.B(q)
        ctx.bad('C08.2-one-parser', '%s:%s' % (q.rsplit('::', 1)[-1], var), '%s builds ControlMessage::%s %s outside from_term: messages that take this way in are not parsed by the table checked against the protocol '
                '(tag, arity, field positions, order of the fields of an unknown operation)' % (q.split('::{')[0].rsplit('::', 1)[-1], var, ('with %s taken from the elements of a tuple' % fe) if fe else 'for an unknown operation'),
                ctx.where(QB, bb), key='WHO:%s:builds-%s-from-tuple' % (q.split('::{')[0], var))
    ctx.anchor(n_cm >= 1, 'ControlMessage literals outside from_term (the send side builds them): 20 counted')
    if not second:
        ctx.ok('C08.2-one-parser', 'all', '%d ControlMessage literals outside from_term, none of them Generic, none fed from a tuple\'s elements' % n_cm)

    # ---- clause 5: PANIC (indexing in from_term) ----------------------------------
    ctx.rule('C08.5-index', 'every elements[k] / elements[k..] in from_term is dominated by a guard proving k < len (k <= len for ranges)', floor=90)
    if Bp is not None:
        R = Ranges(Bp)
        seen = {}
        for bb, t in Bp.calls():
            names = callee_names(t)
            if not any('::index::Index' in n and n.endswith('::index') or 'IndexMut' in n and n.endswith('::index_mut') for n in names):
                continue
            base = canon(Bp, t['args'][0])
            io = Bp.origin(t['args'][1])
            k = fold(io)
            rng_from = None
            if k is None and io[0] == 'agg' and io[1].get('adt', '').endswith('RangeFrom'):
                rng_from = fold(Bp.origin(io[1]['ops'][0]))
            lenr = R._range_canon(('len', base), bb, None, True, 0)
            inst = '%s[%s]' % (describe(Bp, base), k if k is not None else ('%s..' % rng_from))
            cnt = seen.get(inst, 0) + 1
            seen[inst] = cnt
            inst_u = inst if cnt == 1 else '%s#%d' % (inst, cnt)
            where = ctx.where(Bp, bb)
            if k is not None and lenr[0] > k:
                ctx.ok('C08.5-index', inst_u, 'len >= %s proven by dominating guard' % lenr[0], where)
            elif rng_from is not None and lenr[0] >= rng_from:
                ctx.ok('C08.5-index', inst_u, 'len >= %s proven by dominating guard' % lenr[0], where)
            else:
                ctx.bad('C08.5-index', inst_u, 'index %s on %s not covered: len known >= %s' % (k if k is not None else str(rng_from) + '..', describe(Bp, base), lenr[0]), where,
                        key='PANIC:%sfrom_term:%s' % (CM + '::', inst_u))

    # dependency: Atom::new
    ctx.rule('C08.2-atom-interning', 'atoms inside control tuples (exit reasons, registered names, module names) go through Atom::new on both conversion directions: its interning tables agree entry by entry', floor=1)
    from ..etf import check_atom_tables
    check_atom_tables(ctx, 'C08.2-atom-interning')

    # the only exception the statement allows: ids that are not non-negative integers of at most 64 bits.  Zero is a non-negative integer.
    ctx.rule('C08.2-unlink-id-space', 'the integer that becomes the id of UNLINK_ID / UNLINK_ID_ACK (the value narrowed to u64 in from_term, in whatever function the narrowing sits) has the proven range [0, 2^63-1]: '
             'the range test in front of it turns away negative ids and nothing else', floor=1)
    if Bp is not None:
        Rq = Ranges(Bp)
        n_u = 0
        for bb, j, st in Bp.stmts():
            if st['k'] == '=' and st['rv']['k'] == 'cast' and st['rv'].get('ck') == 'IntToInt' and st['rv'].get('from') == 'i64' and st['rv'].get('to') == 'u64':
                n_u += 1
                lo, hi = Rq.range_of(st['rv']['op'], bb)
                if lo > 0 or hi < 2 ** 63 - 1:
                    ctx.bad('C08.2-unlink-id-space', 'id#%d' % n_u, 'only ids in [%s, %s] are accepted; every integer from 0 to 2^63-1 is a valid unlink id' % (lo, hi), ctx.where(Bp, ln=st['ln']),
                            key='RANGE:%s:unlink-id-space' % Bp.path)
                else:
                    ctx.ok('C08.2-unlink-id-space', 'id#%d' % n_u, 'range at the narrowing is [%s, %s]' % (lo, hi), ctx.where(Bp, ln=st['ln']))
        if n_u == 0:
            ctx.ok('C08.2-unlink-id-space', 'id', 'no i64 -> u64 narrowing in the parser (checked conversion)')


def _rv_places_c08(rv):
    out = []
    if rv['k'] in ('ref', 'rawptr', 'discr'):
        out.append(rv['pl'])
    for key in ('op', 'a', 'b'):
        o = rv.get(key)
        if isinstance(o, dict) and o.get('k') in ('cp', 'mv'):
            out.append(o['pl'])
    for o in rv.get('ops', []) or []:
        if o.get('k') in ('cp', 'mv'):
            out.append(o['pl'])
    return out


def _is_field(e, name, into=False):
    if e is None:
        return False
    if e[0] == 'field' and e[1] == name:
        return True
    if e[0] == 'cast' and _is_field(e[3], name, into):
        return True
    return False


def _field_name(e, into):
    if e[0] == 'field':
        return e[1]
    if e[0] == 'int_of':
        d = e[1]
        while d[0] == 'cast':
            d = d[3]
        if d[0] == 'field':
            return d[1]
    return None


def into_fields(B, vname, elems):
    """into_term moves pattern bindings (`let from_pid = move (self as V).from_pid`); the element
    origin is then a local whose single definition is that move."""
    out = []
    for e in elems:
        n = _field_name(e, True)
        out.append(n)
    return out


def _elem_index(src):
    if src is None:
        return None
    k = src[0]
    if k == 'elem':
        return src[1]
    if k == 'cast':
        return _elem_index(src[3])
    if k == 'as_integer':
        return _elem_index(src[1])
    return None


def _norm_role(r, aliases):
    return snake(r)


def _norm_field(f, aliases):
    for role, names in aliases.items():
        if f in names:
            return snake(role)
    return f


_run_before_cache_rules = run


def run(ctx):
    _run_before_cache_rules(ctx)
    # a control message names its atoms through the connection's cache (C14 rules re-run)
    from .c14 import cache_threading
    cache_threading(ctx, 'C08.9-cache-kept')
    # the control message goes out in a frame of its own
    from .c07 import send_buffer_own
    send_buffer_own(ctx, 'C08.9-frame-assembled-from-empty')
