"""C04 — handshake: connected only after cookie proof; flags are the intersection.

WHO/DOM/PROV on the state machine, FIELDSET on reset, digest shape, WIRE of the
handshake codecs vs spec/handshake.json, Buf-consumption PANIC accounting,
step order / timeout wrapping in Connection::connect.
"""
import json, os, re
from ..core import callee_of, callee_names, is_call_to, fold, dominating_edges, receiver_root
from ..ranges import Ranges, canon
from ..families import describe, check_casts
from ..wire import success_sequences, io_events, fmt_seq, prim_of, error_blocks

SM = 'edp_client::state_machine::HandshakeStateMachine'
CS = 'edp_client::state_machine::ConnectionState'
HS = 'edp_client::handshake::'
SPEC = os.path.join(os.path.dirname(os.path.dirname(os.path.dirname(os.path.abspath(__file__)))), 'spec', 'handshake.json')


def strip(o):
    """remove payload/try wrappers"""
    while o and o[0] in ('payload', 'try'):
        o = o[1]
    return o


def payload_field(o):
    """(inner origin, field projections) for `x?.field` / `x?` shapes"""
    if o and o[0] == 'proj' and o[1][0] in ('payload', 'try'):
        return strip(o[1]), tuple(o[2])
    o = strip(o)
    if o and o[0] == 'call':
        return ('call', o[1], o[2], ()), tuple(o[3])
    return o, ()


def self_field(o):
    o = strip(o)
    if o and o[0] == 'arg' and o[1] == 1 and o[2]:
        return o[2][0]
    return None


def field_writes(P, adt, field):
    """all (B, bb, stmt) assigning to <adt>.<field> anywhere in the workspace"""
    out = []
    for B in P.all():
        for bb, j, st in B.stmts(live_only=False):
            if st['k'] != '=':
                continue
            ps = st['pl'].get('p') or []
            if not ps:
                continue
            last = ps[-1]
            if isinstance(last, dict) and last.get('n') == field and last.get('adt') == adt:
                out.append((B, bb, st))
    return out


def agg_of(B, op):
    o = B.origin(op)
    if o[0] == 'agg':
        return o[1]
    return None


def written_variant(B, st):
    """enum variant (or Option Some/None) stored by an assignment"""
    rv = st['rv']
    if rv['k'] == 'agg' and rv['ak'] == 'adt':
        return rv
    if rv['k'] == 'use':
        a = agg_of(B, rv['op'])
        if a is not None and a['ak'] == 'adt':
            return a
    return None


def fmt_template(B, op):
    """bytes of the format template feeding a core::fmt::Arguments::new call, and its args"""
    o = B.origin(op)
    return o


def flag_values(ctx, rule):
    """every DistributionFlags constant the library's behaviour depends on has the protocol's bit value"""
    import json as _json, os as _os
    spec_f = _json.load(open(_os.path.join(_os.path.dirname(_os.path.dirname(_os.path.dirname(_os.path.abspath(__file__)))), 'spec', 'dist_flags.json')))['flags']
    ctx.rule(rule, 'a capability flag that the library itself tests (to pick a framing mode, to accept or refuse a peer) has the bit value the distribution protocol assigns to its name: '
             'the peer sets and reads that capability by its protocol bit, so a constant on another bit makes this side act on a capability that was not negotiated. '
             'Constants that are only advertised and never tested are compared too, but a mismatch there changes nothing the properties describe and is reported as a note', floor=1)
    pre = 'edp_client::flags::DistributionFlags::'
    used = {}
    for path in ctx.F.bodies:
        if 'edp_client::flags::' in path or '::tests::' in path:
            continue
        txt = _json.dumps(ctx.F.bodies[path]) if not isinstance(ctx.F.bodies[path], str) else ctx.F.bodies[path]
        i = 0
        while True:
            i = txt.find('DistributionFlags::', i)
            if i < 0:
                break
            j = i + len('DistributionFlags::')
            k = j
            while k < len(txt) and (txt[k].isalnum() or txt[k] == '_'):
                k += 1
            nm = txt[j:k]
            if nm and nm.upper() == nm and nm in spec_f:
                used.setdefault(nm, path)
            i = k
    n = 0
    notes = []
    for k, v in sorted(ctx.F.consts.items()):
        if not k.startswith(pre) or 'bits' not in v:
            continue
        name = k[len(pre):]
        if name not in spec_f:
            continue
        n += 1
        got = int(v['bits'])
        if got == spec_f[name]:
            if name in used:
                ctx.ok(rule, name, '%#x, tested in %s' % (got, used[name]))
            continue
        what = 'DistributionFlags::%s is %#x; the protocol assigns %#x to DFLAG_%s%s' % (name, got, spec_f[name], name,
                ' (%#x is DFLAG_%s)' % (got, [a for a, b in spec_f.items() if b == got][0]) if got in spec_f.values() else ' (%#x is not an assigned flag)' % got)
        if name in used:
            ctx.bad(rule, name, what + '; tested in %s' % used[name], key='CONST:%s%s' % (pre, name))
        else:
            notes.append(what)
    if notes:
        ctx.ok(rule, 'advertised-only', 'not tested anywhere in the library, so outside the properties: ' + '; '.join(notes))
    ctx.anchor(n >= 20, pre + '* constants with protocol names')
    ctx.anchor(bool(used), 'a flag constant tested by library code')

def run(ctx):
    P = ctx.P
    spec = json.load(open(SPEC))
    adt = ctx.F.adts.get(SM)
    if not ctx.anchor(adt is not None, SM):
        return
    fields = {f['n']: f for f in adt['variants'][0]['fields']}

    # ---------------- clause 1: WHO writes state ---------------------------------------
    ctx.rule('C04.1-state-writers', 'HandshakeStateMachine.state is private and written only by methods of the type; Connected is written in exactly one place', floor=6)
    st_f = fields.get('state')
    if ctx.anchor(st_f is not None, SM + '.state'):
        if st_f['vis'] == 'pub':
            ctx.bad('C04.1-state-writers', 'visibility', 'state field is public', key='WHO:%s.state:public' % SM)
        else:
            ctx.ok('C04.1-state-writers', 'visibility', st_f['vis'])
    writes = field_writes(P, SM, 'state')
    connected_writes = []
    for B, bb, st in writes:
        v = written_variant(B, st)
        vname = v['var'] if v else '?'
        inst = '%s:=%s' % (B.path, vname)
        if not B.path.startswith(SM + '::'):
            ctx.bad('C04.1-state-writers', inst, 'state written outside the state machine type', ctx.where(B, ln=st['ln']), key='WHO:' + inst)
        elif v is None:
            ctx.bad('C04.1-state-writers', inst, 'state assigned from a computed value (cannot be shown not to be Connected)', ctx.where(B, ln=st['ln']), key='WHO:' + inst)
        else:
            ctx.ok('C04.1-state-writers', inst, 'writer is a method of the type', ctx.where(B, ln=st['ln']))
        if vname in ('Connected', '?'):
            connected_writes.append((B, bb, st))
    # struct-literal constructions of the machine (state given at construction)
    for B in P.all('edp_client'):
        for bb, j, st in B.stmts():
            if st['k'] == '=' and st['rv']['k'] == 'agg' and st['rv'].get('adt') == SM:
                idx = st['rv']['fn'].index('state')
                a = agg_of(B, st['rv']['ops'][idx])
                vname = a['var'] if a else '?'
                inst = '%s:literal state=%s' % (B.path, vname)
                if vname == 'Disconnected':
                    ctx.ok('C04.1-state-writers', inst, 'constructed Disconnected', ctx.where(B, ln=st['ln']))
                else:
                    ctx.bad('C04.1-state-writers', inst, 'machine constructed in state %s' % vname, ctx.where(B, ln=st['ln']), key='WHO:' + inst)

    # ---------------- clause 2: DOM + PROV on the Connected write -----------------------
    ctx.rule('C04.2-verified-before-connected', 'every write of Connected is dominated by the true edge of ChallengeAck::verify(decoded argument, self.our_challenge, self.cookie)', floor=1)
    if len(connected_writes) != 1:
        ctx.bad('C04.2-verified-before-connected', 'count', '%d writes of Connected (expected exactly one)' % len(connected_writes),
                key='DOM:%s:connected-writes' % SM)
    for B, bb, st in connected_writes:
        inst = B.path
        found = None
        for (src, vals, dst) in dominating_edges(B, bb):
            sb = B.switch_bool_edges(src)
            if not sb:
                continue
            source, t_t, f_t = sb
            if source[0] == 'call' and is_call_to(source[2], HS + 'ChallengeAck::verify') and dst == t_t and t_t != f_t:
                found = source[2]
        if found is None:
            ctx.bad('C04.2-verified-before-connected', inst, 'state = Connected is not dominated by a successful ChallengeAck::verify', ctx.where(B, bb),
                    key='DOM:%s:connected-without-verify' % inst)
            continue
        a0 = strip(B.origin(found['args'][0]))
        a1 = B.origin(found['args'][1])
        a2 = B.origin(found['args'][2])
        ok0 = a0[0] == 'call' and a0[1] == HS + 'ChallengeAck::decode'
        if ok0:
            dec = B.blocks[a0[2]]['t']
            d0 = B.origin(dec['args'][0])
            ok0 = d0[0] == 'arg' and d0[1] >= 2
        ok1 = self_field(a1) == 'our_challenge'
        ok2 = self_field(a2) == 'cookie'
        if ok0 and ok1 and ok2:
            ctx.ok('C04.2-verified-before-connected', inst, 'verify(decode(data), self.our_challenge, self.cookie) true-edge dominates the write', ctx.where(B, bb))
        else:
            ctx.bad('C04.2-verified-before-connected', inst, 'verify arguments are not (decode(data), self.our_challenge, self.cookie): %s / %s / %s' % (a0[:2], a1, a2),
                    ctx.where(B, bb), key='PROV:%s:verify-args' % inst)

    # verify bodies return digest == compute_digest(challenge, cookie)
    ctx.rule('C04.2-verify-body', 'ChallengeAck::verify returns exactly (self.digest == compute_digest(challenge, cookie))', floor=1)
    for vn in ('ChallengeAck::verify',):
        B = ctx.body(HS + vn)
        if B is None:
            continue
        good = False
        detail = ''
        rets = [(bb, j, st) for bb, j, st in B.stmts() if st['k'] == '=' and st['pl']['l'] == 0 and not st['pl'].get('p')]
        defs0 = B.defs().get(0, [])
        # through plain copies (an inlined helper hands its result over by a move)
        for _ in range(4):
            if len(defs0) == 1 and defs0[0][0] == 's' and defs0[0][3]['rv']['k'] == 'use' and defs0[0][3]['rv']['op'].get('k') in ('cp', 'mv') and not defs0[0][3]['rv']['op']['pl'].get('p'):
                defs0 = B.defs().get(defs0[0][3]['rv']['op']['pl']['l'], [])
                continue
            break
        if len(defs0) == 1 and defs0[0][0] == 't':
            t = defs0[0][3]
            if any(n.endswith('PartialEq::eq') or '::eq' in n for n in callee_names(t)) and len(t['args']) == 2:
                sides = [B.origin(a) for a in t['args']]
                f = [self_field(s) for s in sides]
                cd = [s for s in sides if s[0] == 'call' and s[1] == 'edp_client::digest::compute_digest']
                if 'digest' in f and len(cd) == 1:
                    ct = B.blocks[cd[0][2]]['t']
                    c0 = B.origin(ct['args'][0])
                    c1 = B.origin(ct['args'][1])
                    if c0[0] == 'arg' and c0[1] == 2 and c1[0] == 'arg' and c1[1] == 3:
                        good = True
                    else:
                        detail = 'compute_digest args %s %s' % (c0, c1)
                else:
                    detail = 'sides %s' % (sides,)
            else:
                detail = 'return value is %s' % callee_names(t)
        else:
            detail = 'return value has %d definitions (expected a single == call)' % len(defs0)
        if good:
            ctx.ok('C04.2-verify-body', vn, 'self.digest == compute_digest(challenge, cookie)', ctx.where(B))
        else:
            ctx.bad('C04.2-verify-body', vn, 'verify does not return the digest comparison: ' + detail, ctx.where(B), key='PROV:%s%s:body' % (HS, vn))

    # digest shape
    ctx.rule('C04.2-digest-shape', 'compute_digest feeds MD5 with cookie ++ decimal(challenge) (recognised shapes only; others are undecided)', floor=1)
    check_digest(ctx)

    # ---------------- clause 3: challenge reply provenance --------------------------------
    ctx.rule('C04.3-reply-prov', 'ChallengeReply carries our challenge and the digest of the peer\'s challenge; our_challenge comes only from generate_challenge()', floor=4)
    B = ctx.body(HS + 'ChallengeReply::new')
    if B is not None:
        cds = [(bb, t) for bb, t in B.calls() if is_call_to(t, 'edp_client::digest::compute_digest')]
        aggs = [(bb, st) for bb, j, st in B.stmts() if st['k'] == '=' and st['rv']['k'] == 'agg' and st['rv'].get('adt') == HS + 'ChallengeReply']
        if ctx.anchor(len(cds) == 1 and len(aggs) == 1, HS + 'ChallengeReply::new:{compute_digest,literal}'):
            c0 = B.origin(cds[0][1]['args'][0])
            c1 = B.origin(cds[0][1]['args'][1])
            rv = aggs[0][1]['rv']
            ch = B.origin(rv['ops'][rv['fn'].index('challenge')])
            dg = B.origin(rv['ops'][rv['fn'].index('digest')])
            good = (c0 == ('arg', 2, ()) and c1[0] == 'arg' and c1[1] == 3 and ch == ('arg', 1, ())
                    and dg[0] == 'call' and dg[2] == cds[0][0])
            if good:
                ctx.ok('C04.3-reply-prov', 'ChallengeReply::new', 'digest = compute_digest(2nd param, cookie); challenge field = 1st param', ctx.where(B))
            else:
                ctx.bad('C04.3-reply-prov', 'ChallengeReply::new', 'digest/challenge provenance wrong: digest-of=%s challenge-field=%s' % (c0, ch), ctx.where(B),
                        key='PROV:%sChallengeReply::new' % HS)
    B = ctx.body(SM + '::prepare_challenge_reply')
    if B is not None:
        calls = [(bb, t) for bb, t in B.calls() if is_call_to(t, HS + 'ChallengeReply::new')]
        if ctx.anchor(len(calls) == 1, SM + '::prepare_challenge_reply:ChallengeReply::new'):
            t = calls[0][1]
            f0, f1, f2 = [self_field(B.origin(a)) for a in t['args'][:3]]
            if (f0, f1, f2) == ('our_challenge', 'their_challenge', 'cookie'):
                ctx.ok('C04.3-reply-prov', 'prepare_challenge_reply', 'ChallengeReply::new(self.our_challenge, self.their_challenge, self.cookie)', ctx.where(B, calls[0][0]))
            else:
                ctx.bad('C04.3-reply-prov', 'prepare_challenge_reply', 'arguments come from (%s, %s, %s)' % (f0, f1, f2), ctx.where(B, calls[0][0]),
                        key='PROV:%s::prepare_challenge_reply:args' % SM)
    for fld, want in (('our_challenge', 'generate'), ('their_challenge', 'decoded')):
        for Bw, bb, st in field_writes(P, SM, fld):
            v = written_variant(Bw, st)
            inst = '%s:%s' % (Bw.path, fld)
            if v is None:
                ctx.bad('C04.3-reply-prov', inst, '%s assigned from a computed Option' % fld, ctx.where(Bw, ln=st['ln']), key='PROV:' + inst)
                continue
            if v['var'] == 'None':
                ctx.ok('C04.3-reply-prov', inst + '=None', 'cleared', ctx.where(Bw, ln=st['ln']))
                continue
            src = Bw.origin(v['ops'][0])
            if want == 'generate':
                good = src[0] == 'call' and src[1] == 'edp_client::digest::generate_challenge'
            else:
                s2, pj = payload_field(src)
                good = s2[0] == 'call' and s2[1] == HS + 'Challenge::decode' and pj == ('challenge',)
            if good:
                ctx.ok('C04.3-reply-prov', inst + '=Some', 'Some(%s)' % ('generate_challenge()' if want == 'generate' else 'decoded.challenge'), ctx.where(Bw, ln=st['ln']))
            else:
                ctx.bad('C04.3-reply-prov', inst + '=Some', '%s set from %s' % (fld, src), ctx.where(Bw, ln=st['ln']), key='PROV:' + inst)

    # ---------------- clause 4: negotiated flags -----------------------------------------------
    ctx.rule('C04.4-flags-and', 'negotiated_flags = Some(new(peer.flags.as_u64() & self.flags.as_u64())) is the only Some written', floor=1)
    for Bw, bb, st in field_writes(P, SM, 'negotiated_flags'):
        v = written_variant(Bw, st)
        inst = '%s:negotiated_flags' % Bw.path
        if v is None:
            ctx.bad('C04.4-flags-and', inst, 'assigned from a computed Option', ctx.where(Bw, ln=st['ln']), key='PROV:' + inst)
            continue
        if v['var'] == 'None':
            continue
        src = Bw.origin(v['ops'][0])
        good = False
        detail = str(src)[:200]
        if src[0] == 'call' and src[1] and src[1].endswith('DistributionFlags::new'):
            nt = Bw.blocks[src[2]]['t']
            a = Bw.origin(nt['args'][0])
            if a[0] == 'bin' and a[1] == 'BitAnd':
                sides = []
                for s_ in (a[2], a[3]):
                    if s_[0] == 'call' and s_[1] and s_[1].endswith('DistributionFlags::as_u64'):
                        at = Bw.blocks[s_[2]]['t']
                        sides.append(payload_field(Bw.origin(at['args'][0])))
                    else:
                        sides.append(None)
                kinds = set()
                for s_ in sides:
                    if s_ is None:
                        continue
                    base, pj = s_
                    if base[0] == 'arg' and base[1] == 1 and base[2] == ('flags',):
                        kinds.add('ours')
                    if base[0] == 'call' and base[1] == HS + 'Challenge::decode' and pj == ('flags',):
                        kinds.add('theirs')
                good = kinds == {'ours', 'theirs'}
                detail = 'operands: %s' % (sides,)
            else:
                detail = 'not a bitwise AND: %s' % (a[:2],)
        if good:
            ctx.ok('C04.4-flags-and', inst, 'decoded.flags & self.flags', ctx.where(Bw, ln=st['ln']))
        else:
            ctx.bad('C04.4-flags-and', inst, 'negotiated flags are not the intersection: ' + detail, ctx.where(Bw, ln=st['ln']), key='PROV:' + inst)

    # ---------------- clause 5: reset clears the challenges -----------------------------------------
    ctx.rule('C04.5-reset-clears', 'every function that writes state = Disconnected also writes None to our_challenge, their_challenge, negotiated_flags', floor=1)
    for B, bb, st in writes:
        v = written_variant(B, st)
        if not v or v['var'] != 'Disconnected':
            continue
        cleared = set()
        for fld in ('our_challenge', 'their_challenge', 'negotiated_flags'):
            for bb2, j2, st2 in B.stmts():
                if st2['k'] != '=':
                    continue
                ps = st2['pl'].get('p') or []
                if ps and isinstance(ps[-1], dict) and ps[-1].get('n') == fld and ps[-1].get('adt') == SM:
                    v2 = written_variant(B, st2)
                    if v2 and v2['var'] == 'None':
                        # must happen on every path through the Disconnected write
                        if B.all_paths_pass(bb, [bb2]) or B.block_dominates(bb2, bb):
                            cleared.add(fld)
        # other clearing idioms: Option::take / mem::take / mem::replace(.., None) on the field
        for bb2, t2 in B.calls():
            nm = (callee_of(t2)[0] or '').rsplit('::', 1)[-1]
            full = callee_of(t2)[0] or ''
            if not t2['args'] or not ((nm == 'take' and ('Option' in full or 'mem::' in full)) or (nm == 'replace' and 'mem::' in full)):
                continue
            if nm == 'replace':
                o_ = B.origin(t2['args'][1])
                if not (o_[0] == 'agg' and o_[1].get('var') == 'None'):
                    continue
            base_, projs_ = receiver_root(B, t2['args'][0])
            for fld in ('our_challenge', 'their_challenge', 'negotiated_flags'):
                if fld in [x for x in projs_ if isinstance(x, str)] and (B.all_paths_pass(bb, [bb2]) or B.block_dominates(bb2, bb)):
                    cleared.add(fld)
        missing = {'our_challenge', 'their_challenge', 'negotiated_flags'} - cleared
        if missing:
            ctx.bad('C04.5-reset-clears', B.path, 'resets state to Disconnected but keeps %s' % sorted(missing), ctx.where(B, ln=st['ln']),
                    key='FIELDSET:%s:keeps:%s' % (B.path, ','.join(sorted(missing))))
        else:
            ctx.ok('C04.5-reset-clears', B.path, 'clears all three', ctx.where(B, ln=st['ln']))

    # ---------------- clause 6: WIRE vs spec -----------------------------------------------------------
    ctx.rule('C04.6-wire-emitted', 'byte layout of every handshake message this side emits equals the protocol layout (widths, tag constants, length prefix = sum of what follows)', floor=3)
    ctx.rule('C04.6-wire-parsed', 'layout read by the decoders of the messages this side parses equals the protocol layout, tag constant checked', floor=3)
    for path, row in spec['emitted'].items():
        check_writer(ctx, path, row, 'C04.6-wire-emitted', True)
    for path, row in spec['parsed'].items():
        check_reader(ctx, path, row, 'C04.6-wire-parsed', True)
    ctx.rule('C04.6-wire-info', 'codecs of the opposite direction (no caller outside tests): compared, reported as information only')
    for path, row in spec['informational'].items():
        if 'encode' in path:
            check_writer(ctx, path, row, 'C04.6-wire-info', False)
        else:
            check_reader(ctx, path, row, 'C04.6-wire-info', False)
    # status texts accepted
    B = ctx.body(HS + 'StatusMessage::decode')
    if B is not None:
        strs = set()
        for bb, t in B.calls():
            for a in t['args']:
                if a['k'] == 'c' and 's' in a:
                    strs.add(a['s'])
        for bb, j, st in B.stmts():
            if st['k'] == '=' and st['rv']['k'] == 'use' and st['rv']['op']['k'] == 'c' and 's' in st['rv']['op']:
                strs.add(st['rv']['op']['s'])
        want = set(spec['status_texts'])
        if want <= strs:
            ctx.ok('C04.6-wire-parsed', 'status-texts', 'accepts %s' % sorted(want), ctx.where(B))
        else:
            ctx.bad('C04.6-wire-parsed', 'status-texts', 'status decoder does not recognise %s' % sorted(want - strs), ctx.where(B),
                    key='WIRE:%sStatusMessage::decode:texts' % HS)

    # ---------------- clause 7: PANIC (Buf consumption) ---------------------------------------------------
    ctx.rule('C04.7-buf-guard', 'every Buf::get_*/copy_to_slice/slice in a handshake decoder is covered by a remaining() guard for at least the bytes consumed since', floor=14)
    for name in ('StatusMessage::decode', 'Challenge::decode', 'ChallengeAck::decode', 'ChallengeReply::decode', 'SendName::decode'):
        B = ctx.body(HS + name)
        if B is not None:
            buf_accounting(ctx, B, 'C04.7-buf-guard')

    # ---------------- clause 8: step order & timeouts ---------------------------------------------------------
    check_connect(ctx)

    # CAST in emitted encoders (length prefix / name length)
    ctx.rule('C04.6-cast', 'lengths written with a narrower width in emitted handshake messages are range-guarded', floor=2)
    for path in spec['emitted']:
        B = ctx.P.B(path)
        if B is not None:
            check_casts(ctx, B, 'C04.6-cast', include_float=False, reviewed={
                'edp_client::handshake::SendName::encode_old:as_u64(self.flags)(u64->u32)':
                    'the protocol splits the 64-bit flag word: the old send_name carries the low 32 bits (this truncation) and the '
                    'complement message carries flags >> 32 (checked by C04.6-wire-emitted on prepare_complement)'})


# ----------------------------------------------------------------------------------

    # which status answers let the handshake go on
    ctx.rule('C04.9-status-acceptance', 'the handshake continues only on the status answers `ok` and `ok_simultaneous`: Status::is_ok() is true for exactly those variants (evaluated variant by variant), '
             'and handle_status refuses on its false edge', floor=2)
    SB = ctx.P.B(HS + 'Status::is_ok')
    sadt = ctx.F.adts.get(HS + 'Status')
    if ctx.anchor(SB is not None and sadt is not None, HS + 'Status::is_ok'):
        from ..core import eval_on_variant
        res = {v['n']: eval_on_variant(SB, i) for i, v in enumerate(sadt['variants'])}
        accept = sorted(k for k, v in res.items() if v in (1, True))
        unknown = sorted(k for k, v in res.items() if v is None)
        if unknown:
            ctx.undecided('C04.9-status-acceptance', 'is_ok', 'result not decided for %s' % unknown)
        elif accept == ['Ok', 'OkSimultaneous']:
            ctx.ok('C04.9-status-acceptance', 'is_ok', 'true for %s, false for %s' % (accept, sorted(set(res) - set(accept))), ctx.where(SB))
        else:
            ctx.bad('C04.9-status-acceptance', 'is_ok', 'Status::is_ok() is true for %s; the protocol lets the handshake proceed only on ok / ok_simultaneous (nok, not_allowed and alive must stop it)' % accept,
                    ctx.where(SB), key='TABLE:%sStatus::is_ok:accepts:%s' % (HS, ','.join(accept)))
    HB = ctx.P.B('edp_client::state_machine::HandshakeStateMachine::handle_status')
    if ctx.anchor(HB is not None, 'HandshakeStateMachine::handle_status'):
        tests = []
        for bb in sorted(HB.live_blocks()):
            sb = HB.switch_bool_edges(bb)
            if sb and sb[0][0] == 'call' and is_call_to(sb[0][2], HS + 'Status::is_ok'):
                tests.append((bb, sb))
        if not tests:
            ctx.bad('C04.9-status-acceptance', 'handle_status', 'handle_status no longer tests Status::is_ok(): every status answer lets the handshake continue', ctx.where(HB), key='DOM:handle_status:no-status-test')
        else:
            bb, (src, t_t, f_t) = tests[0]
            from ..wire import error_blocks
            errs = error_blocks(HB)
            refuses = any(x in errs for x in HB.reachable(f_t)) and not any(r_ in HB.reachable(f_t, removed_blocks=errs) for r_ in HB.return_blocks())
            if refuses:
                ctx.ok('C04.9-status-acceptance', 'handle_status', 'the false edge of is_ok() only leads to an error return', ctx.where(HB, bb))
            else:
                ctx.bad('C04.9-status-acceptance', 'handle_status', 'a status for which is_ok() is false can still return successfully from handle_status', ctx.where(HB, bb), key='DOM:handle_status:false-edge-continues')

    # the capability bits themselves: what a name means is fixed by the protocol
    flag_values(ctx, 'C04.4-flag-values')

    # "the digest of the cookie" means the cookie the caller configured, byte for byte
    ctx.rule('C04.3-cookie-verbatim', 'the cookie travels from the caller to the digest unchanged: every struct field named `cookie` (connection configuration, handshake state machine, node) is initialised from the '
             'constructor parameter through ownership conversions only (into / to_string / to_owned / clone / String::from / as_ref), and so is every `cookie` argument passed on; '
             'trimming, case folding or any other rewriting makes both sides prove a different secret than the one configured', floor=2)
    from ..families import operand_chain as _chain
    _OKCONV = ('::into', '::to_string', '::to_owned', '::clone', '::from', '::as_ref', '::as_str', '::deref', '::borrow', '::to_vec', '::into_boxed_str', '::as_bytes')
    n_ck = 0

    def _cookie_ok(B_, op):
        ch = _chain(B_, op)
        foreign = [c_ for c_ in ch if c_ and not any(str(c_).endswith(x) or (x + '<') in str(c_) for x in _OKCONV) and not str(c_).endswith('Into<U>>::into')]
        return foreign
    for q in sorted(ctx.F.bodies):
        if not (q.startswith('edp_client::') or q.startswith('edp_node::') or q.startswith('<edp_client::') or q.startswith('<edp_node::')):
            continue
        if 'control::' in q:
            continue      # the `cookie` element of SEND / REG_SEND control tuples is another thing (an unused atom)
        KB = P.B(q)
        if KB is None:
            continue
        for bb, j, st in KB.stmts():
            if st['k'] == '=' and st['rv']['k'] == 'agg' and st['rv'].get('fn') and 'cookie' in st['rv']['fn'] and 'ControlMessage' not in str(st['rv'].get('adt')):
                op = st['rv']['ops'][st['rv']['fn'].index('cookie')]
                n_ck += 1
                inst = '%s:%s.cookie' % (q.split('::{')[0].rsplit('::', 2)[-2] + '::' + q.split('::{')[0].rsplit('::', 1)[-1], str(st['rv'].get('adt')).rsplit('::', 1)[-1])
                foreign = _cookie_ok(KB, op)
                if foreign:
                    ctx.bad('C04.3-cookie-verbatim', inst, 'the cookie stored here has been through %s: the digests are computed over a rewritten cookie, not the configured one' % ', '.join(str(x).rsplit('::', 1)[-1] for x in foreign),
                            ctx.where(KB, ln=st['ln']), key='PROV:%s:cookie-rewritten' % q.split('::{')[0])
                else:
                    ctx.ok('C04.3-cookie-verbatim', inst, 'parameter stored as given', ctx.where(KB, ln=st['ln']))
        for bb, t in KB.calls():
            g = callee_of(t)[0] or ''
            cb = ctx.F.bodies.get(g)
            if not cb or not (g.startswith('edp_client::') or g.startswith('edp_node::')) or 'control::' in g:
                continue
            names = [cb['locals'][i].get('n') for i in range(1, cb.get('argc', 0) + 1)]
            if 'cookie' not in names or len(t['args']) != len(names):
                continue
            op = t['args'][names.index('cookie')]
            n_ck += 1
            inst = '%s->%s(cookie)' % (q.split('::{')[0].rsplit('::', 1)[-1], g.rsplit('::', 2)[-2] + '::' + g.rsplit('::', 1)[-1])
            foreign = _cookie_ok(KB, op)
            if foreign:
                ctx.bad('C04.3-cookie-verbatim', inst, 'the cookie passed on here has been through %s' % ', '.join(str(x).rsplit('::', 1)[-1] for x in foreign), ctx.where(KB, bb),
                        key='PROV:%s:cookie-rewritten-at-call:%s' % (q.split('::{')[0], g.rsplit('::', 1)[-1]))
            else:
                ctx.ok('C04.3-cookie-verbatim', inst, 'passed on as held', ctx.where(KB, bb))
    ctx.anchor(n_ck >= 2, 'cookie fields / arguments in edp_client and edp_node')

    from ..families import check_error_swallow as _swallow
    ctx.rule('C04.6-errors-surface', 'in the functions of this property that can themselves report failure, the Result of one of the repository\'s own fallible functions is never turned into "nothing" or a default (ok(), unwrap_or*, map_or*): an error must surface as an error, not as a value the callee never produced; a rule about what must not be there (exercised on the fixture every run)', floor=0)
    _swallow(ctx, P, 'C04.6-errors-surface', ('edp_client::handshake::', 'edp_client::state_machine::', 'edp_client::digest::', 'edp_client::connection::Connection::connect', 'edp_client::connection::Connection::perform_handshake'))

    from ..families import check_sibling_ctors as _sib
    ctx.rule('C04.6-config-constructors', 'ConnectionConfig::new and ::new_hidden build the same configuration except for the flag set (hidden nodes do not publish): cookie, names, creation, timeout and EPMD host are initialised alike', floor=1)
    _sib(ctx, P, 'C04.6-config-constructors', 'edp_client::connection::ConnectionConfig', ['edp_client::connection::ConnectionConfig::new', 'edp_client::connection::ConnectionConfig::new_hidden'], {'flags'})

    # "ends in an error within the configured timeout": one timed read per handshake step, not a loop of timed reads
    ctx.rule('C04.8-one-read-per-step', 'no function of Connection reachable from the handshake steps reads a message inside a loop: each step waits for exactly one message, so the step as a whole is bounded by the timeout of that read '
             '(a loop that skips "empty" or unexpected frames can be kept turning by the peer for ever, and lets frames through that the protocol does not have at this point)', floor=0)
    from ..wire import _sccs as _sccs4
    hs_roots = ['edp_client::connection::Connection::%s::{closure#0}' % s_ for s_ in ('receive_status', 'receive_challenge', 'receive_challenge_ack', 'send_name', 'send_challenge_reply', 'send_complement')]
    n_lp = 0
    for q in sorted(P.reachable_from([r for r in hs_roots if r in ctx.F.bodies])):
        if not q.startswith('edp_client::connection::Connection::'):
            continue
        LB = P.B(q)
        for comp in _sccs4(LB, LB.live_blocks()):
            if len(comp) < 2:
                continue
            cs = set(comp)
            readers = [bb for bb, t in LB.calls() if bb in cs and any(n.endswith('::read_message') or n.endswith('::read_framed') or n.endswith('FramedTransport::read') or 'AsyncReadExt' in n for n in callee_names(t))]
            if readers:
                n_lp += 1
                ctx.bad('C04.8-one-read-per-step', q.split('::{')[0].rsplit('::', 1)[-1], '%s reads handshake messages in a loop: the step no longer ends with the timeout of one read, and messages the protocol does not allow at this step are skipped instead of refused'
                        % q.split('::{')[0].rsplit('::', 1)[-1], ctx.where(LB, readers[0]), key='LOOP:%s:handshake-read-in-loop' % q.split('::{')[0])
    if n_lp == 0:
        ctx.ok('C04.8-one-read-per-step', 'handshake', 'no read loop in the Connection functions reachable from the handshake steps')


def check_digest(ctx):
    B = ctx.body('edp_client::digest::compute_digest')
    if B is None:
        return
    inst = 'compute_digest'
    updates = [(bb, t) for bb, t in B.calls() if any(n.endswith('Update::update') or n.endswith('::update') for n in callee_names(t))]
    # the one-shot form `Md5::digest(data)` is new + update(data) + finalize
    oneshot = [(bb, t) for bb, t in B.calls() if any(n.endswith('Digest::digest') for n in callee_names(t)) and t['args']]
    if len(updates) == 0 and len(oneshot) == 1:
        bb_, t_ = oneshot[0]
        updates = [(bb_, dict(t_, args=[None, t_['args'][0]], _oneshot=True))]
    if len(updates) == 0:
        ctx.bad('C04.2-digest-shape', inst, 'no hasher update call found', ctx.where(B), key='SHAPE:compute_digest:no-update')
        return
    # hasher must be Md5
    md5 = True
    for bb, t in updates:
        ty = (str(t.get('ga')) + str((t.get('f') or {}).get('d'))) if t.get('_oneshot') else root_ty(B, t['args'][0])
        if 'md5' not in ty.lower():
            md5 = False
    if not md5:
        ctx.bad('C04.2-digest-shape', inst, 'hasher is not MD5', ctx.where(B), key='SHAPE:compute_digest:not-md5')
        return
    # calibration template for "{}{}"
    tmpl_two = None
    if ctx.PX is not None:
        BX = ctx.PX.B('posfix::fmt_two_display')
        if BX is not None:
            for bb, t in BX.calls():
                if is_call_to(t, 'core::fmt::Arguments::<\'a>::new'):
                    o = BX.blocks[bb]['t']['args'][0]
                    tmpl_two = _const_bytes(BX, o)
    if len(updates) == 1:
        bb, t = updates[0]
        src = B.origin(t['args'][1])
        # as_bytes/as_ref are transparent in origin(); expect call alloc::fmt::format or must_use(format)
        chain = src
        for _ in range(4):
            if chain[0] == 'call' and chain[1] in ('core::hint::must_use',):
                chain = B.origin(B.blocks[chain[2]]['t']['args'][0])
            elif chain[0] == 'call' and chain[1] and chain[1].endswith('as_bytes'):
                chain = B.origin(B.blocks[chain[2]]['t']['args'][0])
            else:
                break
        if chain[0] == 'call' and chain[1] == 'alloc::fmt::format':
            at = B.blocks[chain[2]]['t']
            ao = B.origin(at['args'][0])
            if ao[0] == 'call' and ao[1] and ao[1].startswith('core::fmt::Arguments') and ao[1].endswith('::new'):
                nt = B.blocks[ao[2]]['t']
                tmpl = _const_bytes(B, nt['args'][0])
                argv = _fmt_args(B, nt['args'][1])
                if tmpl is None or argv is None:
                    ctx.undecided('C04.2-digest-shape', inst, 'format template or arguments not recognised')
                    return
                if tmpl_two is None:
                    ctx.undecided('C04.2-digest-shape', inst, 'no calibration template available from the fixture')
                    return
                if tmpl != tmpl_two:
                    ctx.bad('C04.2-digest-shape', inst, 'format template %r is not the "{}{}" template %r: MD5 input is not cookie ++ challenge' % (bytes(tmpl), bytes(tmpl_two)),
                            ctx.where(B, bb), key='SHAPE:compute_digest:template')
                    return
                a0, a1 = argv[0], argv[1]
                ok0 = a0[0] == 'arg' and a0[1] == 2
                ok1 = (a1[0] == 'arg' and a1[1] == 1) or (a1[0] == 'call' and a1[1] and 'to_string' in a1[1])
                if a1[0] == 'call' and a1[1] and 'to_string' in a1[1]:
                    ts = B.origin(B.blocks[a1[2]]['t']['args'][0])
                    ok1 = ts[0] == 'arg' and ts[1] == 1
                # origin() sees through to_string as pass-through:
                if a1[0] == 'arg' and a1[1] == 1:
                    ok1 = True
                chal_ty = B.local_ty(1)
                if ok0 and ok1 and chal_ty in ('u32', 'u64'):
                    ctx.ok('C04.2-digest-shape', inst, 'MD5(format!("{}{}", cookie, challenge:%s Display=decimal))' % chal_ty, ctx.where(B, bb))
                else:
                    ctx.bad('C04.2-digest-shape', inst, 'format arguments are not (cookie, challenge) in that order: %s, %s' % (a0, a1), ctx.where(B, bb),
                            key='SHAPE:compute_digest:args')
                return
        ctx.undecided('C04.2-digest-shape', inst, 'single update whose input is not a recognised format!: %s' % (chain[:2],))
        return
    if len(updates) == 2:
        o0 = B.origin(updates[0][1]['args'][1])
        o1 = B.origin(updates[1][1]['args'][1])
        if o0[0] == 'arg' and o0[1] == 2 and ((o1[0] == 'arg' and o1[1] == 1) or (o1[0] == 'call' and 'to_string' in (o1[1] or ''))) \
                and updates[1][0] in B.reachable(updates[0][0]):
            ctx.ok('C04.2-digest-shape', inst, 'update(cookie); update(challenge.to_string())', ctx.where(B))
        else:
            ctx.bad('C04.2-digest-shape', inst, 'two updates not in the order cookie, challenge: %s then %s' % (o0, o1), ctx.where(B),
                    key='SHAPE:compute_digest:args')
        return
    ctx.undecided('C04.2-digest-shape', inst, '%d update calls: shape not recognised' % len(updates))


def root_ty(B, op):
    """type of the variable an operand refers to (through reference temporaries)"""
    cur = op
    for _ in range(8):
        if cur['k'] == 'c':
            return cur.get('ty', '')
        l = cur['pl']['l']
        d = B.single_def(l)
        if d is not None and d[0] == 's' and d[3]['rv']['k'] == 'ref' and not d[3]['rv']['pl'].get('p'):
            cur = {'k': 'cp', 'pl': d[3]['rv']['pl']}
            continue
        if d is not None and d[0] == 's' and d[3]['rv']['k'] == 'use' and d[3]['rv']['op']['k'] != 'c':
            cur = d[3]['rv']['op']
            continue
        return B.local_ty(l)
    return ''


def _const_bytes(B, op):
    cur = op
    for _ in range(6):
        if cur['k'] == 'c':
            return cur.get('bytes')
        d = B.single_def(cur['pl']['l'])
        if d is None or d[0] != 's':
            return None
        rv = d[3]['rv']
        if rv['k'] == 'use':
            cur = rv['op']
        elif rv['k'] == 'ref':
            cur = {'k': 'cp', 'pl': rv['pl']}
        elif rv['k'] == 'cast':
            cur = rv['op']
        else:
            return None
    return None


def _fmt_args(B, op):
    """origins of the values wrapped by Argument::new_display in the args array"""
    o = B.origin(op)
    while o[0] == 'cast':
        o = o[3]
    if o[0] != 'agg' or o[1]['ak'] != 'array':
        return None
    out = []
    for a in o[1]['ops']:
        ao = B.origin(a)
        if ao[0] == 'call' and ao[1] and 'Argument' in ao[1] and 'new_display' in ao[1]:
            v = B.blocks[ao[2]]['t']['args'][0]
            vo = B.origin(v)
            # `args.0` of the tuple of references
            if vo[0] == 'proj' and vo[1][0] == 'agg' and vo[1][1]['ak'] == 'tuple':
                idx = int(vo[2][0])
                vo = B.origin(vo[1][1]['ops'][idx])
            elif vo[0] == 'local' and vo[2]:
                d = B.single_def(vo[1])
            out.append(vo)
        else:
            return None
    return out


WIDTH_BYTES = {'u8': 1, 'u16': 2, 'u32': 4, 'u64': 8, 'i32': 4, 'f64': 8}


def check_writer(ctx, path, row, rule, armed):
    B = ctx.body(path) if armed else ctx.P.B(path)
    if B is None:
        if not armed:
            ctx.info_note('informational codec %s not present' % path)
        return
    seqs, trunc = success_sequences(B, lambda B, bb: io_events(B, bb))
    silent = any(not s for s in seqs)
    seqs = {s for s in seqs if s}
    inst = path.split('::', 2)[-1]
    report_bad = ctx.bad if armed else (lambda r, i, d, w=None, key=None: ctx.info_note('%s: %s' % (i, d)))
    if silent and seqs:
        report_bad(rule, inst + ':always', 'a successful return of %s writes nothing at all: on that path the message the protocol prescribes at this step is not emitted (the peer reads the next message in its place)' % inst,
                   ctx.where(B), key='WIRE:%s:success-path-writes-nothing' % path)
    if len(seqs) != 1:
        (ctx.undecided if armed else (lambda r, i, d, w=None: ctx.info_note('%s: %s' % (i, d))))(rule, inst, 'writer has %d distinct success layouts: %s' % (len(seqs), [fmt_seq(s) for s in seqs]), ctx.where(B))
        return
    seq = list(seqs)[0]
    lay = row['layout']
    if len(seq) != len(lay):
        report_bad(rule, inst, 'writes %d items [%s], protocol layout has %d %s' % (len(seq), fmt_seq(seq), len(lay), lay), ctx.where(B), key='WIRE:%s:layout' % path)
        return
    total_after = 0
    var_after = []
    problems = []
    for i, (e, (w, v)) in enumerate(zip(seq, lay)):
        ew = e[1]
        want_w = 'bytes' if w.startswith('bytes') else w
        if ew != want_w:
            problems.append('item %d is %s, protocol says %s' % (i, ew, w))
            continue
        if isinstance(v, int):
            if e[2] != v:
                problems.append('item %d constant is %s, protocol says %s' % (i, e[2], v))
        if i > 0:
            if w == 'bytes16':
                total_after += 16
                if not re.search(r'\[u8; 16\]|digest', str(e[2])):
                    pass
            elif w == 'bytes':
                var_after.append(str(e[2]))
            else:
                total_after += WIDTH_BYTES[w]
    # length prefix
    e0 = seq[0]
    if lay[0][1] == 'LEN' and not problems:
        desc = str(e0[2])
        consts = sum(int(x) for x in re.findall(r'(?<![\w.])(\d+)(?![\w.])', re.sub(r'as u16', '', desc)))
        lens = re.findall(r'len\(([^)]*)\)', desc)
        want_lens = [re.sub(r'^len\(|\)$', '', x) for x in var_after]
        if consts != total_after:
            problems.append('length prefix constant part is %d, the fixed-width items that follow sum to %d' % (consts, total_after))
        if sorted(lens) != sorted(v_.replace('len(', '').rstrip(')') for v_ in var_after):
            problems.append('length prefix variable part %s does not match the variable-length items %s' % (lens, var_after))
    elif isinstance(lay[0][1], int) and not problems:
        if lay[0][1] != total_after:
            problems.append('protocol table inconsistent')
        if e0[2] != total_after:
            problems.append('length prefix %s != %d bytes that follow' % (e0[2], total_after))
    # field provenance
    for i, (e, (w, v)) in enumerate(zip(seq, lay)):
        if isinstance(v, str) and v != 'LEN' and row.get('fields'):
            f = row['fields'].get(v)
            if f and f not in str(e[2]):
                problems.append('item %d (%s) is written from %s, expected field %s' % (i, v, e[2], f))
    if problems:
        report_bad(rule, inst, '; '.join(problems) + '  [%s]' % fmt_seq(seq), ctx.where(B), key='WIRE:%s:layout' % path)
    else:
        ctx.ok(rule, inst, fmt_seq(seq), ctx.where(B))


def check_reader(ctx, path, row, rule, armed):
    B = ctx.body(path) if armed else ctx.P.B(path)
    if B is None:
        return
    seqs, trunc = success_sequences(B, lambda B, bb: io_events(B, bb))
    inst = path.split('::', 2)[-1]
    report_bad = ctx.bad if armed else (lambda r, i, d, w=None, key=None: ctx.info_note('%s: %s' % (i, d)))
    seqs = {s for s in seqs}
    if len(seqs) != 1:
        (ctx.undecided if armed else (lambda r, i, d, w=None: ctx.info_note('%s: %s' % (i, d))))(rule, inst, 'reader has %d distinct success layouts' % len(seqs), ctx.where(B))
        return
    seq = list(seqs)[0]
    lay = row['layout']
    problems = []
    if len(seq) != len(lay):
        problems.append('reads %d items [%s], protocol layout has %d %s' % (len(seq), fmt_seq(seq), len(lay), lay))
    else:
        for i, (e, (w, v)) in enumerate(zip(seq, lay)):
            want_w = 'bytes' if w.startswith('bytes') else w
            if e[1] != want_w:
                problems.append('item %d is %s, protocol says %s' % (i, e[1], w))
            if w == 'bytes16' and e[2] != 16:
                problems.append('item %d reads %s bytes, protocol says 16' % (i, e[2]))
    # tag constant: on the success return the first byte read must be known equal to the protocol tag
    if not problems and isinstance(lay[0][1], int):
        R = Ranges(B)
        first = None
        # the first read on the success path (block numbers say nothing about order once a helper has been spliced in)
        rds = [bb for bb in sorted(B.live_blocks()) if B.blocks[bb]['t']['k'] == 'call' and prim_of(B.blocks[bb]['t']) and prim_of(B.blocks[bb]['t'])[0] == 'r']
        fb = next((a for a in rds if all(a == b_ or B.block_dominates(a, b_) for b_ in rds)), None)
        if fb is not None and 0 <= fb < len(B.blocks) and B.blocks[fb]['t']['k'] == 'call' and prim_of(B.blocks[fb]['t']) and prim_of(B.blocks[fb]['t'])[0] == 'r':
            first = (fb, B.blocks[fb]['t'])
        for bb in (sorted(B.live_blocks()) if first is None else ()):
            t = B.blocks[bb]['t']
            if t['k'] == 'call' and prim_of(t) and prim_of(t)[0] == 'r':
                first = (bb, t)
                break
        oks = [bb for bb, j, st in B.stmts() if st['k'] == '=' and B.is_ret_slot(st['pl']['l']) and st['rv']['k'] == 'agg' and st['rv'].get('var') == 'Ok']
        if first and oks:
            c = ('call', callee_of(first[1])[1] or callee_of(first[1])[0], first[0])
            f = R.facts_at(oks[0]).get(c)
            if f is None or f[0] != f[1] or f[0] != lay[0][1]:
                problems.append('success path does not establish tag == %d (known: %s)' % (lay[0][1], f))
    # field order of same-width items
    if not problems and row.get('fields_in_order'):
        oks = [(bb, st) for bb, j, st in B.stmts() if st['k'] == '=' and st['rv']['k'] == 'agg' and st['rv'].get('adt', '').startswith(HS)]
        if oks:
            rv = oks[-1][1]['rv']
            reads = [bb for bb in sorted(B.live_blocks()) if B.blocks[bb]['t']['k'] == 'call' and prim_of(B.blocks[bb]['t']) and prim_of(B.blocks[bb]['t'])[0] == 'r']
            order = {}
            for fname, op in zip(rv['fn'], rv['ops']):
                o = B.origin(op)
                while o[0] == 'cast':
                    o = o[3]
                if o[0] == 'call' and o[1] and o[1].endswith('DistributionFlags::new'):
                    o = B.origin(B.blocks[o[2]]['t']['args'][0])
                if o[0] == 'call' and o[2] in reads:
                    order[fname] = reads.index(o[2])
            got = [f for f, _ in sorted(order.items(), key=lambda kv: kv[1])]
            want = row['fields_in_order']
            if [g for g in got if g in want] != want:
                problems.append('fields are filled from reads in order %s, protocol order is %s' % (got, want))
    if problems:
        report_bad(rule, inst, '; '.join(problems), ctx.where(B), key='WIRE:%s:layout' % path)
    else:
        ctx.ok(rule, inst, fmt_seq(seq), ctx.where(B))


def buf_accounting(ctx, B, rule):
    """Forward dataflow of a lower bound on Buf::remaining(): (const, symbol)."""
    CONS = {'get_u8': 1, 'get_u16': 2, 'get_u32': 4, 'get_u64': 8, 'get_i32': 4, 'get_f64': 8}
    R = Ranges(B)
    start = (0, None)
    state = {0: start}
    work = [0]
    results = {}
    seen_count = {}
    while work:
        bb = work.pop()
        lo, sym = state[bb]
        t = B.blocks[bb]['t']
        out_default = (lo, sym)
        edge_states = {}
        if t['k'] == 'call':
            p = prim_of(t)
            g, r = callee_of(t)
            need = None
            what = None
            if p and p[0] == 'r' and p[2] in CONS:
                need = CONS[p[2]]
                what = p[2]
            elif p and p[0] == 'r' and p[2] == 'copy_to_slice':
                from ..wire import _len_of
                n = _len_of(B, t['args'][1])
                need = n if isinstance(n, int) else None
                what = 'copy_to_slice(%s)' % n
                if need is None:
                    results[(bb, what)] = (False, 'length of destination not constant')
            elif g and 'Index' in g and g.endswith('::index') and 'u8' in (B.local_ty(t['dst']['l'])):
                # buf[..n]
                io = B.origin(t['args'][1])
                what = 'slice'
                if io[0] == 'agg' and io[1].get('adt', '').endswith('RangeTo'):
                    c = canon(B, io[1]['ops'][0])
                    if c[0] == 'const':
                        need = c[1]
                    elif sym is not None and c == sym:
                        results[(bb, 'slice[..%s]' % describe(B, c))] = (True, 'remaining >= %s established by guard' % describe(B, c))
                    else:
                        results[(bb, 'slice[..%s]' % describe(B, c))] = (False, 'no guard remaining() >= %s' % describe(B, c))
                elif io[0] == 'agg' and io[1].get('adt', '').endswith('RangeFull'):
                    pass
                else:
                    results[(bb, 'slice[?]')] = (False, 'index shape not recognised')
            if need is not None:
                if lo >= need:
                    results[(bb, what)] = (True, 'remaining >= %d known, consumes %d' % (lo, need))
                    out_default = (lo - need, None)
                else:
                    results[(bb, what)] = (False, 'only remaining >= %d known, consumes %d' % (lo, need))
                    out_default = (0, None)
        if t['k'] == 'switch' and t['dty'] == 'bool':
            sb = B.switch_bool_edges(bb)
            if sb:
                source, t_t, f_t = sb
                if source[0] == 'bin' and source[2]['op'] in ('Lt', 'Le', 'Gt', 'Ge'):
                    a, b = canon(B, source[2]['a']), canon(B, source[2]['b'])
                    op = source[2]['op']
                    if b[0] == 'remaining' and a[0] != 'remaining':
                        a, b = b, a
                        op = {'Lt': 'Gt', 'Le': 'Ge', 'Gt': 'Lt', 'Ge': 'Le'}[op]
                    if a[0] == 'remaining':
                        kr = R._range_canon(b, bb, None, True, 0)
                        # remaining < k  false-edge: remaining >= k
                        if op == 'Lt':
                            edge_states[f_t] = (max(lo, kr[0]) if kr[0] != float('-inf') else lo, b if b[0] != 'const' else None)
                        elif op == 'Le':
                            edge_states[f_t] = (max(lo, kr[0] + 1), None)
                        elif op == 'Ge':
                            edge_states[t_t] = (max(lo, kr[0]) if kr[0] != float('-inf') else lo, b if b[0] != 'const' else None)
                        elif op == 'Gt':
                            edge_states[t_t] = (max(lo, kr[0] + 1), None)
        for s_ in B.succ(bb):
            ns = edge_states.get(s_, out_default)
            if s_ in state:
                old = state[s_]
                merged = (min(old[0], ns[0]), old[1] if old[1] == ns[1] else None)
                if merged != old:
                    state[s_] = merged
                    work.append(s_)
            else:
                state[s_] = ns
                work.append(s_)
    cnt = {}
    for (bb, what), (ok, detail) in sorted(results.items()):
        k = cnt.get(what, 0) + 1
        cnt[what] = k
        inst = '%s:%s%s' % (B.path, what, '' if k == 1 else '#%d' % k)
        if ok:
            ctx.ok(rule, inst, detail, ctx.where(B, bb))
        else:
            ctx.bad(rule, inst, 'read may panic on short input: ' + detail, ctx.where(B, bb), key='PANIC:' + inst)


def check_connect(ctx):
    """clause 8: the handshake steps in Connection::connect occur in protocol order, each `?`-propagated,
    frame mode switched only after the ack was verified; handshake I/O is wrapped in timeouts."""
    P = ctx.P
    rule = 'C04.8-connect-order'
    ctx.rule(rule, 'Connection::connect performs send_name, receive_status, receive_challenge, send_challenge_reply, receive_challenge_ack in this order, each result propagated; distribution framing is enabled only after the ack succeeded', floor=6)
    B = P.B('edp_client::connection::Connection::connect::{closure#0}')
    if not ctx.anchor(B is not None, 'edp_client::connection::Connection::connect (async body)'):
        return
    steps = ['send_name', 'receive_status', 'receive_challenge', 'send_challenge_reply', 'receive_challenge_ack']
    pos = {}
    for bb, t in B.calls():
        for n in callee_names(t):
            for s_ in steps:
                if n == 'edp_client::connection::Connection::' + s_:
                    pos.setdefault(s_, []).append(bb)
    missing = [s_ for s_ in steps if s_ not in pos]
    if missing:
        ctx.bad(rule, 'steps', 'handshake steps not called from connect: %s' % missing, ctx.where(B), key='ORDER:connect:missing:%s' % ','.join(missing))
        return
    prev = None
    for s_ in steps:
        bb = pos[s_][0]
        if prev is not None:
            pb = pos[prev][0]
            # bb only reachable through pb, and through the Ok edge of pb's awaited result
            if B.block_dominates(pb, bb):
                ctx.ok(rule, '%s->%s' % (prev, s_), 'order enforced by dominance', ctx.where(B, bb))
            else:
                ctx.bad(rule, '%s->%s' % (prev, s_), '%s can run without %s having run' % (s_, prev), ctx.where(B, bb), key='ORDER:connect:%s->%s' % (prev, s_))
        prev = s_
    # each step's result is propagated: an error result cannot reach the next step.
    # We check: from the step's call block, every path to the next step passes a Try::branch Continue edge.
    for i, s_ in enumerate(steps):
        bb = pos[s_][0]
        nxt = pos[steps[i + 1]][0] if i + 1 < len(steps) else None
        targets = [nxt] if nxt is not None else None
        # find Try::branch calls reachable from bb before nxt whose argument derives from this step's future
        tb = []
        for b2, t2 in B.calls():
            if callee_of(t2)[0] == 'core::ops::try_trait::Try::branch' and b2 in B.reachable(bb) and (nxt is None or nxt in B.reachable(b2)):
                tb.append(b2)
        good = False
        for b2 in tb:
            sw = B.blocks[b2]['t']['t']
            sd = B.switch_on_discr(sw) if sw is not None else None
            if sd:
                cont = [b for v, b in sd[2] if v == 0]
                if cont and nxt is not None and B.edge_dominates((sw, cont[0]), nxt) and not B.block_dominates(nxt, b2):
                    good = True
                if nxt is None:
                    good = True
        if good:
            ctx.ok(rule, s_ + ':propagated', 'an Err result returns before the next step', ctx.where(B, bb))
        else:
            ctx.bad(rule, s_ + ':propagated', 'result of %s is not ?-propagated before the next step' % s_, ctx.where(B, bb), key='ORDER:connect:%s:unpropagated' % s_)
    # frame mode
    fm = [(bb, t) for bb, t in B.calls() if any(n.endswith('set_frame_mode') for n in callee_names(t))]
    ack = pos['receive_challenge_ack'][0]
    for bb, t in fm:
        mode = ctx_variant(B, t['args'][1]) if len(t['args']) > 1 else None
        if mode == 'Distribution':
            # must be dominated by the Continue edge after the ack
            okd = False
            for b2, t2 in B.calls():
                if callee_of(t2)[0] == 'core::ops::try_trait::Try::branch' and b2 in B.reachable(ack):
                    sw = B.blocks[b2]['t']['t']
                    sd = B.switch_on_discr(sw) if sw is not None else None
                    if sd:
                        cont = [b for v, b in sd[2] if v == 0]
                        if cont and B.edge_dominates((sw, cont[0]), bb):
                            okd = True
            if okd:
                ctx.ok(rule, 'frame-mode', 'Distribution framing set only after receive_challenge_ack succeeded', ctx.where(B, bb))
            else:
                ctx.bad(rule, 'frame-mode', 'Distribution framing can be enabled without a successful challenge ack', ctx.where(B, bb), key='ORDER:connect:frame-mode')
    # timeouts: every socket read/write reachable from the handshake steps goes through transport read/write_raw,
    # and those wrap their I/O future in tokio::time::timeout
    rule2 = 'C04.8-timeouts'
    ctx.rule(rule2, 'every future that performs socket I/O and is reachable from the handshake steps is created as the future argument of tokio::time::timeout', floor=2)
    roots = ['edp_client::connection::Connection::%s::{closure#0}' % s_ for s_ in steps + ['send_complement']]
    reach = P.reachable_from(roots)

    def is_sock(ns):
        return any(n.startswith('tokio::io::util::async_read_ext::AsyncReadExt::') or n.startswith('tokio::io::util::async_write_ext::AsyncWriteExt::')
                   for n in ns)
    io_bodies = [p for p in sorted(reach) if any(is_sock(callee_names(t)) for _, t in P.B(p).calls())]
    if not io_bodies:
        ctx.undecided(rule2, 'handshake', 'no socket operation found reachable from the handshake steps')
    for p in io_bodies:
        # creation sites of this future among reachable bodies
        sites = []
        parent_fn = p[:-len('::{closure#0}')] if p.endswith('::{closure#0}') else None
        for q in sorted(reach):
            Bq = P.B(q)
            for bb, t in Bq.calls():
                if parent_fn and (callee_of(t)[0] == parent_fn or (parent_fn in callee_names(t) and not (callee_of(t)[0] or '').endswith('Future::poll'))):
                    sites.append((Bq, ('call', bb)))
            for bb, j, st in Bq.stmts():
                if st['k'] == '=' and st['rv']['k'] == 'agg' and st['rv'].get('def') == p and q != parent_fn:
                    sites.append((Bq, ('agg', bb, p)))
        bad = []
        for Bq, m in sites:
            tcalls = [(bb, t) for bb, t in Bq.calls() if any(n.startswith('tokio::time::timeout::timeout') for n in callee_names(t))]
            flows = False
            for tb, tt in tcalls:
                o = Bq.origin(tt['args'][1]) if len(tt['args']) > 1 else ('unknown',)
                if m[0] == 'call' and o[0] == 'call' and o[2] == m[1]:
                    flows = True
                if m[0] == 'agg' and o[0] == 'agg' and o[1].get('def') == m[2]:
                    flows = True
            if not flows:
                bad.append(Bq.path)
        if not sites:
            ctx.undecided(rule2, p, 'socket I/O body has no recognised creation site')
        elif bad:
            ctx.bad(rule2, p, 'future doing socket I/O is created without a timeout in %s' % bad, ctx.where(P.B(p)), key='TIMEOUT:%s' % p)
        else:
            ctx.ok(rule2, p, '%d creation site(s), each is the future argument of tokio::time::timeout' % len(sites), ctx.where(P.B(p)))
    # the handshake messages are read off the framed transport: what it hands over is what THIS peer sent on THIS stream
    from .c05 import transport_rules as _tr04
    _tr04(ctx, 'C04.9-transport-discipline')
    socket_after_guard(ctx, 'C04.8-socket-after-state-guard')


def socket_after_guard(ctx, rule):
    """a new socket is installed only after the state machine has accepted the transition out of Disconnected"""
    P = ctx.P
    ctx.rule(rule, 'the connection stores a new socket in its transport only after the handshake state machine has accepted the step (a refusing guard - connect() on a connection that is already up - '
             'must leave the handshaken socket where it is: otherwise later sends pass the connected check and write distribution frames on a socket no handshake ran on)', floor=1)
    n = 0
    for q in sorted(ctx.F.bodies):
        if not q.startswith('edp_client::connection::') or '::tests::' in q:
            continue
        DB = P.B(q)
        inst = [bb for bb, t in DB.calls() if bb in DB.live_blocks() and (callee_of(t)[0] or '') == 'edp_client::transport::FramedTransport::connect']
        if not inst:
            continue
        guards = [bb for bb, t in DB.calls() if (callee_of(t)[0] or '').startswith('edp_client::state_machine::HandshakeStateMachine::') and 'Result' in DB.local_ty(t['dst']['l'])]
        for bb in inst:
            n += 1
            name = q.replace('edp_client::connection::', '').split('::{')[0]
            if any(g != bb and DB.block_dominates(g, bb) for g in guards):
                ctx.ok(rule, '%s:install' % name, 'the socket is stored after the state machine\'s guard', ctx.where(DB, bb))
            else:
                ctx.bad(rule, '%s:install' % name, '%s stores the new socket in the transport before (or without) asking the handshake state machine whether a connection may be started: '
                        'when the guard refuses, the established socket is already gone and the state still says connected' % name, ctx.where(DB, bb), key='ORDER:%s:socket-before-state-guard' % q.split('::{')[0])
    if n == 0:
        ctx.ok(rule, 'none', 'no function of the connection installs a socket')


def ctx_variant(B, op):
    o = B.origin(op)
    if o[0] == 'agg':
        return o[1].get('var')
    return None
