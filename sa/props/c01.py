"""C01 — encode/decode round trip preserves the Erlang value of every term.

Necessary conditions at the level of tags, layouts and sizes: the tag flow
variant -> emitted tags -> decoded variant is closed and class-preserving and
stable under re-encoding; writer and reader agree on every layout (and with the
format table); sizes the format cannot express are errors, never truncations.
"""
from ..core import callee_of, callee_names, is_call_to
from ..families import check_casts
from ..wire import fmt_sig
from ..etf import (load_spec, dispatch_table, DEC, ENC, OWNED, BORROWED, encoder_dispatch, writer_paths, tags_of, encoder_fns)

ATOMS_255 = ('`atoms` is collected from `atom_set`, whose size is checked by the dominating `atom_set.len() > 255 -> TooManyAtoms` return; '
             'an enumerate() index over it is < 255')
REVIEWED_CAST = {
    're:erltf::encoder::encode_with_dist_header_multi:len\\(next\\(.*\\)\\.as:Some\\.0\\.1\\.name\\)\\((usize|u16)->u8\\)':
        'taken only when `long_atoms` is false, i.e. no atom of the set is longer than 255 bytes (the `any(len > 255)` scan over the same vector)',
    're:erltf::encoder::encode_integer:.*map_or.*\\(usize->u8\\)':
        'significant_len is the number of significant bytes of an 8-byte array (1..=8 by construction: rposition over [u8; 8] plus one)',
    're:erltf::encoder::encode_integer:.*map_or.*\\(usize->u32\\)':
        'same value (<= 8); the LARGE_BIG branch is unreachable for it',
}


def reviewed_premises(ctx, rule):
    """The reviewed cast entries for encode_with_dist_header_multi rest on two facts about that function; they are
    re-established from the MIR on every run, so that an edit which voids a premise voids the review."""
    from ..ranges import canon
    from ..families import bodies_of_fn
    P = ctx.P
    W = ENC + 'encode_with_dist_header_multi'
    WB = P.B(W)
    if WB is None:
        return
    # premise 1: `atom_set.len() > 255` leads to an Err(TooManyAtoms) return
    ok1 = False
    for bb in sorted(WB.live_blocks()):
        sb = WB.switch_bool_edges(bb)
        if not sb or sb[0][0] != 'bin':
            continue
        rv = sb[0][2]
        if rv['op'] == 'Gt' and canon(WB, rv['b']) == ('const', 255) and 'len' in str(canon(WB, rv['a'])) and 'HashSet' in str(canon(WB, rv['a'])) + str(WB.origin(rv['a'])):
            reg = WB.reachable(sb[1])
            if any(s2['k'] == '=' and s2['rv']['k'] == 'agg' and s2['rv'].get('var') == 'TooManyAtoms' for x in reg for s2 in WB.blocks[x]['s']):
                ok1 = True
    if ok1:
        ctx.ok(rule, 'premise:atom-count<=255', '`atom_set.len() > 255` returns Err(TooManyAtoms) before any count or index is narrowed')
    else:
        ctx.bad(rule, 'premise:atom-count<=255', 'the guard `atom_set.len() > 255 -> Err(TooManyAtoms)` that the reviewed u8 casts of the atom count / positions rely on was not found',
                ctx.where(WB), key='PREMISE:%s:atom-count-guard' % W)
    # premise 3: significant_len in encode_integer is `rposition over the 8 bytes of u64::to_le_bytes` + 1, i.e. 1..=8
    EB = P.B(ENC + 'encode_integer')
    if EB is not None:
        ok3 = False
        for bb, t in EB.calls():
            if (callee_of(t)[0] or '').endswith('::map_or'):
                c = str(canon(EB, t['args'][0]))
                d = canon(EB, t['args'][1]) if len(t['args']) > 1 else None
                if 'rposition' in c and d == ('const', 1):
                    # the iterator rposition runs over comes from to_le_bytes of a u64 (8 bytes)
                    for b2, t2 in EB.calls():
                        if (callee_of(t2)[0] or '').endswith('::iter') and 'impl u64>::to_le_bytes' in str(canon(EB, t2['args'][0])) and \
                                any((callee_of(t3)[0] or '').endswith('::rposition') and str(canon(EB, t3['args'][0])).endswith("::iter', %d)" % b2) for _, t3 in EB.calls()):
                            ok3 = True
        if ok3:
            ctx.ok(rule, 'premise:significant_len<=8', 'significant_len = rposition(u64::to_le_bytes(..)) + 1 or 1: between 1 and 8')
        else:
            ctx.bad(rule, 'premise:significant_len<=8', 'the digit count written for a big integer is no longer `rposition over the 8 bytes of to_le_bytes` (+1): the reviewed casts of it to u8/u32 have lost their premise',
                    ctx.where(EB), key='PREMISE:%sencode_integer:significant-len' % ENC)
    # premise 2: long_atoms is `any(|a| a.name.len() > 255)` with len() the BYTE length of the name
    ok2, seen_any = False, False
    for CB in bodies_of_fn(P, W):
        if CB.b['kind'] != 'Closure':
            continue
        for bb, j, st in CB.stmts():
            if st['k'] == '=' and st['rv']['k'] == 'bin' and st['rv']['op'] == 'Gt' and canon(CB, st['rv']['b']) == ('const', 255):
                seen_any = True
                a = canon(CB, st['rv']['a'])
                if a[0] == 'len' and 'name' in str(a):
                    ok2 = True
    if ok2:
        ctx.ok(rule, 'premise:long_atoms-is-byte-length', 'long_atoms = any(|a| a.name.len() > 255): the one-byte length form is used only when every name is at most 255 bytes')
    else:
        ctx.bad(rule, 'premise:long_atoms-is-byte-length', 'the switch to two-byte atom lengths is not decided by the byte length of the names (`a.name.len() > 255`)%s: a name of more than 255 bytes '
                'can reach the one-byte length cast' % (' but by another measure' if seen_any else ''), ctx.where(WB), key='PREMISE:%s:long-atoms-byte-length' % W)


def run(ctx):
    P = ctx.P
    spec = load_spec()
    by_tag = {r['tag']: r for r in spec['tags']}
    classes = spec['classes']
    cls_of = {v: set(c) for c in classes for v in c}
    dec, Bd = dispatch_table(ctx, DEC + 'parse_term_from_tag', OWNED)
    disp = encoder_dispatch(ctx)
    if dec is None or disp is None:
        return
    variants = [v['n'] for v in ctx.F.adts[OWNED]['variants']]

    # ---------------- clause 1: tag flow ---------------------------------------------------------
    ctx.rule('C01.1-dispatch', 'every OwnedTerm variant is dispatched to an encoder', floor=17)
    ctx.rule('C01.1-tag-flow', 'every tag a variant can emit is decoded, into a variant of the same value class', floor=21)
    ctx.rule('C01.1-reencode-stable', 'the variant a tag decodes to can emit that tag again (decode-then-encode reproduces the tag)', floor=20)
    tags_by_variant = {}
    for v in variants:
        fn = disp.get(v)
        if not fn:
            ctx.bad('C01.1-dispatch', v, 'no encoder is called for this variant', key='TABLE:encode_term_impl:%s' % v)
            continue
        ctx.ok('C01.1-dispatch', v, '-> %s' % fn.rsplit('::', 1)[1])
        tags = tags_of(P, fn)
        tags_by_variant[v] = tags
        for t in sorted(tags):
            inst = '%s->%d' % (v, t)
            ent = dec.get(t)
            if ent is None or ent['error_arm']:
                ctx.bad('C01.1-tag-flow', inst, '%s is encoded with tag %d, which the decoder does not accept' % (v, t), key='FLOW:%s:tag-%d-not-decoded' % (v, t))
                continue
            if t in (82, 121, 80):
                # cache reference / node-local wrapper: decode to whatever they wrap (C14 / C10)
                ctx.ok('C01.1-tag-flow', inst, 'wrapper tag (resolved by C10/C14 rules)')
                continue
            dv = set(ent['variants'])
            cls = cls_of.get(v, {v})
            if dv and dv <= cls:
                ctx.ok('C01.1-tag-flow', inst, 'decodes to %s (class %s)' % (sorted(dv), sorted(cls)))
            elif not dv:
                ctx.undecided('C01.1-tag-flow', inst, 'decoded variant not recognised')
            else:
                ctx.bad('C01.1-tag-flow', inst, '%s is encoded with tag %d which decodes to %s: a different kind of Erlang value' % (v, t, sorted(dv)),
                        key='FLOW:%s:tag-%d-class' % (v, t))
    for v, tags in tags_by_variant.items():
        for t in sorted(tags):
            ent = dec.get(t)
            if ent is None or ent['error_arm'] or t in (82, 121, 80):
                continue
            for dv in ent['variants']:
                inst = '%d->%s' % (t, dv)
                if t in tags_by_variant.get(dv, set()):
                    ctx.ok('C01.1-reencode-stable', inst, '%s can emit %d' % (dv, t))
                else:
                    ctx.bad('C01.1-reencode-stable', inst, 'tag %d decodes to %s, which never emits tag %d: re-encoding cannot reproduce the bytes' % (t, dv, t),
                            key='FLOW:tag-%d-%s-unstable' % (t, dv))

    # ---------------- clause 2: layouts --------------------------------------------------------------
    ctx.rule('C01.2-writer-vs-reader', 'for every emitted tag the bytes written after the tag have the layout the decoder reads and the format prescribes (widths, order, which written count governs which repetition / byte run)', floor=20)
    seen = set()
    for fn in sorted(encoder_fns(ctx.F)):
        for pth in writer_paths(P, fn):
            t = pth['tag']
            if t is None or t in (131,) or (fn, t) in seen:
                continue
            seen.add((fn, t))
            r = by_tag.get(t)
            ent = dec.get(t)
            inst = '%s:%d' % (fn.rsplit('::', 1)[1], t)
            where = ctx.where(P.B(fn))
            if r is None:
                ctx.bad('C01.2-writer-vs-reader', inst, 'writes tag %d, which the format does not define' % t, where, key='WIRE:%s:tag-%d-undefined' % (fn, t))
                continue
            if t == 121:
                continue      # node-local replay: checked by C10.2
            rd = sorted(fmt_sig(s) for s in ent['sigs']) if ent else []
            problems = []
            if pth['layout'] != r['layout']:
                problems.append('format has `%s`' % r['layout'])
            if rd and pth['layout'] not in rd:
                problems.append('decoder reads `%s`' % ' | '.join(rd))
            if not problems:
                ctx.ok('C01.2-writer-vs-reader', inst, pth['layout'] or '(nothing)', where)
            else:
                ctx.bad('C01.2-writer-vs-reader', inst, 'writes `%s` after tag %d; %s' % (pth['layout'], t, '; '.join(problems)), where,
                        key='WIRE:%s:tag-%d-layout' % (fn, t))

    # ---------------- clause 2b: field order on the writer side --------------------------------------------
    ctx.rule('C01.2-field-order', 'same-width identifier fields are written in the order the decoder reads them into the constructor (id before serial before creation ...)', floor=4)
    import re
    for fn, ctor in ((ENC + 'encode_pid_impl', 'erltf::types::ExternalPid::new'), (ENC + 'encode_port_impl', 'erltf::types::ExternalPort::new'),
                     (ENC + 'encode_reference_impl', 'erltf::types::ExternalReference::new'), (ENC + 'encode_new_fun_ext_impl', 'erltf::types::InternalFun::new')):
        CB = P.B(ctor)
        if CB is None or P.B(fn) is None:
            continue
        params = [CB.local_name(i) for i in range(1, CB.b['argc'] + 1)]
        for pth in writer_paths(P, fn):
            if pth['tag'] in (None, 121):
                continue
            written = []
            for e in pth['raw'][1:]:
                if e[0] == 'w' and e[2] is not None and not isinstance(e[2], int) and 'len(' not in str(e[2]):
                    m = re.findall(r'\.([a-z_]+)', str(e[2]))
                    if m:
                        written.append(m[-1])
                elif e[0] == 'call' and e[2]:
                    m = re.findall(r'\.([a-z_]+)', str(e[2]))
                    if m:
                        written.append(m[-1])
            order = [w for w in written if w in params]
            want = [p_ for p_ in params if p_ in order]
            inst = '%s:%d' % (fn.rsplit('::', 1)[1], pth['tag'])
            # reference formats put the id count first and the ids last: compare only the fixed fields' relative order
            if order == want and len(order) >= 2:
                ctx.ok('C01.2-field-order', inst, 'fields written in constructor order %s' % order, ctx.where(P.B(fn)))
            elif len(order) < 2:
                ctx.undecided('C01.2-field-order', inst, 'written values not traced to fields: %s' % written)
            else:
                ctx.bad('C01.2-field-order', inst, 'fields are written in order %s, the decoder reads them as %s' % (order, want), ctx.where(P.B(fn)),
                        key='PROV:%s:field-order' % fn)

    # ---------------- atoms keep their text through interning ---------------------------------------------------------
    ctx.rule('C01.5-atom-interning', 'atoms are constructed and decoded through Atom::new, whose interning tables agree entry by entry (same atoms after a round trip)', floor=1)
    from ..etf import check_atom_tables
    check_atom_tables(ctx, 'C01.5-atom-interning')

    # ---------------- big-integer digits are little-endian everywhere -----------------------------------------------------
    ctx.rule('C01.7-bigint-digit-order', 'BigInt.digits holds the wire order (least significant byte first); every conversion between digits and machine integers - in the encoder, the decoder helpers, '
             'the comparison helpers, the serde layer and the Elixir wrappers - reads / writes them that way', floor=5)
    from ..families import check_bigint_endianness
    check_bigint_endianness(ctx, P, 'C01.7-bigint-digit-order')

    ctx.rule('C01.2-field-ranges', 'what the encoder may write the decoder accepts: fields with a restricted range are accepted for exactly the format\'s range (Bits of BIT_BINARY_EXT: 1..8)', floor=2)
    from ..etf import check_field_ranges
    check_field_ranges(ctx, 'C01.2-field-ranges')

    ctx.rule('C01.3-canonical-forms', 'encoding the decoded term again reproduces the same bytes: where the format has a short and a long form (atoms, tuples) the encoder uses the short form for everything that fits it', floor=2)
    from ..etf import check_canonical_forms
    check_canonical_forms(ctx, 'C01.3-canonical-forms')

    # ---------------- the order that keys decoded maps ------------------------------------------------------------------
    ctx.rule('C01.6-map-key-order', 'decoding collects map entries into a BTreeMap keyed by the term type (both decoders): "same key/value pairs" after a round trip needs an order under which two different keys '
             'never compare Equal - the comparator rules of C11/C12 re-run here', floor=60)
    from ..order import map_key_order_rules
    map_key_order_rules(ctx, 'C01.6-map-key-order')

    # ---------------- clause 3: sizes are errors, not truncations --------------------------------------
    ctx.rule('C01.3-no-truncation', 'every length/arity/count written with a narrower width in the encoder is range-guarded or try_from-ed', floor=8)
    for fn in sorted(p for p in ctx.F.bodies if p.startswith(ENC) and ctx.F.bodies[p]['kind'] in ('Fn', 'Closure')):
        check_casts(ctx, P.B(fn), 'C01.3-no-truncation', include_float=False, reviewed=REVIEWED_CAST)
    reviewed_premises(ctx, 'C01.3-no-truncation')

    # ---------------- clause 4: integers written as nested terms ----------------------------------------
    # A field written with encode_integer() is a nested term: beyond the i32 range it is a SMALL_BIG_EXT and the
    # generic term parser hands it back as BigInt. The parser of the enclosing layout must take it in that shape.
    ctx.rule('C01.4-nested-integers', 'an integer field the encoder writes as a nested term whose range exceeds 32 bits may come back as a big integer: '
             'the parser of that layout accepts the BigInt variant wherever it accepts Integer', floor=2)
    from ..ranges import Ranges
    from ..wire import error_blocks
    from ..families import bodies_of_fn
    I32 = (-(1 << 31), (1 << 31) - 1)
    dec_b, _ = dispatch_table(ctx, DEC + 'parse_term_borrowed', BORROWED)
    for fn in sorted(encoder_fns(ctx.F)):
        if fn in (ENC + 'encode_integer', ENC + 'encode_term_impl'):
            continue
        B = P.B(fn)
        wide = []
        R = None
        for bb, t in B.calls():
            if not is_call_to(t, ENC + 'encode_integer'):
                continue
            R = R or Ranges(B)
            rng = R.range_of(t['args'][1], bb)
            if rng[0] < I32[0] or rng[1] > I32[1]:
                wide.append((bb, rng))
        if not wide:
            continue
        for tag in sorted(tags_of(P, fn) - {82, 121, 80}):
            for tbl, adt, nm in ((dec, OWNED, 'owned'), (dec_b, BORROWED, 'borrowed')):
                ent = (tbl or {}).get(tag)
                if not ent or not ent.get('parser'):
                    continue
                inst = '%s:%d:%s' % (fn.rsplit('::', 1)[1], tag, nm)
                narrow = []
                n_sw = 0
                for PB in bodies_of_fn(P, ent['parser']):
                    err = error_blocks(PB)
                    vs = [v['n'] for v in ctx.F.adts[adt]['variants']]
                    for bb in sorted(PB.live_blocks()):
                        sd = PB.switch_on_discr(bb)
                        if not sd or adt not in sd[1]:
                            continue
                        acc = set()
                        for v, b in sd[2]:
                            reg = PB.reachable(b)
                            if PB.return_blocks() and any(r_ in reg for r_ in PB.return_blocks()) and \
                                    any(r_ in PB.reachable(b, removed_blocks=err) for r_ in PB.return_blocks()):
                                acc.add(vs[v])
                        if 'Integer' in acc:
                            n_sw += 1
                            if 'BigInt' not in acc:
                                narrow.append((PB, bb))
                if n_sw == 0:
                    ctx.undecided('C01.4-nested-integers', inst, 'the parser %s has no match on a nested integer term' % ent['parser'])
                elif narrow:
                    PB, bb = narrow[0]
                    ctx.bad('C01.4-nested-integers', inst, '%s writes %d field(s) with encode_integer whose range [%s, %s] exceeds 32 bits (encoded as SMALL_BIG_EXT from 2^31), '
                            'but %s accepts only the Integer variant of the nested term in %d place(s): such a value encodes and cannot be decoded'
                            % (fn.rsplit('::', 1)[1], len(wide), wide[0][1][0], wide[0][1][1], ent['parser'].rsplit('::', 1)[1], len(narrow)),
                            ctx.where(PB, narrow[0][1]), key='CLOSURE:%s:nested-integer-as-bigint' % ent['parser'])
                else:
                    ctx.ok('C01.4-nested-integers', inst, '%d nested integer match(es) in %s accept BigInt' % (n_sw, ent['parser'].rsplit('::', 1)[1]), ctx.where(PB))

    # the k-th value a parser reads lands in the field the encoder writes k-th
    from ..fieldorder import check_field_order
    ctx.rule('C01.2-field-order', 'for every structure built by a parser through its constructor (funs, exports, pids, ports, references): the constructor argument for field f derives from the wire read '
             'at the position where the encoder writes f; constructor parameter->field map from the constructor body, read positions from the parser\'s data flow, write order from the encoder\'s success paths', floor=10)
    n_fo = check_field_order(ctx, 'C01.2-field-order')
    ctx.anchor(n_fo >= 10, 'parsers that build a structure through erltf::types::*::new with an encoder for it')

    # NEW_FUN_EXT carries its own extent: Size must be taken when the whole fun has been written
    ctx.rule('C01.2-fun-size-covers-all', 'in the NEW_FUN_EXT encoder the buffer length that becomes the Size field is measured after the last byte of the fun has gone into that buffer: '
             'nothing is appended to the measured buffer (no put_*, no nested encoder call on it) once its length has been taken', floor=1)
    from ..wire import prim_of as _prim
    from ..ranges import canon as _cn
    FE = P.B(ENC + 'encode_new_fun_ext_impl')
    if ctx.anchor(FE is not None, ENC + 'encode_new_fun_ext_impl'):
        n_sz = 0
        encs_ = set(encoder_fns(ctx.F))
        for lb, lt in FE.calls():
            nm = callee_of(lt)[0] or ''
            if not (nm.endswith('::len') and lt['args'] and 'BytesMut' in str((lt.get('aty') or [''])[0])):
                continue
            d_ = FE.derived_locals([lt['dst']['l']])
            feeds = False
            for wb, wt in FE.calls():
                wn = callee_of(wt)[0] or ''
                if (wn.endswith('::put_u32') or wn.endswith('::to_be_bytes') or wn.endswith('TryFrom::try_from')) and any(l in d_ or l == lt['dst']['l'] for a in wt['args'] for l in FE._op_locals(a)):
                    feeds = True
            if not feeds:
                continue
            n_sz += 1
            measured = _cn(FE, lt['args'][0])
            later = FE.reachable(lb) - {lb}
            late = []
            for wb, wt in FE.calls():
                if wb not in later or not wt['args']:
                    continue
                pr = _prim(wt)
                is_w = pr is not None and pr[0] == 'w'
                is_enc = any(n in encs_ for n in callee_names(wt))
                if (is_w or is_enc) and _cn(FE, wt['args'][0]) == measured:
                    late.append((wb, (callee_of(wt)[0] or '').rsplit('::', 1)[-1]))
            if late:
                ctx.bad('C01.2-fun-size-covers-all', 'size', 'after the length that becomes Size has been taken, %s still appends to the same buffer: Size stops short of the end of the fun, and a reader that skips by Size lands inside it'
                        % late[0][1], ctx.where(FE, late[0][0]), key='WIRE:%sencode_new_fun_ext_impl:size-before-last-write' % ENC)
            else:
                ctx.ok('C01.2-fun-size-covers-all', 'size', 'nothing is appended to the measured buffer after its length is taken', ctx.where(FE, lb))
        ctx.anchor(n_sz >= 1, ENC + 'encode_new_fun_ext_impl: a buffer length feeding the Size field')

    # everything that was encoded reaches the writer
    ctx.rule('C01.1-writer-complete', 'the encoder hands its bytes to a std::io::Write with write_all: a single write() may accept only a prefix and its count is not looked at, so a "successful" encoding would be truncated', floor=0)
    n_w1 = 0
    for q in sorted(ctx.F.bodies):
        if not q.startswith(ENC):
            continue
        WB = P.B(q)
        for bb, t in WB.calls():
            nm = callee_of(t)[0] or ''
            if nm == 'std::io::Write::write' or nm.endswith('io::Write::write') or nm.endswith('io::Write::write_vectored'):
                n_w1 += 1
                ctx.bad('C01.1-writer-complete', q.rsplit('::', 1)[1], '%s passes the encoded bytes to Write::write, which may take only part of them, and does not look at the count returned' % q.rsplit('::', 1)[1],
                        ctx.where(WB, bb), key='WHO:%s:partial-write' % q)
    if n_w1 == 0:
        ctx.ok('C01.1-writer-complete', 'encoder', 'no partial write primitive in the encoder')

    # the bytes handed back are those written by this call
    ctx.rule('C01.1-own-buffer', 'every entry point that returns the encoding as Vec<u8> returns the contents of a buffer it created itself (BytesMut / Vec constructor in the same call): '
             'a buffer that outlives the call (a thread-local or pooled scratch buffer) can carry bytes of an earlier, failed call into this result', floor=2)
    CONV = {'to_vec', 'into', 'from', 'freeze', 'deref', 'deref_mut', 'as_ref', 'as_mut', 'to_owned', 'clone', 'borrow', 'borrow_mut', 'into_boxed_slice', 'into_vec', 'split', 'split_to', 'as_slice', 'to_bytes', 'index'}
    CTOR = {'with_capacity', 'new', 'default', 'zeroed'}
    for q in sorted(ctx.F.bodies):
        if not q.startswith(ENC) or ctx.F.bodies[q]['kind'] not in ('Fn',) or ctx.F.bodies[q].get('vis') != 'pub':
            continue
        EB = P.B(q)
        if 'Vec<u8>' not in EB.local_ty(0) or not EB.local_ty(0).startswith('core::result::Result<'):
            continue
        oks = [(bb, st) for bb, j, st in EB.stmts() if st['k'] == '=' and EB.is_ret_slot(st['pl']['l']) and st['rv']['k'] == 'agg' and st['rv'].get('var') == 'Ok' and bb in EB.live_blocks()]
        delegated = [bb for bb, t in EB.calls() if t['dst']['l'] in EB.ret_sources() and not t['dst'].get('p') and any(n.startswith(ENC) for n in callee_names(t))]
        if not oks and delegated:
            ctx.ok('C01.1-own-buffer', q.rsplit('::', 1)[1], 'hands on the result of another entry point', ctx.where(EB, delegated[0]))
            continue
        live = EB.live_blocks()
        if not oks:
            handed = [(bb, t) for bb, t in EB.calls() if bb in live and t['dst']['l'] in EB.ret_sources() and not t['dst'].get('p')
                      and not any(n.endswith('FromResidual::from_residual') for n in callee_names(t))]
            if handed and any('thread::local::LocalKey::<' in n_ for n_ in callee_names(handed[0][1])):
                # a buffer kept in a thread-local is as good as one of this call if the call empties it before it writes into it
                from .c20 import thread_local_buffer_sites as _tls
                found = list(_tls(ctx, only_parent=q))
                if found and not any(bad_ for _q, _n, _B, _s, bad_ in found):
                    ctx.ok('C01.1-own-buffer', q.rsplit('::', 1)[1], 'works in a thread-local buffer that it empties before it writes into it', ctx.where(EB, handed[0][0]))
                    continue
            if handed:
                ctx.bad('C01.1-own-buffer', q.rsplit('::', 1)[1], 'the bytes %s returns are the result of %s, not the contents of a buffer created by this call: whatever an earlier call left in a buffer that outlives the call '
                        'ends up in front of this encoding' % (q.rsplit('::', 1)[1], callee_of(handed[0][1])[0]), ctx.where(EB, handed[0][0]), key='PROV:%s:result-not-from-own-buffer' % q)
                continue
        if not ctx.anchor(bool(oks), q + ': Ok(bytes) return'):
            continue
        for bb, st in oks:
            todo, seen, ctor, foreign = [l for o in st['rv'].get('ops') or [] for l in EB._op_locals(o)], set(), None, None
            while todo and len(seen) < 48:
                l = todo.pop()
                if l in seen:
                    continue
                seen.add(l)
                ds = [d for d in EB.defs().get(l, []) if d[1] in live]
                if not ds and foreign is None:
                    foreign = ('parameter or captured variable %s' % EB.local_name(l), None)
                for d in ds:
                    if d[0] == 's':
                        rv = d[3]['rv']
                        if rv['k'] in ('use', 'cast') and rv.get('op', {}).get('k') in ('cp', 'mv'):
                            todo.append(rv['op']['pl']['l'])
                        elif rv['k'] in ('ref', 'rawptr'):
                            todo.append(rv['pl']['l'])
                        elif foreign is None:
                            foreign = ('a value of another kind', d[1])
                        continue
                    t = d[3] if len(d) > 3 else d[2]
                    nm = callee_of(t)[0] or ''
                    last = nm.rsplit('::', 1)[-1]
                    if last in CTOR and ('BytesMut' in nm or 'Vec' in nm or 'bytes_mut' in nm):
                        ctor = d[1]
                    elif last in CONV and t['args']:
                        todo.extend(EB._op_locals(t['args'][0]))
                    elif any(n.endswith('Try::branch') for n in callee_names(t)) and t['args']:
                        todo.extend(EB._op_locals(t['args'][0]))
                    elif foreign is None:
                        foreign = ('the result of %s' % nm, d[1])
            inst = q.rsplit('::', 1)[1]
            if ctor is not None and foreign is None:
                ctx.ok('C01.1-own-buffer', inst, 'the bytes returned come from a buffer constructed in this call', ctx.where(EB, ctor))
            else:
                ctx.bad('C01.1-own-buffer', inst, 'the bytes %s returns are not (only) the contents of a buffer created by this call: they come from %s - whatever an earlier call left in a buffer that outlives the call '
                        'ends up in front of this encoding' % (inst, foreign[0] if foreign else 'no buffer constructor'), ctx.where(EB, foreign[1] if foreign and foreign[1] is not None else bb),
                        key='PROV:%s:result-not-from-own-buffer' % q)

    # every element of a container is written by the encoder itself
    ctx.rule('C01.2-elements-written', 'in every loop of the encoder over the elements of a container (list, tuple, map pairs, free variables, reference words) each element - each component of a pair - is handed '
             'to an encoder function or to a buffer write on every way round the loop: an element written some other way (bytes of a neighbour that compares equal copied over) need not be the encoding of that element', floor=1)
    n_loops = 0
    for q in sorted(ctx.F.bodies):
        if not q.startswith(ENC + 'encode') or ctx.F.bodies[q]['kind'] != 'Fn':
            continue
        LB = P.B(q)
        live = LB.live_blocks()
        for nb, t in LB.calls():
            if nb not in live or not any(n.endswith('Iterator::next') for n in callee_names(t)) or t['dst'].get('p') or not isinstance(t.get('t'), int):
                continue
            ity = LB.local_ty(t['dst']['l'])
            if 'OwnedTerm' not in ity and '&u32' not in ity:
                continue
            sd = LB.switch_on_discr(t['t'])
            if not sd:
                continue
            some = [b_ for v_, b_ in sd[2] if v_ == 1]
            if not some:
                continue
            inner = ity[len('core::option::Option<'):-1]
            arity = 1
            if inner.startswith('(') and 'usize' not in inner:
                arity = inner.count('&erltf::term::OwnedTerm')
            n_loops += 1
            item = t['dst']['l']

            def aliases(seed):
                # the item itself under other names: copies, moves, reborrows, projections - nothing computed from it
                out = set(seed)
                for _ in range(6):
                    n0 = len(out)
                    for bb_, j_, st_ in LB.stmts():
                        if st_['k'] != '=' or st_['pl'].get('p'):
                            continue
                        rv_ = st_['rv']
                        if rv_['k'] == 'use' and rv_['op'].get('k') in ('cp', 'mv') and rv_['op']['pl']['l'] in out:
                            out.add(st_['pl']['l'])
                        elif rv_['k'] in ('ref', 'rawptr') and rv_['pl']['l'] in out:
                            out.add(st_['pl']['l'])
                    if len(out) == n0:
                        break
                return out
            comps = []
            if arity > 1:
                for i in range(arity):
                    ls = [st['pl']['l'] for bb, j, st in LB.stmts() if st['k'] == '=' and not st['pl'].get('p') and st['rv']['k'] == 'use' and st['rv']['op'].get('k') in ('cp', 'mv')
                          and st['rv']['op']['pl']['l'] == item and [e.get('f') for e in (st['rv']['op']['pl'].get('p') or []) if isinstance(e, dict) and 'f' in e][-1:] == [i]]
                    comps.append(('component %d' % i, aliases(ls) if ls else set()))
            else:
                comps.append(('item', aliases([item])))
            for cname, d in comps:
                sinks = set()
                for cb, ct in LB.calls():
                    nm = callee_of(ct)[0] or ''
                    if not (nm.startswith(ENC) or 'BufMut::put' in nm or '::put_' in nm or nm.endswith('::extend_from_slice')):
                        continue
                    if any(l in d for a, ty_ in zip(ct['args'], (ct.get('aty') or []) + [''] * len(ct['args'])) if 'BytesMut' not in ty_ and 'HashSet' not in ty_ for l in LB._op_locals(a)):
                        sinks.add(cb)
                inst = '%s:loop@bb%d:%s' % (q.rsplit('::', 1)[1], nb, cname) if False else '%s:%s:%s' % (q.rsplit('::', 1)[1], describe(LB, canon(LB, t['args'][0])) if False else 'loop%d' % n_loops, cname)
                if sinks and LB.all_paths_pass(some[0], sinks, to_blocks=[nb]):
                    ctx.ok('C01.2-elements-written', inst, 'every way round the loop passes the element to the encoder (%d call sites)' % len(sinks), ctx.where(LB, nb))
                else:
                    ctx.bad('C01.2-elements-written', inst, 'in %s there is a way round the element loop on which the %s is not handed to an encoder function or a buffer write: what goes on the wire for that element is not its own encoding'
                            % (q.rsplit('::', 1)[1], cname), ctx.where(LB, some[0]), key='DOM:%s:element-not-encoded' % q)
    if n_loops == 0:
        ctx.ok('C01.2-elements-written', 'none', 'no hand-written element loop in the encoder (the walks go through iterator adaptors whose closure is the only thing done per element)')

    # the text of an atom: UTF-8 tags are read as UTF-8
    ctx.rule('C01.2-utf8-atoms-as-utf8', 'the parsers of ATOM_UTF8_EXT (118) and SMALL_ATOM_UTF8_EXT (119), which is what the encoder writes for every atom, turn the bytes into text with a UTF-8 conversion on every successful path '
             '(a byte-per-character reading, right for the Latin-1 tags, gives another atom for every non-ASCII name)', floor=2)
    for tbl_, adt_, nm_ in ((dec, OWNED, 'owned'), (dec_b, BORROWED, 'borrowed')):
        for tag_ in (118, 119):
            ent_ = (tbl_ or {}).get(tag_)
            if not ent_ or not ent_.get('parser'):
                continue
            UB = P.B(ent_['parser'])
            utf8 = set(bb for bb, t_ in UB.calls() if any(n_.endswith('::from_utf8') or n_.endswith('::from_utf8_lossy') or n_.endswith('::from_utf8_unchecked') for n_ in callee_names(t_)))
            oks_ = set(bb for bb, j, st in UB.stmts() if st['k'] == '=' and st['rv']['k'] == 'agg' and st['rv'].get('var') == 'Ok' and str(st['rv'].get('adt')) == 'core::result::Result'
                       and (st['pl']['l'] == 0 or 0 in UB.derived_locals([st['pl']['l']])))
            inst_ = '%s:%d' % (nm_, tag_)
            if utf8 and oks_ and UB.all_paths_pass(0, utf8, oks_):
                ctx.ok('C01.2-utf8-atoms-as-utf8', inst_, 'every successful path converts with from_utf8', ctx.where(UB))
            elif not oks_:
                ctx.undecided('C01.2-utf8-atoms-as-utf8', inst_, 'no Ok(..) construction found in %s' % ent_['parser'])
            else:
                ctx.bad('C01.2-utf8-atoms-as-utf8', inst_, '%s has a successful path that never converts the bytes as UTF-8: a name with a multi-byte character decodes to a different atom than was encoded'
                        % ent_['parser'].rsplit('::', 1)[1], ctx.where(UB), key='SHAPE:%s:utf8-atom-not-read-as-utf8' % ent_['parser'])

    # every field of a variant that is not a collection reaches the wire on every successful path of its encoder.  The encoder of a variant is
    # looked at together with the dispatch arm that calls it (the callee is spliced into the arm and constant arguments - `Some(tail)`, `None` -
    # are threaded through its branches): a shortcut that is right for one caller of a shared encoder and wrong for the other shows here.
    ctx.rule('C01.2-variant-fields-written', 'for every OwnedTerm variant, each field that is not a collection (a tail, a bit count, an identifier, a number, an atom) is handed to a write or to a '
             'sub-encoder on every path of the dispatch arm + its encoder that ends in success; decided on the arm with its callee spliced in and constant arguments propagated', floor=8)
    from ..inline import inline_into as _inl01, fold_constant_switches as _fold01, thread_jumps as _thr01, split_webs as _webs01
    from ..core import B as _B01
    from ..wire import error_blocks as _errb01, prim_of as _prim01
    EB0 = P.B(ENC + 'encode_term_impl')
    if ctx.anchor(EB0 is not None, ENC + 'encode_term_impl'):
        callees = set()
        for bb, t in EB0.calls():
            for n in callee_names(t):
                if n.startswith(ENC) and n in ctx.F.bodies and n != EB0.path and ctx.F.bodies[n]['kind'] in ('Fn', 'AssocFn'):
                    callees.add(n)
        import copy as _copy01
        nb = _inl01(ctx.F, EB0.b, callees, (EB0.path,), 4, {})
        if nb is not EB0.b:
            nb = _webs01(_thr01(_fold01(nb), ctx.F.adts))
        NB = _B01(nb)
        NB.PROGRAM = P
        errs = _errb01(NB)
        rets = set(NB.return_blocks())
        sd0 = None
        for bb in sorted(NB.live_blocks()):
            sd_ = NB.switch_on_discr(bb)
            if sd_ and sd_[1].replace('&', '').split('<')[0] == OWNED:
                sd0 = sd_
                break
        vs_ = ctx.F.adts[OWNED]['variants']
        if ctx.anchor(sd0 is not None, ENC + 'encode_term_impl: match on the term'):
            for vi, start in sd0[2]:
                v = [x for x in vs_ if int(x['discr']) == vi]
                if not v:
                    continue
                v = v[0]
                region = NB.reachable(start)
                for k, f in enumerate(v['fields']):
                    ty = f['ty']
                    if any(x in ty for x in ('alloc::vec::Vec<', 'BTreeMap<', 'alloc::string::String')):
                        continue
                    # locals bound to this field in the arm
                    binds = []
                    for bb in sorted(region):
                        for st in NB.blocks[bb]['s']:
                            if st['k'] != '=' or st['rv']['k'] not in ('ref', 'use'):
                                continue
                            pl = st['rv']['pl'] if st['rv']['k'] == 'ref' else (st['rv']['op'].get('pl') if st['rv']['op'].get('k') in ('cp', 'mv') else None)
                            ps = (pl or {}).get('p') or []
                            for a_, b_ in zip(ps, ps[1:]):
                                if isinstance(a_, dict) and a_.get('dc') == v['n'] or isinstance(a_, dict) and 'dc' in a_ and str(a_.get('n')) == v['n']:
                                    if isinstance(b_, dict) and b_.get('f') == k and not st['pl'].get('p'):
                                        binds.append(st['pl']['l'])
                    inst = '%s.%s' % (v['n'], f['n'])
                    if not binds:
                        ctx.bad('C01.2-variant-fields-written', inst, 'the %s arm of the encoder never looks at the field `%s`: it cannot be on the wire' % (v['n'], f['n']), ctx.where(NB, start),
                                key='SHAPE:%sencode_term_impl:%s.%s:never-read' % (ENC, v['n'], f['n']))
                        continue
                    der = NB.derived_locals(binds)
                    uses = set()
                    for bb in region:
                        t = NB.blocks[bb]['t']
                        if t['k'] != 'call':
                            continue
                        nm = callee_of(t)[0] or ''
                        is_sink = (nm.startswith(ENC) or (_prim01(t) is not None and _prim01(t)[0] == 'w'))
                        if is_sink and any(a.get('k') in ('cp', 'mv') and a['pl']['l'] in der for a in t['args']):
                            uses.add(bb)
                    reach = NB.reachable(start, removed_blocks=uses | errs)
                    leak = sorted(r for r in rets if r in reach and start not in uses)
                    # a success return is one that is not an error block; returns are shared, so ask: can a return be reached without passing a use or an error block?
                    if leak:
                        ctx.bad('C01.2-variant-fields-written', inst, 'the encoder of %s has a successful path on which the field `%s` is never handed to a write or a sub-encoder '
                                '(for instance a shortcut for an empty collection taken before the field is written): the value is dropped from the encoding' % (v['n'], f['n']),
                                ctx.where(NB, start), key='SHAPE:%sencode_term_impl:%s.%s:dropped-on-a-path' % (ENC, v['n'], f['n']))
                    else:
                        ctx.ok('C01.2-variant-fields-written', inst, 'every successful path of the arm and its encoder passes a write / sub-encoder call fed from the field (%d such call(s))' % len(uses), ctx.where(NB, start))


_run_before_cache_rules = run


def run(ctx):
    _run_before_cache_rules(ctx)
    # decode(encode(x)) of a message with a distribution header resolves its ATOM_CACHE_REFs through the connection's cache: what earlier messages entered must be there unchanged (C14 rules re-run)
    from .c14 import cache_threading
    cache_threading(ctx, 'C01.9-cache-kept')
