"""C09 — fragment reassembly returns the original message once, in any arrival order.

Duplicate guard on the completion counter, consuming completion, per-sequence
keys, reachability of the expiry predicate from the receive path, traversal
order of the concatenation, PANIC over the assembler, transfer of buffered
continuations.
"""
from ..core import callee_of, callee_names, is_call_to, unwrap, receiver_root, root_fields, dominating_edges, fold
from ..ranges import Ranges, canon
from ..families import describe, check_panics, bodies_of_fn

FM = 'edp_client::fragmentation::FragmentedMessage'
FA = 'edp_client::fragmentation::FragmentAssembler'


REVIEWED = {
    'edp_client::fragmentation::FragmentAssembler::cleanup_expired:Sub(len(self.pending),len(self.pending))':
        '`before - self.pending.len()` around a HashMap::retain: retain only removes entries, so the second length never exceeds the first',
}


def field_assigns(B, adt, field):
    out = []
    for bb, j, st in B.stmts():
        if st['k'] != '=':
            continue
        ps = st['pl'].get('p') or []
        if ps and isinstance(ps[-1], dict) and ps[-1].get('n') == field and ps[-1].get('adt') == adt:
            out.append((bb, st))
    return out


def slot_guard(B, bb):
    """dominating 'slot is empty' condition: (idx canon) for is_some(false edge)/is_none(true edge) on fragments[idx]"""
    out = []
    for (src, vals, dst) in dominating_edges(B, bb):
        # `match self.fragments[idx] { None => .. }` / `if let None = ..`: the None edge of a discriminant switch
        sd = B.switch_on_discr(src)
        if sd and 'Option<' in sd[1]:
            none_t = [b_ for v_, b_ in sd[2] if v_ == 0]
            some_t = [b_ for v_, b_ in sd[2] if v_ == 1]
            is_none_edge = (none_t and dst == none_t[0]) or (not none_t and some_t and dst == sd[3] and dst != some_t[0])
            if is_none_edge:
                o = unwrap(B.origin_place(sd[0]))[0]
                if o is not None and o[0] == 'call' and o[1] and (o[1].endswith('::index') or o[1].endswith('::index_mut')):
                    it = B.blocks[o[2]]['t']
                    if 'fragments' in root_fields(B, it['args'][0]):
                        out.append(canon(B, it['args'][1]))
                # `match self.fragments.get_mut(idx) { Some(Some(_)) => dup, Some(slot) => store }`: the slot behind the Some of get / get_mut
                if o is not None and o[0] == 'call' and o[1] and (o[1].endswith('::get_mut') or o[1].endswith('::get')) and 'as:Some' in [str(x) for x in unwrap(B.origin_place(sd[0]))[1]]:
                    it = B.blocks[o[2]]['t']
                    if len(it['args']) > 1 and 'fragments' in root_fields(B, it['args'][0]):
                        out.append(canon(B, it['args'][1]))
            continue
        sb = B.switch_bool_edges(src)
        if not sb or sb[0][0] != 'call':
            continue
        ct = sb[0][2]
        nm = callee_of(ct)[0] or ''
        empty = None
        if nm.endswith('Option::<T>::is_some') and dst == sb[2]:
            empty = True
        if nm.endswith('Option::<T>::is_none') and dst == sb[1]:
            empty = True
        if not empty or not ct['args']:
            continue
        o = unwrap(B.origin(ct['args'][0]))[0]
        if o[0] == 'call' and o[1] and o[1].endswith('::index'):
            it = B.blocks[o[2]]['t']
            if 'fragments' in root_fields(B, it['args'][0]):
                out.append(canon(B, it['args'][1]))
    return out


def slot_writes(B):
    """(bb, idx canon) for `self.fragments[idx] = Some(..)`"""
    out = []
    for bb, j, st in B.stmts():
        if st['k'] != '=' or not (st['pl'].get('p') or []):
            continue
        d = B.single_def(st['pl']['l'])
        if d and d[0] == 't' and (callee_of(d[3])[0] or '').endswith('IndexMut::index_mut'):
            it = d[3]
            if 'fragments' in root_fields(B, it['args'][0]):
                v = B.origin({'k': 'cp', 'pl': {'l': 0}}) if False else None
                rv = st['rv']
                a = rv if rv['k'] == 'agg' else (B.origin(rv['op'])[1] if rv['k'] == 'use' and B.origin(rv['op'])[0] == 'agg' else None)
                if a is not None and a.get('var') == 'Some':
                    out.append((bb, canon(B, it['args'][1])))
        elif st['pl'].get('p') == ['*']:
            # `*slot = Some(data)` with slot the &mut handed out by fragments.get_mut(idx)
            ob, op_ = unwrap(B.origin({'k': 'cp', 'pl': {'l': st['pl']['l']}}))
            if ob is not None and ob[0] == 'call' and str(ob[1]).endswith('::get_mut') and 'as:Some' in [str(x) for x in op_]:
                it = B.blocks[ob[2]]['t']
                if len(it['args']) > 1 and 'fragments' in root_fields(B, it['args'][0]):
                    rv = st['rv']
                    a = rv if rv['k'] == 'agg' else (B.origin(rv['op'])[1] if rv['k'] == 'use' and B.origin(rv['op'])[0] == 'agg' else None)
                    if a is not None and a.get('var') == 'Some':
                        out.append((bb, canon(B, it['args'][1])))
    return out


def _is_increment(B, st):
    """x = x + 1 (checked add lowered to a tuple field)"""
    rv = st['rv']
    if rv['k'] != 'use':
        return False
    o = B.origin(rv['op'])
    txt = str(o)
    return 'Add' in txt


def run(ctx):
    P = ctx.P
    # ---------------- clause 1: duplicates never count ---------------------------------------
    ctx.rule('C09.1-count-once', 'every received_count += 1 happens under the "slot is empty" test of the same slot that is being filled; is_complete compares exactly received_count with the total', floor=3)
    incs = 0
    for fn in ('add_fragment', 'set_total_fragments'):
        B = ctx.body(FM + '::' + fn)
        if B is None:
            continue
        writes = slot_writes(B)
        for bb, st in field_assigns(B, FM, 'received_count'):
            incs += 1
            o = B.origin(st['rv']['op']) if st['rv']['k'] == 'use' else ('unknown',)
            guards = slot_guard(B, bb)
            w_here = [idx for wb, idx in writes if B.block_dominates(wb, bb) or B.block_dominates(bb, wb)]
            inst = '%s:received_count+=1' % fn
            if guards and any(g in w_here for g in guards):
                ctx.ok('C09.1-count-once', inst, 'increment and slot write are both under the is-empty test of fragments[%s]' % describe(B, guards[0]), ctx.where(B, bb))
            elif not guards:
                ctx.bad('C09.1-count-once', inst, 'received_count is incremented without a dominating "slot is empty" test: a duplicate fragment is counted again and the message completes early (or never)',
                        ctx.where(B, bb), key='DOM:%s::%s:count-without-empty-test' % (FM, fn))
            else:
                ctx.bad('C09.1-count-once', inst, 'the empty test is on slot %s but the slot written is %s' % ([describe(B, g) for g in guards], [describe(B, w) for w in w_here]),
                        ctx.where(B, bb), key='DOM:%s::%s:count-different-slot' % (FM, fn))
    ctx.anchor(incs >= 2, FM + ':received_count increments')
    # is_complete
    okc = False
    for B in bodies_of_fn(P, FM + '::is_complete'):
        for bb, j, st in B.stmts():
            if st['k'] == '=' and st['rv']['k'] == 'bin' and st['rv']['op'] == 'Eq':
                a = str(canon(B, st['rv']['a'])) + str(canon(B, st['rv']['b']))
                if 'received_count' in a and ('FragmentCount::get' in a or 'total' in a or 'count' in a):
                    okc = True
    if okc:
        ctx.ok('C09.1-count-once', 'is_complete', 'received_count == total.get()')
    else:
        ctx.bad('C09.1-count-once', 'is_complete', 'is_complete does not compare received_count with the total for equality', key='SHAPE:%s::is_complete' % FM)

    # ---------------- clause 2/3: completion consumes the entry; keys are the call's own sequence id ----------
    ctx.rule('C09.2-completion-consumes', 'a completed message handed to reassemble was removed from `pending` (or never inserted); reassemble takes the message by value', floor=2)
    ctx.rule('C09.3-own-key', 'every access to `pending` in start_fragment/add_fragment is keyed by the call\'s own sequence id', floor=2)
    sig = ctx.F.fns.get(FM + '::reassemble')
    if ctx.anchor(sig is not None, FM + '::reassemble'):
        if sig['inputs'] and sig['inputs'][0] == FM:
            ctx.ok('C09.2-completion-consumes', 'reassemble:by-value', 'reassemble(self) consumes the message')
        else:
            ctx.bad('C09.2-completion-consumes', 'reassemble:by-value', 'reassemble takes %s: a completed message can stay in the map and be returned again' % sig['inputs'][:1],
                    key='TYPE:%s::reassemble:not-by-value' % FM)
    for fn in ('start_fragment', 'add_fragment'):
        B = ctx.body(FA + '::' + fn)
        if B is None:
            continue
        seq = None
        for bb, t in B.calls():
            if callee_of(t)[0] == 'core::convert::Into::into' and t['args'] and B.origin(t['args'][0]) == ('arg', 2, ()):
                seq = ('call', bb)
        ctx.anchor(seq is not None, FA + '::' + fn + ':sequence_id')
        for bb, t in B.calls():
            names = callee_names(t)
            via_item = any(a['k'] == 'c' and a.get('fn') == FM + '::reassemble' for a in t['args'])
            if is_call_to(t, FM + '::reassemble') or via_item:
                # direct call, or `pending.remove(&id).and_then(FragmentedMessage::reassemble)`
                base, projs = unwrap(B.origin(t['args'][0]))
                src = None
                if base[0] == 'call' and base[1] and base[1].endswith('HashMap::<K, V, S, A>::remove'):
                    src = 'pending.remove'
                elif base[0] == 'call' and base[1] and 'OccupiedEntry' in base[1] and base[1].rsplit('::', 1)[1] in ('remove', 'remove_entry'):
                    # entry API: `match pending.entry(id) { Occupied(e) => e.remove() .. }` takes the message out as well
                    eo = unwrap(B.origin(B.blocks[base[2]]['t']['args'][0]))[0]
                    if eo[0] == 'call' and eo[1] and eo[1].endswith('::entry') and 'HashMap' in eo[1] and 'pending' in root_fields(B, B.blocks[eo[2]]['t']['args'][0]):
                        src = 'pending.remove'
                elif base[0] == 'call' and base[1] == FM + '::new':
                    # fresh message: must not also have been inserted on this path
                    src = 'fresh'
                inst = '%s:reassemble(%s)' % (fn, src or '?')
                if src == 'pending.remove':
                    ctx.ok('C09.2-completion-consumes', inst, 'message taken out of `pending` by remove()', ctx.where(B, bb))
                elif src == 'fresh':
                    ctx.ok('C09.2-completion-consumes', inst, 'message built in this call and never inserted (moved into reassemble)', ctx.where(B, bb))
                else:
                    ctx.bad('C09.2-completion-consumes', inst, 'reassembled message does not come from pending.remove or a fresh message: %s' % (base[:2],), ctx.where(B, bb),
                            key='PAIR:%s::%s:reassemble-source' % (FA, fn))
            if any('HashMap' in n and n.rsplit('::', 1)[1] in ('get_mut', 'get', 'remove', 'insert', 'entry', 'contains_key') for n in names) and t['args']:
                if 'pending' not in root_fields(B, t['args'][0]):
                    continue
                ko = unwrap(B.origin(t['args'][1]))[0]
                m = [n for n in names if 'HashMap' in n][0].rsplit('::', 1)[1]
                inst = '%s:pending.%s' % (fn, m)
                if ko == ('arg', 2, ()) or (seq is not None and ko[0] == 'call' and ko[2] == seq[1]):
                    ctx.ok('C09.3-own-key', inst, 'keyed by sequence_id.into()', ctx.where(B, bb))
                else:
                    ctx.bad('C09.3-own-key', inst, 'pending.%s is keyed by %s, not by the call\'s own sequence id' % (m, ko[:3]), ctx.where(B, bb),
                            key='PROV:%s::%s:pending.%s:key' % (FA, fn, m))

    # ---------------- clause 4: expiry consulted on the receive path -------------------------------------
    ctx.rule('C09.4-expiry-reachable', 'the expiry predicate (reads of last_update / fragment_timeout) is reachable from the connection\'s receive entry point; otherwise expired sequences are held forever', floor=1)
    readers = set()
    for B in P.all('edp_client'):
        for bb, j, st in B.stmts():
            if st['k'] != '=':
                continue
            for pl in _rv_places(st['rv']):
                ps = pl.get('p') or []
                for e in ps:
                    if isinstance(e, dict) and e.get('n') in ('last_update', 'fragment_timeout') and e.get('adt') in (FM, FA):
                        readers.add(B.path)
        for bb, t in B.calls():
            for a in t['args']:
                if a['k'] in ('cp', 'mv'):
                    for e in a['pl'].get('p') or []:
                        if isinstance(e, dict) and e.get('n') in ('last_update', 'fragment_timeout') and e.get('adt') in (FM, FA):
                            readers.add(B.path)
    readers = {r for r in readers if not r.endswith('::new') and not r.endswith('::with_timeout') and '::add_fragment' not in r}
    ctx.anchor(len(readers) >= 1, 'readers of last_update / fragment_timeout')
    entry = ['edp_client::connection::Connection::receive_message', 'edp_client::connection::Connection::receive_message::{closure#0}']
    reach = P.reachable_from(entry)
    hit = sorted(r for r in readers if r in reach)
    if hit:
        ctx.ok('C09.4-expiry-reachable', 'receive_message', 'expiry is consulted via %s' % hit[0])
    else:
        ctx.bad('C09.4-expiry-reachable', 'receive_message', 'nothing reachable from Connection::receive_message reads last_update / fragment_timeout (readers: %s): incomplete sequences are never dropped' % sorted(readers),
                key='WHO:expiry-unreachable-from-receive')

    # ---------------- clause 5: concatenation order ------------------------------------------------------------
    ctx.rule('C09.5-concat-order', 'with slot index = fragment id - 1, the protocol order (first fragment = highest id, then counting down) requires concatenating slots in descending index order', floor=1)
    B = ctx.body(FM + '::reassemble')
    Ba = ctx.P.B(FM + '::add_fragment')
    if B is not None and Ba is not None:
        # slot map direction from add_fragment: idx = Sub(fragment_id, const)
        direction = None
        for wb, idx in slot_writes(Ba):
            s = str(idx)
            if "'Sub'" in s or "Sub" in s:
                direction = 'increasing'
        iters = [n for bb, t in B.calls() for n in callee_names(t)]
        has_rev = any(n.endswith('::rev') or n.endswith('DoubleEndedIterator::next_back') or n.endswith('::rfold') or n.endswith('::rev_iter') for n in iters)
        feeds = any(n.endswith('extend_from_slice') or n.endswith('Extend::extend') or n.endswith('::append') for n in iters)
        walks = any(n.endswith('IntoIterator::into_iter') or n.endswith('::iter') or n.endswith('Iterator::next') for n in iters)
        if direction is None or not feeds or not walks:
            ctx.undecided('C09.5-concat-order', 'reassemble', 'slot map or traversal shape not recognised')
        elif has_rev:
            ctx.ok('C09.5-concat-order', 'reassemble', 'slots (index = id - 1) are traversed in reverse: descending id = sending order', ctx.where(B))
        else:
            ctx.bad('C09.5-concat-order', 'reassemble', 'slots (index = id - 1) are concatenated in ascending index = ascending id order; the protocol sends the first part in the fragment with the HIGHEST id, so a real multi-fragment message is reassembled back to front',
                    ctx.where(B), key='SHAPE:%s::reassemble:ascending-id-order' % FM)

    # ---------------- clause 6: PANIC over the assembler ----------------------------------------------------------
    ctx.rule('C09.6-no-panic', 'no panic-capable site in the fragment assembler is reachable undischarged (indexing, arithmetic, unwrap)', floor=8)
    for p in sorted(ctx.F.bodies):
        if p.startswith('edp_client::fragmentation::') and ctx.F.bodies[p]['kind'] in ('Fn', 'AssocFn', 'Closure'):
            check_panics(ctx, P.B(p), 'C09.6-no-panic', reviewed=REVIEWED)

    # premise of the reviewed `before - after` in cleanup_expired: between the two len() only retain touches the map
    CE = P.B(FA + '::cleanup_expired')
    if CE is not None:
        ops = [(callee_of(t)[0] or '').rsplit('::', 1)[-1] for bb, t in CE.calls() if t['args'] and 'pending' in root_fields(CE, t['args'][0])]
        if set(ops) <= {'len', 'retain', 'is_empty', 'iter', 'values', 'keys'}:
            ctx.ok('C09.6-no-panic', 'premise:cleanup_expired', 'between the two len() calls the map is only shrunk (operations on pending: %s)' % ops)
        else:
            ctx.bad('C09.6-no-panic', 'premise:cleanup_expired', 'cleanup_expired also performs %s on `pending`: `before - after` may underflow' % sorted(set(ops) - {'len', 'retain'}), ctx.where(CE),
                    key='PREMISE:%s::cleanup_expired:only-shrinks' % FA)

    # ---------------- clause 7: buffered continuations are transferred ------------------------------------------------
    ctx.rule('C09.7-transfer-buffered', 'when the total becomes known the buffered continuations are moved into their slots (same range and duplicate guards)', floor=1)
    B = ctx.body(FM + '::set_total_fragments')
    if B is not None:
        drains = [(bb, t) for bb, t in B.calls() if any(n.endswith('::drain') or n.endswith('::into_iter') or n.endswith('::iter') or n.endswith('::remove')
                                                         for n in callee_names(t)) and t['args'] and 'pending_fragments' in root_fields(B, t['args'][0])]
        writes = slot_writes(B)
        good = False
        for wb, idx in writes:
            # the stored data derives from the drained entries
            for db, dt in drains:
                d = B.derived_locals([dt['dst']['l']])
                st = [s_ for s_ in B.blocks[wb]['s'] if s_['k'] == '=' and (s_['pl'].get('p') or [])]
                for s_ in st:
                    if any(l in d for l in B._rv_locals(s_['rv'])):
                        good = True
        if drains and good:
            ctx.ok('C09.7-transfer-buffered', 'set_total_fragments', 'pending_fragments drained into the slot vector', ctx.where(B))
        else:
            ctx.bad('C09.7-transfer-buffered', 'set_total_fragments', 'buffered continuations are not transferred into the slots (drains=%d): a sequence whose continuation arrived before the header never completes' % len(drains),
                    ctx.where(B), key='PROV:%s::set_total_fragments:no-transfer' % FM)


    # adding a fragment of one sequence never discards other sequences (except by expiry)
    ctx.rule('C09.3-no-bulk-discard', 'nothing reachable from the receive path (Connection::receive_message) or from start_fragment / add_fragment empties or bulk-filters `pending` other than the expiry sweep (retain on last_update/timeout in cleanup_expired): '
             'a cap that clears the backlog silently loses every incomplete message of a conforming peer', floor=1)
    roots_ = [q for q in ctx.F.bodies if q.split('::{')[0] in (FA + '::start_fragment', FA + '::add_fragment', 'edp_client::connection::Connection::receive_message')]
    ctx.anchor(any(q.startswith('edp_client::connection::Connection::receive_message') for q in roots_), 'Connection::receive_message (the receive path holds the assembler)')
    reach_ = sorted(q for q in P.reachable_from(roots_) if q.startswith('edp_client::fragmentation::') or q.startswith('edp_client::connection::'))
    nb = 0
    for q in reach_:
        QB = P.B(q)
        for bb, t in QB.calls():
            if not t['args'] or 'pending' not in root_fields(QB, t['args'][0]):
                continue
            if q.startswith('edp_client::connection::') and 'fragment_assembler' not in root_fields(QB, t['args'][0]):
                continue
            m = (callee_of(t)[0] or '').rsplit('::', 1)[-1]
            if m not in ('clear', 'drain', 'retain', 'extract_if', 'split_off', 'shrink_to', 'truncate'):
                continue
            nb += 1
            inst = '%s:pending.%s' % (q.rsplit('::', 1)[1], m)
            if m == 'retain' and q.split('::{')[0] == FA + '::cleanup_expired':
                ctx.ok('C09.3-no-bulk-discard', inst, 'the expiry sweep', ctx.where(QB, bb))
            else:
                ctx.bad('C09.3-no-bulk-discard', inst, 'pending.%s() is reachable from the receive path / start_fragment / add_fragment (in %s): fragments of OTHER sequences that are still incomplete and unexpired are thrown away, their messages are never delivered'
                        % (m, q.rsplit('::', 1)[1]), ctx.where(QB, bb), key='WHO:%s:pending.%s' % (q.split('::{')[0], m))
    if nb == 0:
        ctx.ok('C09.3-no-bulk-discard', 'reachable-code', 'no bulk removal on `pending` reachable from the two entry points (%d functions scanned)' % len(reach_))

    # the header's atom-cache section reaches the message whichever fragment arrived first
    SB = P.B(FA + '::start_fragment')
    ctx.rule('C09.7-header-data-kept', 'start_fragment stores the header\'s atom_cache_data in the message on both ways in (new sequence, or header after buffered continuations): '
             'otherwise the reassembled bytes depend on the arrival order', floor=1)
    if ctx.anchor(SB is not None, FA + '::start_fragment'):
        ac = [i for i in range(1, SB.b['argc'] + 1) if SB.local_name(i) == 'atom_cache_data']
        if ctx.anchor(bool(ac), FA + '::start_fragment: atom_cache_data parameter'):
            d = SB.derived_locals(ac) | set(ac)
            sinks = []
            for bb, t in SB.calls():
                if is_call_to(t, FM + '::new') and any(l in d for a in t['args'] for l in SB._op_locals(a)):
                    sinks.append(bb)
            for bb, st in field_assigns(SB, FM, 'atom_cache_data'):
                if any(l in d for l in SB._rv_locals(st['rv'])):
                    sinks.append(bb)
            adds = [(bb, t) for bb, t in SB.calls() if is_call_to(t, FM + '::add_fragment')]
            ctx.anchor(len(adds) >= 1, FA + '::start_fragment: add_fragment of the header payload')
            k = 0
            for bb, t in adds:
                k += 1
                inst = 'start_fragment:add#%d' % k
                if sinks and SB.all_paths_pass(0, sinks, to_blocks=[bb]):
                    ctx.ok('C09.7-header-data-kept', inst, 'the message the header payload is added to has received atom_cache_data before', ctx.where(SB, bb))
                else:
                    ctx.bad('C09.7-header-data-kept', inst, 'on this way into start_fragment the header\'s atom_cache_data never reaches the message (no FragmentedMessage::new(.., atom_cache_data) and no `msg.atom_cache_data = ..` before the payload is added): '
                            'a header that arrives after one of its continuations loses its atom-cache section', ctx.where(SB, bb), key='PROV:%s::start_fragment:atom_cache_data-dropped' % FA)

    # ... and only the header writes it: a continuation carries no atom-cache section and must leave the stored one alone
    AFB = P.B(FA + '::add_fragment')
    if AFB is not None:
        wr = [(bb, st) for bb, st in field_assigns(AFB, FM, 'atom_cache_data') if bb in AFB.live_blocks()]
        if wr:
            ctx.bad('C09.7-header-data-kept', 'add_fragment:atom_cache_data', 'the continuation entry point assigns atom_cache_data of the pending message: the section the header brought is overwritten (with nothing) by the next '
                    'continuation, and the reassembled bytes lack it', ctx.where(AFB, wr[0][0]), key='PROV:%s::add_fragment:atom_cache_data-overwritten' % FA)
        else:
            ctx.ok('C09.7-header-data-kept', 'add_fragment:atom_cache_data', 'the continuation entry point never assigns atom_cache_data', ctx.where(AFB))

    # what "expired" means: strictly more time than the timeout has passed since the last fragment; never "expired by default"
    ctx.rule('C09.4-expiry-predicate', 'is_expired compares the time since the last update with the timeout (elapsed > timeout, or now > last_update + timeout); where the deadline cannot be computed '
             '(an overflowing "never" timeout) the answer is "not expired", not "expired"', floor=1)
    for XB in bodies_of_fn(P, FM + '::is_expired'):
        if XB.b['kind'] == 'Closure':
            continue
        all_bodies = bodies_of_fn(P, FM + '::is_expired')
        calls = [(B_, bb, t) for B_ in all_bodies for bb, t in B_.calls()]
        names = [(callee_of(t)[0] or '').rsplit('::', 1)[-1] for _, _, t in calls]
        defaults_true = []
        for B_, bb, t in calls:
            nm = (callee_of(t)[0] or '').rsplit('::', 1)[-1]
            if nm in ('unwrap_or', 'map_or', 'is_none_or', 'unwrap_or_else', 'map_or_else') and len(t['args']) > 1:
                v = fold(B_.origin(t['args'][1]))
                if v in (1, True):
                    defaults_true.append((B_, bb, nm))
            if nm == 'is_none_or':
                defaults_true.append((B_, bb, nm))
        direct = 'elapsed' in names and any(n in ('gt', 'ge') for n in names)
        if defaults_true:
            B_, bb, nm = defaults_true[0]
            ctx.bad('C09.4-expiry-predicate', 'is_expired', 'when the deadline cannot be computed (%s with the default `true`) the sequence counts as expired: with an overflowing timeout ("never expire") every incomplete sequence is dropped by the next sweep'
                    % nm, ctx.where(B_, bb), key='SHAPE:%s::is_expired:expired-by-default' % FM)
        elif direct and 'ge' not in names:
            ctx.ok('C09.4-expiry-predicate', 'is_expired', 'last_update.elapsed() > timeout', ctx.where(XB))
        elif any(n in ('checked_add', 'checked_duration_since', 'saturating_duration_since', 'duration_since', 'elapsed') for n in names):
            ctx.ok('C09.4-expiry-predicate', 'is_expired', 'deadline comparison with a "not expired" default (%s)' % sorted(set(names))[:6], ctx.where(XB))
        else:
            ctx.undecided('C09.4-expiry-predicate', 'is_expired', 'shape not recognised: %s' % sorted(set(names))[:8])

    # every way of constructing an assembler gives it a usable expiry time
    ctx.rule('C09.4-timeout-initialised', 'every constructor of FragmentAssembler (new, with_timeout, Default) sets fragment_timeout to the default constant or to the caller\'s value: '
             'a derived Default would make it Duration::ZERO, and the sweep the connection runs on every frame would drop each sequence before its second fragment', floor=2)
    dflt = [i for i in ctx.F.impls if i['self'] == FA and (i.get('trait') or '') == 'core::default::Default']
    if dflt and dflt[0].get('derived'):
        ctx.bad('C09.4-timeout-initialised', 'Default', 'Default for FragmentAssembler is derived: fragment_timeout is Duration::ZERO for FragmentAssembler::default(), so cleanup_expired() discards every incomplete sequence at once and the '
                'message is never returned', key='CONST:%s:default-zero-timeout' % FA)
    ctors = [q for q in ctx.F.bodies if q.split('::{')[0] in (FA + '::new', FA + '::with_timeout', '<%s as core::default::Default>::default' % FA)]
    for q in sorted(ctors):
        QB = P.B(q)
        lits = [st for bb, j, st in QB.stmts() if st['k'] == '=' and st['rv']['k'] == 'agg' and st['rv'].get('adt') == FA]
        delegates = any(is_call_to(t, FA + '::new') or is_call_to(t, FA + '::with_timeout') for bb, t in QB.calls())
        inst = q.rsplit('::', 1)[1] if not q.startswith('<') else 'Default::default'
        if lits:
            rv = lits[0]['rv']
            op = rv['ops'][rv['fn'].index('fragment_timeout')] if 'fragment_timeout' in rv.get('fn', []) else None
            good = op is not None and ((op['k'] == 'c' and 'DEFAULT_FRAGMENT_TIMEOUT' in str(op.get('item', op.get('d', '')))) or (op['k'] in ('cp', 'mv') and QB.origin(op)[0] == 'arg'))
            if good:
                ctx.ok('C09.4-timeout-initialised', inst, 'fragment_timeout = %s' % ('DEFAULT_FRAGMENT_TIMEOUT' if op['k'] == 'c' else 'the caller\'s value'), ctx.where(QB))
            else:
                ctx.bad('C09.4-timeout-initialised', inst, 'fragment_timeout is not initialised from DEFAULT_FRAGMENT_TIMEOUT or the caller\'s value', ctx.where(QB), key='CONST:%s:%s:timeout' % (FA, inst))
        elif delegates:
            ctx.ok('C09.4-timeout-initialised', inst, 'delegates to new() / with_timeout()', ctx.where(QB))
        else:
            ctx.undecided('C09.4-timeout-initialised', inst, 'construction not recognised')

    # ---------------- clause 8: sequence ids stay distinct, content never decides ---------------------------------------
    ctx.rule('C09.8-key-lossless', 'the conversions that turn the wire sequence id into the key of the pending map (SequenceId::new / From<u64> / value and whatever the assembler entry points '
             'call in edp_client::types) contain no narrowing cast: two different ids never share an entry', floor=2)
    from ..families import check_casts
    roots = [FA + '::start_fragment', FA + '::add_fragment']
    scope = sorted(q for q in ctx.F.bodies if q.startswith('edp_client::types::') and ('SequenceId' in q) and ctx.F.bodies[q]['kind'] in ('Fn', 'AssocFn'))
    scope += sorted(q for q in P.reachable_from([r for r in roots if r in ctx.F.bodies]) if q.startswith('edp_client::types::') and q not in scope)
    ctx.anchor(len(scope) >= 2, 'SequenceId conversion functions')
    for q in scope:
        QB = P.B(q)
        before = len(ctx.records)
        n_c = check_casts(ctx, QB, 'C09.8-key-lossless', include_float=False)
        if len(ctx.records) == before:
            ctx.ok('C09.8-key-lossless', q, 'no narrowing cast', ctx.where(QB))
    from ..families import check_newtype_verbatim
    check_newtype_verbatim(ctx, P, 'C09.8-key-lossless', ['edp_client::types::SequenceId'])
    ctx.rule('C09.8-content-blind', 'whether a fragment is stored and counted depends on its ids and on what was received before, never on its bytes: '
             'no branch of the assembler\'s add/start functions tests the payload (an empty piece is a legal fragment)', floor=3)
    for q, data_args in ((FM + '::add_fragment', ('data',)), (FA + '::add_fragment', ('payload',)), (FA + '::start_fragment', ('payload',))):
        QB = P.B(q)
        if QB is None:
            continue
        dl = [i for i in range(1, QB.b['argc'] + 1) if QB.local_name(i) in data_args]
        if not ctx.anchor(bool(dl), q + ':payload parameter'):
            continue
        d = QB.derived_locals(dl) | set(dl)
        offending = None
        for bb in sorted(QB.live_blocks()):
            t = QB.blocks[bb]['t']
            if t['k'] != 'switch':
                continue
            src = None
            if t['dty'] == 'bool':
                sb = QB.switch_bool_edges(bb)
                if sb and sb[0][0] == 'call':
                    src = [l for a in sb[0][2]['args'] for l in QB._op_locals(a)]
                elif sb and sb[0][0] == 'bin':
                    src = QB._op_locals(sb[0][2]['a']) + QB._op_locals(sb[0][2]['b'])
            else:
                src = QB._op_locals(t['d'])
            # the payload itself or something computed from it (a reference to it, its len / is_empty, its first byte);
            # `self` is excluded: storing the payload into a slot makes self depend on it, and tests of self are about what was received before
            dd = d - {1}
            if src and any(l in dd for l in src):
                offending = bb
        inst = q.rsplit('::', 2)[-2] + '::' + q.rsplit('::', 1)[-1]
        if offending is None:
            ctx.ok('C09.8-content-blind', inst, 'no branch condition reads the payload', ctx.where(QB))
        else:
            ctx.bad('C09.8-content-blind', inst, 'a branch in %s tests the payload bytes: a fragment can be dropped or treated differently because of its content (e.g. an empty piece), so the sequence never completes' % inst,
                    ctx.where(QB, offending), key='DOM:%s:branches-on-payload' % q)

    # the counter says how many slots are filled: whoever empties or replaces the slots must bring the counter along
    ctx.rule('C09.1-slots-and-counter', 'outside the constructor, a method of FragmentedMessage that replaces or empties the slot vector (whole-field assignment, clear, truncate, fill, drain, take) '
             'also assigns received_count in the same method: slots emptied under a counter that still counts them make the message "complete" with holes', floor=0)
    n_sc = 0
    for q in sorted(ctx.F.bodies):
        if not (q.startswith(FM + '::') and ctx.F.bodies[q]['kind'] in ('Fn', 'AssocFn')):
            continue
        SB = P.B(q)
        if any(st['rv']['k'] == 'agg' and st['rv'].get('adt') == FM and (st['pl']['l'] == 0 or 0 in SB.derived_locals([st['pl']['l']])) for bb, j, st in SB.stmts() if st['k'] == '='):
            continue      # a constructor: builds the whole value
        resets = [bb for bb, st in field_assigns(SB, FM, 'fragments')]
        for bb, t in SB.calls():
            nm = (callee_of(t)[0] or '').rsplit('::', 1)[-1]
            if nm in ('clear', 'truncate', 'fill', 'drain', 'take') and t['args'] and 'fragments' in root_fields(SB, t['args'][0]) and 'pending_fragments' not in root_fields(SB, t['args'][0]):
                resets.append(bb)
        if not resets:
            continue
        n_sc += 1
        cnt = field_assigns(SB, FM, 'received_count')
        plain = [x for x in cnt if not (x[1]['rv']['k'] == 'use' and SB.origin(x[1]['rv']['op'])[0] in ('bin',) ) and not _is_increment(SB, x[1])]
        if plain:
            ctx.ok('C09.1-slots-and-counter', q.rsplit('::', 1)[1], 'slots replaced and received_count assigned anew', ctx.where(SB, resets[0]))
        else:
            ctx.bad('C09.1-slots-and-counter', q.rsplit('::', 1)[1], '%s replaces or empties the slot vector but leaves received_count as it was: fragments already counted are gone, the counter reaches the total with slots still empty '
                    'and the message is handed out truncated' % q.rsplit('::', 1)[1], ctx.where(SB, resets[0]), key='PAIR:%s:slots-reset-counter-kept' % q)
    if n_sc == 0:
        ctx.ok('C09.1-slots-and-counter', 'none', 'no method replaces or empties the slot vector')

    # activity is what keeps a sequence from expiring: whatever stores a fragment refreshes the timestamp
    ctx.rule('C09.4-activity-refresh', 'in add_fragment every path that stores the fragment (into its slot or into the buffer for fragments that arrive before the header) also assigns last_update: '
             'a sequence whose fragments keep arriving must not expire between them', floor=1)
    AB = ctx.body(FM + '::add_fragment')
    if AB is not None:
        refresh = set(bb for bb, st in field_assigns(AB, FM, 'last_update'))
        stores = [(bb, 'slot') for bb, idx in slot_writes(AB)]
        for bb, t in AB.calls():
            nm = (callee_of(t)[0] or '')
            if nm.rsplit('::', 1)[-1] in ('insert', 'push', 'or_insert', 'or_insert_with') and t['args'] and 'pending_fragments' in root_fields(AB, t['args'][0]):
                stores.append((bb, 'buffer'))
        ctx.anchor(len(stores) >= 2, FM + '::add_fragment: slot store and pre-header buffer store')
        rets = set(AB.return_blocks())
        for sb, kind in stores:
            before = sb in AB.reachable(0, removed_blocks=refresh) and sb not in refresh
            after = bool(AB.reachable(sb, removed_blocks=refresh - {sb}) & rets) and sb not in refresh
            if before and after:
                ctx.bad('C09.4-activity-refresh', kind, 'a fragment is stored in the %s on a path that never assigns last_update: the sequence keeps the timestamp of an earlier fragment and is swept as expired while its fragments are still arriving' % kind,
                        ctx.where(AB, sb), key='PAIR:%s::add_fragment:%s-store-without-refresh' % (FM, kind))
            else:
                ctx.ok('C09.4-activity-refresh', kind, 'last_update is assigned on every path through the %s store' % kind, ctx.where(AB, sb))

    # every fragment that comes in is offered to the record of its sequence
    ctx.rule('C09.8-every-fragment-offered', 'in the assembler\'s add_fragment every path from entry to return hands the payload to FragmentedMessage::add_fragment (of the pending record or of a new one); '
             'in start_fragment every path except the one that rejects the fragment count does: a fragment dropped because of what the assembler remembers of earlier sequences '
             'leaves its message incomplete for ever', floor=2)
    for q in (FA + '::add_fragment', FA + '::start_fragment'):
        QB = ctx.body(q)
        if QB is None:
            continue
        dl = [i for i in range(1, QB.b['argc'] + 1) if QB.local_name(i) == 'payload']
        if not ctx.anchor(bool(dl), q + ':payload parameter'):
            continue
        d = QB.derived_locals(dl) | set(dl)
        offers = set(bb for bb, t in QB.calls() if is_call_to(t, FM + '::add_fragment') and len(t['args']) >= 3 and any(l in d for l in QB._op_locals(t['args'][2])))
        ctx.anchor(bool(offers), q + ': FragmentedMessage::add_fragment(.., payload)')
        removed = set(offers)
        n_rej = 0
        if q.endswith('::start_fragment'):
            # the arm that rejects the count (FragmentCount::new answered Err)
            for bb, t in QB.calls():
                if not any(n.endswith('::FragmentCount::new') for n in callee_names(t)):
                    continue
                nx = t.get('t')
                seen_ = set()
                while isinstance(nx, int) and nx not in seen_:
                    seen_.add(nx)
                    sd = QB.switch_on_discr(nx)
                    if sd:
                        ok_t = [b_ for v_, b_ in sd[2] if v_ == 0]
                        n_rej += 1
                        for v_, b_ in sd[2]:
                            if v_ != 0:
                                removed.add(b_)
                        if ok_t and sd[3] not in ok_t:
                            removed.add(sd[3])
                        break
                    tt = QB.blocks[nx]['t']
                    nx = tt.get('t') if tt['k'] in ('goto', 'drop', 'falseedge') else None
        rets = set(QB.return_blocks())
        escaping = QB.reachable(0, removed_blocks=removed) & rets
        inst = q.rsplit('::', 2)[-2] + '::' + q.rsplit('::', 1)[-1]
        if escaping and q.endswith('::start_fragment') and n_rej == 0:
            ctx.undecided('C09.8-every-fragment-offered', inst, 'the test that rejects an invalid fragment count (FragmentCount::new answering Err) was not found: cannot tell the rejecting return from a dropped fragment', ctx.where(QB))
        elif offers and not escaping:
            ctx.ok('C09.8-every-fragment-offered', inst, 'every return is behind a FragmentedMessage::add_fragment(.., payload) (%d call sites)' % len(offers), ctx.where(QB))
        else:
            ctx.bad('C09.8-every-fragment-offered', inst, '%s can return without handing the fragment to the record of its sequence: the fragment is lost and its message never completes' % inst,
                    ctx.where(QB, sorted(escaping)[0] if escaping else None), key='DOM:%s:fragment-not-offered' % q)

    # the buffer of early continuations is emptied by the transfer into the slots and by nothing else
    ctx.rule('C09.7-buffer-only-transferred', 'entries leave pending_fragments only through the transfer into the slot vector (the drain in set_total_fragments whose items are stored into slots), or after it: '
             'a clear / retain / remove / reassignment that can run before the transfer throws away continuations that arrived ahead of their header', floor=1)
    n_bt = 0
    for q in sorted(ctx.F.bodies):
        if not q.startswith('edp_client::fragmentation::') or ctx.F.bodies[q]['kind'] not in ('Fn', 'AssocFn', 'Closure'):
            continue
        SB = P.B(q)
        if any(st['rv']['k'] == 'agg' and st['rv'].get('adt') == FM and (st['pl']['l'] == 0 or 0 in SB.derived_locals([st['pl']['l']])) for bb, j, st in SB.stmts() if st['k'] == '='):
            continue      # the constructor
        removers, transfers = [], set()
        writes = slot_writes(SB)
        for bb, t in SB.calls():
            nm = (callee_of(t)[0] or '').rsplit('::', 1)[-1]
            if not t['args'] or 'pending_fragments' not in root_fields(SB, t['args'][0]):
                continue
            if nm in ('drain', 'into_iter', 'iter', 'remove', 'remove_entry', 'take', 'replace'):
                dd = SB.derived_locals([t['dst']['l']])
                moved = any(any(l in dd for l in SB._rv_locals(s_['rv'])) for wb, idx in writes for s_ in SB.blocks[wb]['s'] if s_['k'] == '=' and (s_['pl'].get('p') or []))
                if moved:
                    transfers.add(bb)
                    continue
                if nm in ('iter', 'into_iter') and 'mut' not in str(SB.local_ty(t['args'][0]['pl']['l']) if t['args'][0].get('pl') else ''):
                    continue      # a read-only walk
            if nm in ('clear', 'retain', 'extract_if', 'drain', 'remove', 'remove_entry', 'take', 'replace', 'truncate', 'split_off'):
                removers.append((bb, nm))
        for bb, st in field_assigns(SB, FM, 'pending_fragments'):
            removers.append((bb, 'assignment'))
        n_bt += len(transfers)
        for bb, nm in removers:
            inst = '%s:pending_fragments.%s' % (q.rsplit('::', 1)[1], nm)
            if transfers and SB.all_paths_pass(0, transfers, to_blocks=[bb]):
                ctx.ok('C09.7-buffer-only-transferred', inst, 'only after the transfer into the slots', ctx.where(SB, bb))
            else:
                ctx.bad('C09.7-buffer-only-transferred', inst, '%s empties or shrinks the buffer of continuations that arrived before their header without moving them into their slots: those fragments are lost and the sequence never completes'
                        % q.rsplit('::', 1)[1], ctx.where(SB, bb), key='WHO:%s:pending_fragments.%s' % (q, nm))
    if ctx.anchor(n_bt >= 1, 'the transfer of pending_fragments into the slot vector'):
        ctx.ok('C09.7-buffer-only-transferred', 'transfer', '%d transfer site(s); nothing else takes entries out of the buffer before it' % n_bt)

    from ..families import check_sibling_ctors as _sib
    ctx.rule('C09.4-assembler-constructors', 'FragmentAssembler::new and ::with_timeout build the same assembler except for the timeout', floor=1)
    _sib(ctx, P, 'C09.4-assembler-constructors', ASM if 'ASM' in globals() else 'edp_client::fragmentation::FragmentAssembler', ['edp_client::fragmentation::FragmentAssembler::new', 'edp_client::fragmentation::FragmentAssembler::with_timeout'], {'fragment_timeout'})

    # the sweep really sweeps: every call walks the table
    ctx.rule('C09.4-sweep-unconditional', 'every call of cleanup_expired reaches the walk over the pending table (retain / the loop that removes): no early return skips it - '
             'a sweep that is skipped because "the last one was recent" keeps a sequence that expired in between', floor=1)
    CE = ctx.body('edp_client::fragmentation::FragmentAssembler::cleanup_expired')
    if CE is not None:
        walks = set(bb for bb, t in CE.calls() if (callee_of(t)[0] or '').rsplit('::', 1)[-1] in ('retain', 'extract_if', 'drain', 'remove', 'iter', 'iter_mut', 'keys', 'values') and t['args'] and 'pending' in root_fields(CE, t['args'][0]))
        rets = set(CE.return_blocks())
        if walks and CE.all_paths_pass(0, walks, rets):
            ctx.ok('C09.4-sweep-unconditional', 'cleanup_expired', 'every path from entry to return walks `pending`', ctx.where(CE))
        else:
            ctx.bad('C09.4-sweep-unconditional', 'cleanup_expired', 'cleanup_expired can return without looking at the pending table: an expired sequence survives the call and its data is held on',
                    ctx.where(CE), key='DOM:edp_client::fragmentation::FragmentAssembler::cleanup_expired:sweep-skipped')


def _rv_places(rv):
    k = rv['k']
    out = []
    if k in ('ref', 'rawptr', 'discr'):
        out.append(rv['pl'])
    for key in ('op', 'a', 'b'):
        o = rv.get(key)
        if isinstance(o, dict) and o.get('k') in ('cp', 'mv'):
            out.append(o['pl'])
    for o in rv.get('ops', []) or []:
        if o.get('k') in ('cp', 'mv'):
            out.append(o['pl'])
    return out
