"""C07 — each send operation emits exactly one well-formed frame with the right content.

DOM: connected-state gate before the first write of every public operation; WHO on the
private writer; TABLE+PROV: operation -> control tuple; WIRE of send_control_message per
mode; types/WHO for serialisation of concurrent senders.
"""
import json, os, re
from ..core import callee_of, callee_names, is_call_to, unwrap, receiver_root, dominating_edges, fold
from ..ranges import canon
from ..families import describe, guard_flow, awaited_guard_start, bodies_of_fn
from ..wire import success_sequences, correlated_sequences, prim_of, _val

CONN = 'edp_client::connection::Connection::'
CM = 'edp_client::control::ControlMessage'
SPEC = os.path.join(os.path.dirname(os.path.dirname(os.path.dirname(os.path.abspath(__file__)))), 'spec', 'control_messages.json')
OPS = {
    'send_message': ('Send', {'to_pid': 'to_pid'}),
    'send_to_name': ('RegSend', {'from_pid': 'from_pid', 'to_name': 'to_name'}),
    'link': ('Link', {'from_pid': 'from_pid', 'to_pid': 'to_pid'}),
    'unlink': ('UnlinkId', {'id': 'unlink_id', 'from_pid': 'from_pid', 'to_pid': 'to_pid'}),
    'monitor': ('MonitorP', {'from_pid': 'from_pid', 'to_proc': 'to_proc', 'reference': 'reference'}),
    'demonitor': ('DemonitorP', {'from_pid': 'from_pid', 'to_proc': 'to_proc', 'reference': 'reference'}),
}
OP_TAG = {'send_message': 'send', 'send_to_name': 'send_to_name', 'link': 'link', 'unlink': 'unlink', 'monitor': 'monitor', 'demonitor': 'demonitor'}


def connected_gate(B, bb):
    """Is block bb dominated by the pass edge of a connected-state test?"""
    for (src, vals, dst) in dominating_edges(B, bb):
        sb = B.switch_bool_edges(src)
        if not sb:
            continue
        source, t_t, f_t = sb
        if source[0] == 'call' and is_call_to(source[2], CONN + 'is_connected') and dst == t_t:
            return True
        if source[0] == 'call' and any(n.endswith('PartialEq::ne') or n.endswith('PartialEq::eq') for n in callee_names(source[2])):
            s_ = str(B.origin(source[2]['args'][0])) + str(B.origin(source[2]['args'][1]))
            is_ne = any(n.endswith('PartialEq::ne') for n in callee_names(source[2]))
            if 'Connection::state' in s_ and 'Connected' in s_:
                if (not is_ne and dst == t_t) or (is_ne and dst == f_t):
                    return True
        if source[0] == 'bin' and source[2]['op'] in ('Eq', 'Ne'):
            s = str(B.origin(source[2]['a'])) + str(B.origin(source[2]['b']))
            if 'Connection::state' in s and "'Connected'" in s or ('Connection::state' in s and 'Connected' in s):
                if (source[2]['op'] == 'Eq' and dst == t_t) or (source[2]['op'] == 'Ne' and dst == f_t):
                    return True
    return False


def is_gate_fn(P, name, _depth=0):
    """a function of Connection whose every Ok return is dominated by the connected-state test: `f()?` then is the test"""
    G = P.B(name)
    if G is None or _depth > 1 or not name.startswith(CONN):
        return False
    oks = [bb for bb, j, st in G.stmts() if st['k'] == '=' and G.is_ret_slot(st['pl']['l']) and not st['pl'].get('p') and st['rv']['k'] == 'agg' and st['rv'].get('var') == 'Ok']
    return bool(oks) and all(connected_gate(G, bb) for bb in oks)


def gate_by_helper(P, B, bb):
    """Is block bb dominated by the Continue edge of `helper()?` where helper is a gate function?"""
    for (src, vals, dst) in dominating_edges(B, bb):
        sd = B.switch_on_discr(src)
        if not sd or 'ControlFlow' not in sd[1]:
            continue
        cont = [b_ for v_, b_ in sd[2] if v_ == 0]
        if not cont or dst != cont[0]:
            continue
        d = B.single_def(sd[0]['l'])
        if d is None or d[0] != 't' or callee_of(d[3])[0] != 'core::ops::try_trait::Try::branch':
            continue
        o = B.origin(d[3]['args'][0], through_calls=False) if True else None
        base, _ = unwrap(B.origin(d[3]['args'][0]))
        cands = []
        if base is not None and base[0] == 'call':
            cands.append(base[1])
        for c_ in cands:
            if c_ and is_gate_fn(P, c_):
                return c_
    return None


def is_checked_identity(P, fn):
    """fn(x) -> Result<T, _> that returns T::try_from(x) (possibly with the error mapped): the value is x or the call fails"""
    HB = P.B(fn)
    if HB is None or HB.b['argc'] != 1:
        return False
    tf = [(bb, t) for bb, t in HB.calls() if any(n.endswith('::try_from') or n.endswith('::try_into') for n in callee_names(t))]
    if len(tf) != 1:
        return False
    bb, t = tf[0]
    if HB.origin(t['args'][0]) != ('arg', 1, ()):
        return False
    d = HB.derived_locals([t['dst']['l']]) | {t['dst']['l']}
    others = [n for b2, t2 in HB.calls() for n in callee_names(t2) if b2 != bb]
    return 0 in d and all(n.endswith('::map_err') or n.endswith('::ok_or') or n.endswith('::ok_or_else') for n in others)


def _frame_semantic(ctx, P, B, rs):
    """Symbolic check of one success sequence of writes [(width, bb) ...]: the first write is a u32 whose value equals the total
    size of what follows (1 per u8, len(x) per byte string x, with an optional payload counted exactly when it is written), the
    frame is `112 control [payload]` or the output of the header encoder.  Returns one of the four shape names or None."""
    from ..ranges import canon as _cn, Ranges as _Rg
    if not rs:
        return None
    evs = [(w, bb) for (w, bb) in rs if w != 'flush']
    if len(evs) < 2:
        return None

    def opnd(bb, k):
        t = B.blocks[bb]['t']
        return t['args'][k] if len(t['args']) > k else None

    def cn(op, bb):
        return _cn(B, op, 0, (bb, None))

    def is_len_fn(op):
        from ..families import _len_fn
        try:
            return _len_fn(B, op)
        except Exception:
            return False

    def lin(c, depth=0):
        if depth > 12 or not isinstance(c, tuple):
            return None
        k = c[0]
        if k == 'const' and isinstance(c[1], int):
            return {'1': c[1]}
        if k == 'len':
            x = c[1]
            if isinstance(x, tuple) and x and x[0] == 'place' and tuple(x[2]) == ('as:Some', '0'):
                return {('optlen', x[1]): 1}
            return {('len', x): 1}
        if k == 'cast':
            return lin(c[2], depth + 1)
        if k == 'bin' and c[1] in ('Add', 'Sub', 'AddUnchecked', 'SubUnchecked'):
            a, b = lin(c[2], depth + 1), lin(c[3], depth + 1)
            if a is None or b is None:
                return None
            sg = 1 if c[1].startswith('Add') else -1
            out = dict(a)
            for k_, v_ in b.items():
                out[k_] = out.get(k_, 0) + sg * v_
            return {k_: v_ for k_, v_ in out.items() if v_ != 0}
        if k in ('payload', 'try') and isinstance(c[1], tuple) and c[1] and c[1][0] == 'call':
            nm = str(c[1][1])
            t_ = B.blocks[c[1][2]]['t']
            if t_['k'] == 'call' and t_['args'] and (nm.endswith('::try_from') or nm.endswith('::try_into') or (nm.startswith('edp_client::') and is_checked_identity(P, nm))):
                return lin(cn(t_['args'][0], c[1][2]), depth + 1)
            return None
        if k == 'call':
            nm = str(c[1])
            t_ = B.blocks[c[2]]['t']
            last = nm.rsplit('::', 1)[-1]
            if last == 'map_or' and 'Option' in nm and len(t_['args']) > 2 and B.origin(t_['args'][1]) == ('const', 0) and is_len_fn(t_['args'][2]):
                return {('optlen', cn(t_['args'][0], c[2])): 1}
            if last in ('unwrap_or', 'unwrap_or_default') and 'Option' in nm and t_['args']:
                if last == 'unwrap_or' and B.origin(t_['args'][1]) != ('const', 0):
                    return None
                oi = B.origin(t_['args'][0])
                if oi[0] == 'call' and oi[1] and oi[1].endswith('Option::<T>::map'):
                    it = B.blocks[oi[2]]['t']
                    if len(it['args']) > 1 and is_len_fn(it['args'][1]):
                        return {('optlen', cn(it['args'][0], oi[2])): 1}
            return None
        return None

    def strip_ref(c):
        # Option<&Vec> obtained with as_ref()/as_deref() from the Option<Vec>: the same option for our purpose
        for _ in range(3):
            if isinstance(c, tuple) and c and c[0] == 'call' and str(c[1]).rsplit('::', 1)[-1] in ('as_ref', 'as_deref'):
                t_ = B.blocks[c[2]]['t']
                c = cn(t_['args'][0], c[2])
            else:
                break
        return c

    def norm(form):
        return {((k[0], strip_ref(k[1])) if isinstance(k, tuple) else k): v for k, v in form.items()}
    # staged frame (header mode builds the frame in a local buffer and writes the buffer): the socket write is the last event and its
    # operand is the buffer the earlier events wrote into
    last_w, last_bb = evs[-1]
    frame = evs
    if last_w == 'bytes' and len(evs) >= 3:
        bufc = cn(opnd(last_bb, 1), last_bb)
        staged = [e for e in evs[:-1] if cn(opnd(e[1], 0), e[1]) == bufc]
        if len(staged) == len(evs) - 1:
            frame = staged
    w0, bb0 = frame[0]
    if w0 != 'u32':
        return None
    L = lin(cn(opnd(bb0, 1), bb0))
    if L is None:
        return None
    L = norm(L)
    S = {}
    items = []
    for w, bb in frame[1:]:
        if w == 'u8':
            S['1'] = S.get('1', 0) + 1
            items.append(('u8', B.origin(opnd(bb, 1))))
        elif w == 'bytes':
            c = cn(opnd(bb, 1), bb)
            f = norm(lin(('len', c)) or {})
            if not f:
                return None
            for k_, v_ in f.items():
                S[k_] = S.get(k_, 0) + v_
            items.append(('bytes', c))
        else:
            return None
    # an optional part counted in the prefix but not written: only right where the option is known to be None on this path
    Rg = _Rg(B)
    for k_ in list(L):
        if isinstance(k_, tuple) and k_[0] == 'optlen' and k_ not in S:
            none_here = False
            from ..core import dominating_edges as _de
            for (src, vals, dst) in _de(B, frame[-1][1]):
                sd = B.switch_on_discr(src)
                if sd and 'core::option::Option<' in sd[1] and 'else' not in vals and vals == [0]:
                    if strip_ref(_cn(B, {'k': 'cp', 'pl': sd[0]}, 0, (src, None))) == k_[1]:
                        none_here = True
            if not none_here:
                # the option is tested after the writes seen so far: this sequence is the None side when, wherever the option is Some,
                # the payload is written before the flush (so a path without that write has taken the None edge)
                pay_blocks = set()
                for b2, t2 in B.calls():
                    p2 = prim_of(t2)
                    if p2 is not None and p2[0] == 'w' and p2[1] == 'bytes' and len(t2['args']) > 1:
                        c2 = cn(t2['args'][1], b2)
                        if isinstance(c2, tuple) and c2 and c2[0] == 'place' and tuple(c2[2]) == ('as:Some', '0') and strip_ref(c2[1]) == k_[1]:
                            pay_blocks.add(b2)
                ends = [bb_ for w_, bb_ in rs if w_ == 'flush'] or [frame[-1][1]]
                for sw in sorted(B.live_blocks()):
                    sd = B.switch_on_discr(sw)
                    if not (sd and 'core::option::Option<' in sd[1] and pay_blocks):
                        continue
                    if strip_ref(_cn(B, {'k': 'cp', 'pl': sd[0]}, 0, (sw, None))) != k_[1]:
                        continue
                    some_t = [b_ for v_, b_ in sd[2] if v_ == 1]
                    some_t = some_t[0] if some_t else sd[3]
                    if some_t is not None and not any(e_ in B.reachable(some_t, removed_blocks=pay_blocks) for e_ in ends):
                        none_here = True
            if none_here:
                del L[k_]
            else:
                return None
    if L != S:
        return None
    # content
    if items and items[0][0] == 'u8':
        if items[0][1] != ('const', 112):
            return None
        by = [c for k_, c in items[1:] if k_ == 'bytes']

        def from_encode(c):
            if 'encode' in str(c):
                return True
            # the payload of an Option every Some(..) definition of which holds the result of an encode call
            if isinstance(c, tuple) and c and c[0] == 'place' and tuple(c[2]) == ('as:Some', '0') and isinstance(c[1], tuple) and c[1] and c[1][0] == 'local':
                somes = [d_ for d_ in B.defs().get(c[1][1], []) if d_[0] == 's' and d_[3]['rv']['k'] == 'agg' and d_[3]['rv'].get('var') == 'Some']
                return bool(somes) and all('encode' in str(cn(d_[3]['rv']['ops'][0], d_[1])) for d_ in somes)
            # message.map(erltf::encode).transpose()?: Some(bytes) exactly when there is a message, the bytes being its encoding
            if isinstance(c, tuple) and c and c[0] == 'place' and tuple(c[2]) == ('as:Some', '0') and isinstance(c[1], tuple) and c[1] and c[1][0] == 'payload' \
                    and isinstance(c[1][1], tuple) and c[1][1][0] == 'call' and str(c[1][1][1]).endswith('::transpose'):
                tt = B.blocks[c[1][1][2]]['t']
                om = B.origin(tt['args'][0]) if tt['args'] else ('unknown',)
                if om[0] == 'call' and om[1] and om[1].endswith('Option::<T>::map'):
                    mt = B.blocks[om[2]]['t']
                    return len(mt['args']) > 1 and mt['args'][1].get('k') == 'c' and 'encode' in str(mt['args'][1].get('fn'))
            return False
        if len(by) != len(items) - 1 or not (1 <= len(by) <= 2) or not all(from_encode(c) for c in by):
            return None
        return 'pt-ctl+payload' if len(by) == 2 else 'pt-ctl'
    if len(items) == 1 and items[0][0] == 'bytes':
        c = items[0][1]
        txt = str(c)
        if 'encode_with_dist_header_multi' in txt:
            return 'hdr-ctl+payload'
        if 'encode_with_dist_header' in txt:
            return 'hdr-ctl'
        # `let encoded = match message { Some(m) => multi(..)?, None => single(..)? }`: one write for both cases
        l_ = c[1] if isinstance(c, tuple) and len(c) >= 2 and c[0] in ('local', 'phi') and isinstance(c[1], int) else None
        if l_ is not None:
            from ..ranges import _canon_def
            ds_ = B.defs().get(l_, [])
            txts = [str(_canon_def(B, l_, d_, 4)) for d_ in ds_]
            if ds_ and all('encode_with_dist_header' in x for x in txts):
                out = set()
                for x in txts:
                    out.add('hdr-ctl+payload' if 'encode_with_dist_header_multi' in x else 'hdr-ctl')
                return tuple(sorted(out))
    return None


def param_of(B, op):
    base, projs = unwrap(B.origin(op))
    for p in projs:
        if isinstance(p, str) and p.startswith('upvar:'):
            return p[6:]
    if base is not None and base[0] in ('local', 'arg'):
        return B.local_name(base[1])
    if base is not None and base[0] == 'agg' and base[1].get('ops'):
        return param_of(B, base[1]['ops'][0])
    return None


class _Unknown(Exception):
    pass


def _ev_bool(P, B, op, scen, depth=0):
    """value of a bool operand under a scenario (negotiated: 'some'|'none', has: bool) for the framing-mode decision;
    understands !, DistributionFlags::has(DIST_HDR_ATOM_CACHE), Option::map / map_or / unwrap_or / is_some_and, as_ref & co,
    negotiated_flags(), constants, and bool-returning helpers of Connection.  Anything else raises _Unknown."""
    if depth > 8:
        raise _Unknown('depth')
    if op.get('k') == 'c':
        if 'v' in op:
            return bool(op['v'])
        raise _Unknown('const')
    src, neg = B.bool_source(op)
    return _ev_src(P, B, src, scen, depth) != neg


def _ev_src(P, B, src, scen, depth):
    if src[0] == 'other':
        cur = src[1]
        if cur.get('k') == 'c' and 'v' in cur:
            return bool(cur['v'])
        raise _Unknown('operand %s' % (cur,))
    if src[0] == 'rv':
        rv = src[2]
        if rv['k'] == 'use' and rv['op'].get('k') == 'c' and 'v' in rv['op']:
            return bool(rv['op']['v'])
        raise _Unknown('rvalue %s' % rv['k'])
    if src[0] != 'call':
        raise _Unknown(src[0])
    t = src[2]
    nm = callee_of(t)[0] or ''
    last = nm.rsplit('::', 1)[-1]
    if nm.endswith('DistributionFlags::has') or nm.endswith('DistributionFlags::contains'):
        a = str(B.origin(t['args'][1])) + str(t['args'][1])
        if 'DIST_HDR_ATOM_CACHE' not in a:
            raise _Unknown('other flag')
        return scen[1]
    if nm.startswith('core::option::Option') and last == 'unwrap_or':
        o = _ev_opt(P, B, t['args'][0], scen, depth + 1)
        return o[1] if o[0] == 'some' else _ev_bool(P, B, t['args'][1], scen, depth + 1)
    if nm.startswith('core::option::Option') and last == 'unwrap_or_default':
        o = _ev_opt(P, B, t['args'][0], scen, depth + 1)
        return o[1] if o[0] == 'some' else False
    if nm.startswith('core::option::Option') and last in ('map_or', 'is_some_and', 'is_none_or'):
        o = _ev_opt_raw(P, B, t['args'][0], scen, depth + 1)
        clo = t['args'][-1]
        if o == 'none':
            return {'map_or': None, 'is_some_and': False, 'is_none_or': True}[last] if last != 'map_or' else _ev_bool(P, B, t['args'][1], scen, depth + 1)
        return _ev_closure(P, B, clo, scen, depth + 1)
    if nm in P.F.bodies and P.F.bodies[nm]['locals'][0]['ty'] == 'bool':
        HB = P.B(nm)
        return _ev_bool(P, HB, {'k': 'cp', 'pl': {'l': 0}}, scen, depth + 1)
    raise _Unknown(nm)


def _ev_closure(P, B, clo_op, scen, depth):
    o = B.origin(clo_op)
    if o[0] == 'agg' and o[1].get('ak') == 'closure':
        CB = P.B(o[1]['def'])
        return _ev_bool(P, CB, {'k': 'cp', 'pl': {'l': 0}}, scen, depth + 1)
    raise _Unknown('closure')


def _ev_opt_raw(P, B, op, scen, depth):
    """'some' | 'none' for an Option<flags> operand"""
    o = B.origin(op)
    if o[0] == 'call':
        nm = str(o[1])
        last = nm.rsplit('::', 1)[-1]
        t = B.blocks[o[2]]['t']
        if nm.endswith('negotiated_flags'):
            return scen[0]
        if nm.startswith('core::option::Option') and last in ('as_ref', 'copied', 'cloned', 'as_deref', 'as_mut'):
            return _ev_opt_raw(P, B, t['args'][0], scen, depth + 1)
    txt = str(o)
    if 'negotiated_flags' in txt and 'config' not in txt:
        return scen[0]
    raise _Unknown('option %s' % (o[:2],))


def _ev_opt(P, B, op, scen, depth):
    """('some', bool) | ('none',) for an Option<bool> operand"""
    o = B.origin(op)
    if o[0] == 'call':
        nm = str(o[1])
        last = nm.rsplit('::', 1)[-1]
        t = B.blocks[o[2]]['t']
        if nm.startswith('core::option::Option') and last == 'map':
            inner = _ev_opt_raw(P, B, t['args'][0], scen, depth + 1)
            if inner == 'none':
                return ('none',)
            return ('some', _ev_closure(P, B, t['args'][1], scen, depth + 1))
    raise _Unknown('option<bool> %s' % (o[:2],))


def run(ctx):
    P = ctx.P
    spec = json.load(open(SPEC))
    by_tag = {m['tag']: m for m in spec['messages']}
    from .c08 import enum_table, CMT
    enum = enum_table(ctx, CMT)

    # ---------------- clause 1: state gate, private writer -------------------------------------------------
    ctx.rule('C07.1-state-gate', 'in every public operation that can write to the socket the write is dominated by the connected-state test\'s pass edge', floor=7)
    for op in list(OPS) + ['send_raw']:
        B = ctx.body(CONN + op + '::{closure#0}')
        if B is None:
            continue
        writes = [(bb, t) for bb, t in B.calls() if is_call_to(t, CONN + 'send_control_message') or is_call_to(t, CONN + 'write_message')]
        if not ctx.anchor(bool(writes), CONN + op + ':write'):
            continue
        helpers = [gate_by_helper(P, B, bb) for bb, t in writes]
        if all(connected_gate(B, bb) or h for (bb, t), h in zip(writes, helpers)):
            ctx.ok('C07.1-state-gate', op, 'send is dominated by the connected test%s' % (' (through %s()?)' % [h for h in helpers if h][0].rsplit('::', 1)[1] if any(helpers) else ''), ctx.where(B, writes[0][0]))
        else:
            ctx.bad('C07.1-state-gate', op, '%s can write to the socket without having tested that the handshake completed' % op, ctx.where(B, writes[0][0]),
                    key='DOM:%s%s:write-before-connected' % (CONN, op))
    ctx.rule('C07.1-private-writer', 'send_control_message and write_half_mut are called only from inside Connection', floor=2)
    for fn in (CONN + 'send_control_message', 'edp_client::transport::FramedTransport::write_half_mut'):
        callers = sorted({c[0] for c in P.callers_of(lambda n, f=fn: n == f)})
        outside = [c for c in callers if not c.startswith('edp_client::connection::Connection::')]
        sig = ctx.F.fns.get(fn)
        if outside:
            ctx.bad('C07.1-private-writer', fn.rsplit('::', 1)[1], 'called from outside Connection: %s' % outside, key='WHO:%s:outside-caller' % fn)
        else:
            ctx.ok('C07.1-private-writer', fn.rsplit('::', 1)[1], '%d caller(s), all inside Connection (visibility %s)' % (len(callers), sig['vis'] if sig else '?'))

    # ---------------- clause 2: operation -> control tuple ----------------------------------------------------
    ctx.rule('C07.2-op-to-message', 'each operation builds the control message the protocol assigns to it, with its parameters in the matching fields', floor=6)
    for op, (variant, fmap) in OPS.items():
        B = P.B(CONN + op + '::{closure#0}')
        if B is None:
            continue
        aggs = [(bb, st) for bb, j, st in B.stmts() if st['k'] == '=' and st['rv']['k'] == 'agg' and st['rv'].get('adt') == CM]
        if len(aggs) == 0:
            # built through a constructor function of ControlMessage: the constructor's own literal, with its parameters replaced by the arguments given here
            from ..fieldorder import ctor_summary as _ctor7
            ctors = [(bb, t, n) for bb, t in B.calls() for n in callee_names(t) if n.startswith(CM + '::') and n in ctx.F.bodies and ctx.F.bodies[n]['locals'][0]['ty'] == CM]
            if len(ctors) == 1:
                cbb, ct, cn = ctors[0]
                CB7 = P.B(cn)
                lits = [st2 for b2, j2, st2 in CB7.stmts() if st2['k'] == '=' and st2['rv']['k'] == 'agg' and st2['rv'].get('adt') == CM]
                summ = _ctor7(P, cn)
                if len(lits) == 1 and summ:
                    inv = {f: i for i, f in summ.items()}
                    rv2 = dict(lits[0]['rv'])
                    rv2['ops'] = [ct['args'][inv[f]] if f in inv and inv[f] < len(ct['args']) else {'k': 'c', 'd': 'set inside the constructor'} for f in rv2['fn']]
                    aggs = [(cbb, {'k': '=', 'rv': rv2, 'ln': ct.get('ln'), '_via_ctor': cn})]
        if len(aggs) != 1:
            ctx.bad('C07.2-op-to-message', op, '%d control messages are constructed (expected exactly one)' % len(aggs), ctx.where(B), key='TABLE:%s%s:message-count' % (CONN, op))
            continue
        bb, st = aggs[0]
        rv = st['rv']
        problems = []
        if rv['var'] != variant:
            problems.append('builds %s, the protocol operation is %s' % (rv['var'], variant))
        want_tag = spec['operations'][OP_TAG[op]]
        if enum.get(rv['var']) != want_tag:
            problems.append('%s is numbered %s, the protocol operation has tag %d' % (rv['var'], enum.get(rv['var']), want_tag))
        for f, prm in fmap.items():
            if f in rv['fn']:
                got = param_of(B, rv['ops'][rv['fn'].index(f)])
                if got != prm:
                    problems.append('field %s is filled from %s, expected parameter %s' % (f, got, prm))
            else:
                problems.append('no field %s' % f)
        # the message passed to send_control_message is this one, with the caller's payload
        sends = [(b2, t2) for b2, t2 in B.calls() if is_call_to(t2, CONN + 'send_control_message')]
        if sends:
            o = B.origin(sends[0][1]['args'][1])
            if not ((o[0] == 'agg' and o[2] == bb) or (st.get('_via_ctor') and o[0] == 'call' and o[2] == bb)):
                problems.append('send_control_message is not given the constructed message')
            po = B.origin(sends[0][1]['args'][2])
            has_payload = by_tag[want_tag]['payload']
            if has_payload:
                pn = param_of(B, sends[0][1]['args'][2])
                if not (po[0] == 'agg' and po[1].get('var') == 'Some' and pn == 'message'):
                    problems.append('payload is not Some(message)')
            else:
                if not (po[0] == 'agg' and po[1].get('var') == 'None'):
                    problems.append('operation without payload passes one')
        if problems:
            ctx.bad('C07.2-op-to-message', op, '; '.join(problems), ctx.where(B, bb), key='TABLE:%s%s:message' % (CONN, op))
        else:
            ctx.ok('C07.2-op-to-message', op, '%s{%s}, tag %d, payload=%s' % (variant, ', '.join('%s<-%s' % kv for kv in fmap.items()), want_tag, by_tag[want_tag]['payload']), ctx.where(B, bb))

    # ---------------- clause 3: frame layout --------------------------------------------------------------------
    ctx.rule('C07.3-frame-layout', 'send_control_message writes exactly one frame: pass-through u32(1+len(control)[+len(payload)]) 112 control [payload]; header mode u32(len(E)) E with E = encode_with_dist_header(_multi)([control, payload?]); the mode is chosen by the negotiated DIST_HDR_ATOM_CACHE flag', floor=5)
    B = ctx.body(CONN + 'send_control_message::{closure#0}')
    if B is not None:
        def ev(B_, bb):
            t = B_.blocks[bb]['t']
            if t['k'] != 'call':
                return []
            p = prim_of(t)
            if p is not None and p[0] == 'w':
                buf = describe(B_, canon(B_, t['args'][0]))
                val = t['args'][1] if len(t['args']) > 1 else None
                return [(p[1], _val(B_, val) if val is not None else None, buf)]
            if any(n.endswith('AsyncWriteExt::flush') for n in callee_names(t)):
                return [('flush', None, describe(B_, canon(B_, t['args'][0])))]
            return []
        seqs, _ = correlated_sequences(B, ev)
        # the same sequences with the raw operands (for the symbolic check of sequences the textual classification does not know)
        def ev_raw(B_, bb):
            t = B_.blocks[bb]['t']
            if t['k'] != 'call':
                return []
            p = prim_of(t)
            if p is not None and p[0] == 'w':
                return [(p[1], bb)]
            if any(n.endswith('AsyncWriteExt::flush') for n in callee_names(t)):
                return [('flush', bb)]
            return []
        raw_seqs, _ = correlated_sequences(B, ev_raw)
        seq_events = {}
        for rs in raw_seqs:
            key = tuple(x for bb_ in [e[1] for e in rs] for x in ev(B, bb_))
            seq_events[key] = rs
        shapes = {'pt-ctl': 0, 'pt-ctl+payload': 0, 'hdr-ctl': 0, 'hdr-ctl+payload': 0, 'other': []}
        # helpers of the crate that only convert a length with try_from (checked identity): seen through, like an `as` cast
        ident = {n.rsplit('::', 1)[1] for bb, t in B.calls() for n in callee_names(t) if n.startswith('edp_client::') and is_checked_identity(P, n)} | {'try_from', 'try_into'}

        def strip_conv(d_):
            prev = None
            while prev != d_:
                prev = d_
                m_ = re.fullmatch(r'(?:%s)\((?P<x>.*)\)\?' % '|'.join(sorted(re.escape(x) for x in ident)), d_)
                if m_:
                    d_ = m_.group('x')
                m_ = re.fullmatch(r'\((?P<x>.*) as u32\)', d_)
                if m_:
                    d_ = m_.group('x')
            return d_
        for s in seqs:
            flat = [e for e in s if e and e[0] != 'flush']
            desc = ' '.join('%s(%s)' % (e[0], ('(%s as u32)' % strip_conv(str(e[1]))) if e[0] == 'u32' else e[1]) for e in flat)
            m_pt1 = re.fullmatch(r'u32\(\(Add\(1,len\((?P<c>.+?)\)\) as u32\)\) u8\(112\) bytes\((?P<c2>.+?)\)', desc)
            m_pt2 = re.fullmatch(r'u32\(\(Add\(Add\(1,len\((?P<c>.+?)\)\),len\((?P<p>.+?)\)\) as u32\)\) u8\(112\) bytes\((?P<c2>.+?)\) bytes\((?P<p2>.+)\)', desc)
            m_h = re.fullmatch(r'u32\(\(len\((?P<e>.+?)\) as u32\)\) bytes\((?P<e2>.+?)\) bytes\((?P<buf>.+)\)', desc)
            if m_pt2 and m_pt2.group('c') == m_pt2.group('c2') and m_pt2.group('p') == m_pt2.group('p2') and 'encode(' in m_pt2.group('c'):
                shapes['pt-ctl+payload'] += 1
            elif m_pt1 and m_pt1.group('c') == m_pt1.group('c2') and 'encode(' in m_pt1.group('c'):
                shapes['pt-ctl'] += 1
            elif m_h and m_h.group('e') == m_h.group('e2') and 'encode_with_dist_header_multi' in m_h.group('e'):
                shapes['hdr-ctl+payload'] += 1
            elif m_h and m_h.group('e') == m_h.group('e2') and 'encode_with_dist_header' in m_h.group('e'):
                shapes['hdr-ctl'] += 1
            elif _back_patched(B, flat, strip_conv, prim_of) in shapes:
                shapes[_back_patched(B, flat, strip_conv, prim_of)] += 1
            else:
                sem = _frame_semantic(ctx, P, B, seq_events.get(s))
                if isinstance(sem, str) and sem in shapes:
                    shapes[sem] += 1
                elif isinstance(sem, tuple) and sem and all(x in shapes for x in sem):
                    for x in sem:
                        shapes[x] += 1
                else:
                    shapes['other'].append(desc)
        for k in ('pt-ctl', 'pt-ctl+payload', 'hdr-ctl', 'hdr-ctl+payload'):
            if shapes[k] >= 1:
                ctx.ok('C07.3-frame-layout', k, 'one frame: length prefix equals the bytes that follow', ctx.where(B))
            else:
                ctx.bad('C07.3-frame-layout', k, 'no success path writes the expected %s frame; other layouts found: %s' % (k, shapes['other'][:2]), ctx.where(B), key='WIRE:%ssend_control_message:%s' % (CONN, k))
        if shapes['other']:
            ctx.bad('C07.3-frame-layout', 'unexpected', 'a success path writes a frame of another shape: %s' % shapes['other'][:2], ctx.where(B), key='WIRE:%ssend_control_message:unexpected-shape' % CONN)
        # mode selection: whichever function (this one, its closures, a helper of Connection it calls) tests the DIST_HDR_ATOM_CACHE
        # bit must test it on the negotiated set
        tests = []

        def scan(path, depth):
            for XB in bodies_of_fn(P, path):
                for bb, t in XB.calls():
                    ns = callee_names(t)
                    if any(n.endswith('DistributionFlags::has') or n.endswith('DistributionFlags::contains') for n in ns) and len(t['args']) > 1:
                        a = str(XB.origin(t['args'][1])) + str(t['args'][1])
                        if 'DIST_HDR_ATOM_CACHE' in a:
                            recv = str(canon(XB, t['args'][0])) + ' ' + ' '.join(str(x) for x in operand_chain_(XB, t['args'][0]))
                            # a closure parameter: where does the closure get its argument from?  (Option::map on negotiated_flags())
                            src = 'negotiated' if 'negotiated_flags' in recv else ('configured' if "'config'" in recv or 'config' in recv and 'flags' in recv else 'param')
                            tests.append((XB, bb, src))
                    elif depth < 2:
                        for n in ns:
                            if n.startswith(CONN) and n != path and n in ctx.F.bodies and not n.endswith('negotiated_flags'):
                                scan(n, depth + 1)
        from ..families import operand_chain as operand_chain_
        scan(CONN + 'send_control_message', 0)
        # for tests inside a closure (`.map(|f| f.has(..))`) the receiver is the closure's parameter: the value mapped over decides
        resolved = []
        for XB, bb, src in tests:
            if src != 'param':
                resolved.append(src)
                continue
            owner = XB.path.rsplit('::{closure', 1)[0]
            found = None
            for OB in bodies_of_fn(P, owner):
                if OB.path == XB.path:
                    continue
                for ob, ot in OB.calls():
                    if found is None and any(a.get('k') in ('cp', 'mv') and ("'def': '%s'" % XB.path) in str(OB.origin(a)) for a in ot['args']):
                        recv = str(canon(OB, ot['args'][0])) + ' ' + ' '.join(str(x) for x in operand_chain_(OB, ot['args'][0]))
                        found = 'negotiated' if 'negotiated_flags' in recv else ('configured' if 'config' in recv else 'other')
            resolved.append(found or 'other')
        if resolved and all(r == 'negotiated' for r in resolved):
            ctx.ok('C07.3-frame-layout', 'mode-selection', 'pass-through unless the negotiated flags contain DIST_HDR_ATOM_CACHE (%d test site(s))' % len(resolved), ctx.where(B))
        else:
            ctx.bad('C07.3-frame-layout', 'mode-selection', 'framing mode is not selected by a test of DIST_HDR_ATOM_CACHE on the negotiated flags (test sites found: %s)' % (resolved or 'none'), ctx.where(B),
                    key='PROV:%ssend_control_message:mode-selection' % CONN)

        # ... and the right way round: pass-through frames exactly when the header mode was NOT negotiated
        from ..wire import prim_of as _prim7, _val as _val7
        marks = set(bb for bb, t in B.calls() if _prim7(t) is not None and _prim7(t)[0] == 'w' and len(t['args']) > 1 and _val7(B, t['args'][1]) == 112)
        decided = False
        for sw in sorted(B.live_blocks()):
            e = B.switch_bool_edges(sw)
            if not e or not marks:
                continue
            rt, rf = B.reachable(e[1]), B.reachable(e[2])
            in_t, in_f = bool(marks & rt), bool(marks & rf)
            if in_t == in_f:
                continue
            try:
                vals = {sc: _ev_src(P, B, e[0], sc, 0) for sc in (('some', True), ('some', False), ('none', False))}
            except _Unknown as ex:
                continue
            decided = True
            pt = {sc: (v if in_t else not v) for sc, v in vals.items()}
            # (what happens when nothing was negotiated is immaterial: the state gate fails every operation before the handshake)
            want = {('some', True): False, ('some', False): True}
            wrong = [sc for sc in want if pt[sc] != want[sc]]
            if wrong:
                ctx.bad('C07.3-frame-layout', 'mode-polarity', 'the pass-through frame (marker 112) is written when %s, the distribution-header frame otherwise: the two modes are exchanged'
                        % ' / '.join('the negotiated flags %s DIST_HDR_ATOM_CACHE' % ('contain' if sc[1] else 'lack') if sc[0] == 'some' else 'nothing was negotiated' for sc in want if pt[sc]),
                        ctx.where(B, sw), key='PROV:%ssend_control_message:mode-polarity' % CONN)
            else:
                ctx.ok('C07.3-frame-layout', 'mode-polarity', 'marker 112 is written iff DIST_HDR_ATOM_CACHE was not negotiated (evaluated for flag present / absent)', ctx.where(B, sw))
            break
        if not decided:
            ctx.undecided('C07.3-frame-layout', 'mode-polarity', 'the condition that selects the framing mode could not be evaluated', ctx.where(B))

    # ---------------- clause 4: atomicity under concurrency ----------------------------------------------------------
    ctx.rule('C07.4-exclusive-writer', 'the write half is reachable only through &mut Connection, connections are shared as Arc<tokio::sync::Mutex<Connection>>, and every Node operation holds the guard across the awaited send', floor=8)
    adt = ctx.F.adts.get('edp_client::connection::Connection')
    if ctx.anchor(adt is not None, 'edp_client::connection::Connection'):
        f = {x['n']: x for x in adt['variants'][0]['fields']}
        if f.get('transport', {}).get('vis') != 'pub':
            ctx.ok('C07.4-exclusive-writer', 'transport-private', 'Connection.transport visibility %s' % f['transport']['vis'])
        else:
            ctx.bad('C07.4-exclusive-writer', 'transport-private', 'Connection.transport is public', key='WHO:Connection.transport:public')
    for op in list(OPS) + ['send_raw', 'send_control_message']:
        sig = ctx.F.fns.get(CONN + op)
        if sig is None:
            continue
        if sig['inputs'] and sig['inputs'][0].startswith('&mut '):
            ctx.ok('C07.4-exclusive-writer', op + ':&mut self', 'takes &mut self')
        else:
            ctx.bad('C07.4-exclusive-writer', op + ':&mut self', 'writing method takes %s' % sig['inputs'][:1], key='TYPE:%s%s:not-mut-self' % (CONN, op))
    nadt = ctx.F.adts.get('edp_node::node::Node')
    if ctx.anchor(nadt is not None, 'edp_node::node::Node'):
        ty = {x['n']: x['ty'] for x in nadt['variants'][0]['fields']}.get('connections', '')
        if 'alloc::sync::Arc<tokio::sync::mutex::Mutex<edp_client::connection::Connection>>' in ty:
            ctx.ok('C07.4-exclusive-writer', 'connections-type', ty)
        else:
            ctx.bad('C07.4-exclusive-writer', 'connections-type', 'Node.connections has type %s: senders are not serialised by an async mutex around the connection' % ty, key='TYPE:Node.connections')
    # no escape hatches on the shared connection
    bad_calls = []
    for Bn in P.all('edp_node'):
        for bb, t in Bn.calls():
            for n in callee_names(t):
                if (n.endswith('Arc::<T, A>::get_mut') or n.endswith('Arc::<T, A>::try_unwrap') or n.endswith('Mutex::<T>::get_mut') or n.endswith('Mutex::<T>::into_inner')
                        or n.endswith('Arc::<T>::get_mut') or n.endswith('Arc::<T>::try_unwrap')) and 'Connection' in ' '.join(t.get('aty') or []):
                    bad_calls.append((Bn.path, n))
    if bad_calls:
        ctx.bad('C07.4-exclusive-writer', 'no-escape', 'the shared connection is accessed around its mutex: %s' % bad_calls[:3], key='WHO:Node.connections:mutex-bypassed')
    else:
        ctx.ok('C07.4-exclusive-writer', 'no-escape', 'no Arc::get_mut / try_unwrap / Mutex::get_mut / into_inner on connections')
    # guard live across the awaited send in every Node operation
    for Bn in P.all('edp_node'):
        sends = [(bb, t) for bb, t in Bn.calls() if any(n.startswith(CONN) and n.rsplit('::', 1)[1] in (list(OPS) + ['send_raw']) for n in callee_names(t))]
        if not sends:
            continue
        locks = [bb for bb, t in Bn.calls() if any(n == 'tokio::sync::mutex::Mutex::<T>::lock' for n in callee_names(t))]
        # the guard comes out of the awaited lock future: track from the poll of that future
        polls = []
        for bb, t in Bn.calls():
            if callee_of(t)[0] == 'core::future::future::Future::poll':
                base, _ = unwrap(Bn.origin(t['args'][0]))
                if base is not None and base[0] == 'call' and base[2] in locks:
                    polls.append(bb)
        k = 0
        for sb, st in sends:
            k += 1
            inst = '%s:%s#%d' % (Bn.path.replace('edp_node::node::Node::', '').replace('::{closure#0}', ''), callee_names(st)[0].rsplit('::', 1)[1], k)
            # the send future must be awaited while a guard obtained from the lock is still held
            held = False
            for pb in polls:
                ags = awaited_guard_start(Bn, pb)
                if ags is None:
                    continue
                state_in, before = guard_flow(Bn, pb, start=ags[0], holders=[ags[1]])
                # find the poll of the send future
                for bb2, t2 in Bn.calls():
                    if callee_of(t2)[0] == 'core::future::future::Future::poll':
                        base2, _ = unwrap(Bn.origin(t2['args'][0]))
                        if base2 is not None and base2[0] == 'call' and base2[2] == sb and before.get(bb2):
                            held = True
            # the receiver of the send is the guard (DerefMut of the MutexGuard)
            rb = unwrap(Bn.origin(st['args'][0]))[0]
            from_guard = rb is not None and rb[0] == 'call' and bool(rb[1]) and rb[1].endswith('Mutex::<T>::lock')
            if held and from_guard:
                ctx.ok('C07.4-exclusive-writer', inst, 'send awaited while the connection guard is held', ctx.where(Bn, sb))
            else:
                ctx.bad('C07.4-exclusive-writer', inst, 'the connection mutex guard is not held across the awaited send (held=%s, receiver-from-guard=%s): frames of concurrent senders may interleave' % (held, from_guard),
                        ctx.where(Bn, sb), key='LOCK:%s:%s' % (Bn.path, callee_names(st)[0].rsplit('::', 1)[1]))

    ctx.rule('C07.3-complete-writes', 'a frame is written with complete-write primitives only (write_all, write_uN): no partial-write API whose continuation logic could cut or skip bytes of the frame', floor=6)
    from .c05 import write_discipline
    write_discipline(ctx, 'C07.3-complete-writes')

    # the length prefix is the real length
    ctx.rule('C07.3-prefix-not-truncated', 'the 4-byte length prefix of a frame is the length of what follows: no narrowing cast of a length in the send path without a guard (a frame too long for the prefix is refused)', floor=1)
    from ..families import check_casts
    SB = P.B(CONN + 'send_control_message::{closure#0}')
    if ctx.anchor(SB is not None, CONN + 'send_control_message'):
        before = len(ctx.records)
        n_c = check_casts(ctx, SB, 'C07.3-prefix-not-truncated', include_float=False)
        helpers = sorted({n for bb, t in SB.calls() for n in callee_names(t) if n.startswith('edp_client::connection::') and n in ctx.F.bodies and 'len' in n.rsplit('::', 1)[-1]})
        for h in helpers:
            check_casts(ctx, P.B(h), 'C07.3-prefix-not-truncated', include_float=False)
        if len(ctx.records) == before:
            ctx.ok('C07.3-prefix-not-truncated', 'send_control_message', 'no narrowing cast; lengths converted through %s' % ([h.rsplit('::', 1)[1] for h in helpers] or 'try_from'), ctx.where(SB))

    # ---------------- dependencies outside connection.rs -----------------------------------------------------------------
    # (a) "connected" must mean "the peer proved it knows the cookie": the state gate above is only as good as the place that sets Connected
    ctx.rule('C07.1-connected-means-verified', 'the Connected state that opens the send operations is entered only after the peer\'s digest was verified (rules C04.2-* re-run here): '
             'otherwise the gate lets frames out to a peer whose handshake never completed', floor=3)
    from ..order import SubCtx
    from . import c04
    c04.run(SubCtx(ctx, 'C07.1-connected-means-verified', 'handshake', allow=('C04.2-',)))
    # (b) with distribution headers the frame is written by erltf's header encoder: layout and LongAtoms bit as the format prescribes
    ctx.rule('C07.3-dist-header-frame', 'in distribution-header mode the frame body is produced by encode_with_dist_header_multi: header layout and the position of the LongAtoms flag follow the format '
             '(rules C14.1 / C14.2 re-run here)', floor=5)
    from . import c14
    c14.header_rules(SubCtx(ctx, 'C07.3-dist-header-frame', 'header'))
    # (c) the control tuple and the payload are written by erltf's term encoder: what it writes with a narrow width is guarded there
    ctx.rule('C07.2-term-encoder-sizes', 'control tuple and payload are serialised by the term encoder: every length / arity / count it writes with a narrower width is range-guarded or converted with try_from '
             '(rule C01.3 re-run here): otherwise an operation with an unusual argument (a long non-ASCII registered name ...) emits a malformed control tuple', floor=8)
    from .c01 import REVIEWED_CAST, reviewed_premises
    from ..etf import ENC as _ENC
    from ..families import check_casts as _cc
    for fn_ in sorted(q for q in ctx.F.bodies if q.startswith(_ENC) and ctx.F.bodies[q]['kind'] in ('Fn', 'Closure')):
        _cc(ctx, P.B(fn_), 'C07.2-term-encoder-sizes', include_float=False, reviewed=REVIEWED_CAST)
    reviewed_premises(ctx, 'C07.2-term-encoder-sizes')
    # ... and the payload is a well-formed term: what the encoder writes is what the format lays out (a fun's Size field included)
    ctx.rule('C07.2-payload-well-formed', 'the payload (and the control tuple) are terms as the format lays them out: per tag the encoder writes the layout the decoder reads, every element of a container goes through the encoder, '
             'and the Size of a fun is measured when the whole fun has been written (rules C01.2-writer-vs-reader, C01.2-elements-written, C01.2-fun-size-covers-all re-run): the frame is '
             '"control tuple, given payload, nothing else" only if an independent reader finds the term boundaries where the writer put them', floor=20)
    if type(ctx).__name__ != 'SubCtx':
        from . import c01 as _c01_07
        _c01_07.run(SubCtx(ctx, 'C07.2-payload-well-formed', 'c01', allow=('C01.2-writer-vs-reader', 'C01.2-elements-written', 'C01.2-fun-size-covers-all')))

    # the framing mode is picked by a flag test: the flag must sit on the protocol's bit
    from .c04 import flag_values
    flag_values(ctx, 'C07.3-flag-values')

    from ..families import check_error_swallow as _swallow
    ctx.rule('C07.2-errors-surface', 'in the functions of this property that can themselves report failure, the Result of one of the repository\'s own fallible functions is never turned into "nothing" or a default (ok(), unwrap_or*, map_or*): an error must surface as an error, not as a value the callee never produced; a rule about what must not be there (exercised on the fixture every run)', floor=0)
    _swallow(ctx, P, 'C07.2-errors-surface', ('edp_client::connection::Connection::send', 'edp_client::connection::Connection::link', 'edp_client::connection::Connection::unlink', 'edp_client::connection::Connection::monitor', 'edp_client::connection::Connection::demonitor', 'erltf::encoder::'))

    # an operation on a remote target succeeds only by sending its frame
    ctx.rule('C07.1-remote-success-means-sent', 'in Node::link / unlink / monitor / demonitor, on the branch for a target on another node, every Ok result is dominated by the call of the matching Connection operation: '
             'no local bookkeeping state (was there a link? is there a monitor?) decides whether the frame is written', floor=4)
    for op in ('link', 'unlink', 'monitor', 'demonitor'):
        NB = ctx.body('edp_node::node::Node::%s::{closure#0}' % op)
        if NB is None:
            continue
        sends = [bb for bb, t in NB.calls() if any(n == 'edp_client::connection::Connection::%s' % op for n in callee_names(t))]
        remote = None
        for sw in sorted(NB.live_blocks()):
            e = NB.switch_bool_edges(sw)
            if e and e[0][0] == 'call' and (callee_of(e[0][2])[0] or '').rsplit('::', 1)[-1] in ('eq', 'ne') and 'name' in str([canon(NB, a) for a in e[0][2]['args']]) and 'node' in str([canon(NB, a) for a in e[0][2]['args']]):
                last = (callee_of(e[0][2])[0] or '').rsplit('::', 1)[-1]
                remote = e[2] if last == 'eq' else e[1]
                break
        if not ctx.anchor(remote is not None and bool(sends), 'Node::%s: local/remote test and Connection::%s call' % (op, op)):
            continue
        reg = NB.reachable(remote)
        oks = [(bb, st) for bb, j, st in NB.stmts() if bb in reg and st['k'] == '=' and st['rv']['k'] == 'agg' and st['rv'].get('adt') == 'core::result::Result' and st['rv'].get('var') == 'Ok'
               and (st['pl']['l'] == 0 or 0 in NB.derived_locals([st['pl']['l']]))]
        # Ok sites that also belong to the local branch (a shared tail) are not the remote branch's own
        local_side = NB.reachable([x for x in NB.succ(sw) if x != remote][0]) if [x for x in NB.succ(sw) if x != remote] else set()
        oks = [(bb, st) for bb, st in oks if bb not in local_side]
        if not oks:
            ctx.undecided('C07.1-remote-success-means-sent', op, 'no Ok(..) construction found on the remote branch')
            continue
        for bb, st in oks:
            if any(NB.block_dominates(sb_, bb) for sb_ in sends):
                ctx.ok('C07.1-remote-success-means-sent', '%s:Ok' % op, 'dominated by Connection::%s' % op, ctx.where(NB, ln=st['ln']))
            else:
                ctx.bad('C07.1-remote-success-means-sent', '%s:Ok' % op, 'Node::%s reports success for a remote target on a path that never calls Connection::%s: the operation writes no frame' % (op, op),
                        ctx.where(NB, ln=st['ln']), key='DOM:edp_node::node::Node::%s:ok-without-send' % op)

    # arguments in node-local form go out as they came in, in both framing modes: the replay rules of C10 re-run
    ctx.rule('C07.2-node-local-arguments', 'pids, ports and references that arrived in node-local form are written back as LOCAL_EXT + their raw bytes by the encoder used for control tuples and payloads, '
             'with or without an atom-cache table (rules C10.2-replay and C10.2-single-writer re-run)', floor=3)
    from ..order import SubCtx as _Sub7
    from . import c10 as _c10
    _c10.run(_Sub7(ctx, 'C07.2-node-local-arguments', 'c10', allow=('C10.2-replay', 'C10.2-single-writer')))


_run_before_guard_rule = run


def run(ctx):
    _run_before_guard_rule(ctx)
    # "operations before the handshake completes fail without writing": the socket frames go to is the one the handshake ran on
    from .c04 import socket_after_guard
    socket_after_guard(ctx, 'C07.8-socket-after-state-guard')

    send_buffer_own(ctx, 'C07.9-frame-assembled-from-empty')


def _back_patched(B, flat, strip_conv, prim_of):
    """The frame assembled in ONE buffer X and written with one write: put_u32(0) as a place holder, the body, then
    X[..4] = (len(X) - 4).to_be_bytes() on every way to the write of X.  Returns the layout name of the body or None."""
    if len(flat) < 3 or flat[0][0] != 'u32' or strip_conv(str(flat[0][1])) not in ('0', '(0 as u32)'):
        return None
    X = flat[0][2]
    if flat[-1][0] != 'bytes' or str(flat[-1][1]) != X or flat[-1][2] == X or any(e[2] != X for e in flat[:-1]):
        return None
    # the patch: copy_from_slice(index_mut(X, ..4), to_be_bytes(len(X) - 4))
    patches = []
    for bb, t in B.calls():
        if bb not in B.live_blocks() or not any(n.endswith('::copy_from_slice') for n in callee_names(t)) or len(t['args']) < 2:
            continue
        dst = describe(B, canon(B, t['args'][0]))
        src = describe(B, canon(B, t['args'][1]))
        if src.startswith('(') and src.endswith(' as &[u8])'):
            src = src[1:-len(' as &[u8])')]
        m = re.fullmatch(r'to_be_bytes\((?P<v>.+)\)', src)
        if not (dst.startswith('index_mut(%s,' % X) and m and strip_conv(m.group('v')) == 'Sub(len(%s),4)' % X):
            continue
        o = B.origin(t['args'][0])
        rng_ok = False
        if o and o[0] == 'call':
            it = B.blocks[o[2]]['t']
            if len(it['args']) > 1:
                ro = B.origin(it['args'][1])
                if ro and ro[0] == 'agg' and 'RangeTo' in str(ro[1].get('adt', '')) + str(ro[1].get('ak', '')) + str(B.local_ty(it['args'][1].get('pl', {}).get('l', 0)) if isinstance(it['args'][1], dict) else ''):
                    ops = ro[1].get('ops') or []
                    rng_ok = len(ops) == 1 and canon(B, ops[0]) == ('const', 4)
        if rng_ok:
            patches.append(bb)
    writes = [bb for bb, t in B.calls() if bb in B.live_blocks() and prim_of(t) is not None and prim_of(t)[0] == 'w' and len(t['args']) > 1
              and describe(B, canon(B, t['args'][1])) == X and describe(B, canon(B, t['args'][0])) != X]
    if not patches or not writes or not all(any(B.block_dominates(p_, w_) for p_ in patches) for w_ in writes):
        return None
    mid = ' '.join('%s(%s)' % (e[0], e[1]) for e in flat[1:-1])
    if re.fullmatch(r'u8\(112\) bytes\(encode\([^ ]+\)\?\) bytes\(encode\([^ ]+\)\?\)', mid):
        return 'pt-ctl+payload'
    if re.fullmatch(r'u8\(112\) bytes\(encode\([^ ]+\)\?\)', mid):
        return 'pt-ctl'
    if re.fullmatch(r'bytes\(encode_with_dist_header_multi\(.+\)\?\)', mid):
        return 'hdr-ctl+payload'
    if re.fullmatch(r'bytes\(encode_with_dist_header\(.+\)\?\)', mid):
        return 'hdr-ctl'
    return None


def send_buffer_own(ctx, rule):
    """a frame is assembled in a buffer that is empty when assembly starts"""
    from ..core import receiver_root as _rr
    P = ctx.P
    ctx.rule(rule, 'an outgoing frame is put together in a buffer of the same call, or - when the buffer is a field that outlives the call - one that is emptied before the first byte of the frame goes in: '
             'emptying it only after a successful write leaves the half-built frame of a failed call in front of the next one', floor=1)
    APPEND = ('::put_u8', '::put_u16', '::put_u32', '::put_u64', '::put_slice', '::put', '::extend_from_slice', '::put_i32', '::put_bytes', '::push')
    EMPTY = ('::clear', '::split', '::split_to', '::truncate', '::take')
    n = 0
    for q in sorted(ctx.F.bodies):
        if not q.startswith('edp_client::connection::') or '::tests::' in q:
            continue
        DB = P.B(q)
        by_field = {}
        empt = {}
        for bb, t in DB.calls():
            if bb not in DB.live_blocks() or not t.get('args') or 'mut' not in ((t.get('aty') or [''])[0]):
                continue
            ty0 = (t.get('aty') or [''])[0]
            if not ('BytesMut' in ty0 or 'Vec<u8>' in ty0):
                continue
            names = callee_names(t)
            base, path_ = _rr(DB, t['args'][0])
            fld = tuple(str(x).replace('upvar:', '') for x in (path_ or ()))
            persistent = base is not None and base[0] == 'arg' and len(fld) >= 2 and fld[0] == 'self'
            if any(n_.endswith(APPEND) for n_ in names):
                if persistent:
                    by_field.setdefault(fld, []).append(bb)
                else:
                    n += 1
            if persistent and any(n_.endswith(EMPTY) for n_ in names):
                empt.setdefault(fld, []).append(bb)
        name = q.replace('edp_client::connection::', '').split('::{')[0]
        for fld, sites in sorted(by_field.items()):
            n += 1
            bad = [bb for bb in sites if not any(e != bb and DB.block_dominates(e, bb) for e in empt.get(fld, []))]
            if bad:
                ctx.bad(rule, '%s:%s' % (name, '.'.join(fld)), '%s appends frame bytes to %s, which outlives the call, without emptying it first on every way there: what an earlier call left behind '
                        '(an encode error after the length prefix was put, a failed write) goes out in front of this frame' % (name, '.'.join(fld)), ctx.where(DB, bad[0]), key='SHAPE:%s:%s-not-emptied-first' % (q.split('::{')[0], '.'.join(fld)))
            else:
                ctx.ok(rule, '%s:%s' % (name, '.'.join(fld)), 'emptied before the first append on every path', ctx.where(DB, sites[0]))
    if n:
        ctx.ok(rule, 'call-local', '%d append site(s) on buffers created in the same call' % n)
    else:
        ctx.ok(rule, 'none', 'no frame is assembled in a byte buffer here')
