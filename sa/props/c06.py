"""C06 — receiving delivers each peer message exactly once, in order, and survives junk.

PANIC on the receive path glue; CFG: a tick never reaches a return; CONST: wire-form
markers agree across files and with the format; PROV: per-connection cache and
assembler; error discipline: a decode error returns without touching the transport.
"""
from ..core import callee_of, callee_names, is_call_to, unwrap, receiver_root, fold
from ..families import check_panics, bodies_of_fn
from ..ranges import canon
from ..wire import _sccs

CONN = 'edp_client::connection::Connection::'
RECV = CONN + 'receive_message::{closure#0}'
RECV2 = CONN + 'receive_message_from_read_half::{closure#0}'
DCF = CONN + 'decode_complete_fragment'
MARKERS = {'VERSION': 131, 'VERSION_TAG': 131, 'DIST_HEADER': 68, 'DIST_FRAG_HEADER': 69, 'DIST_FRAG_CONT': 70, 'PASS_THROUGH': 112}



def payload_rules(ctx, RULE):
    P = ctx.P
    # the payload of a pass-through frame is whatever follows the control term: present exactly when bytes remain, and an
    # undecodable one is an error for that frame, not a message without payload
    ctx.rule(RULE, 'in both receive paths "no payload" (None) is answered only where the bytes left after the control term are known to be none (length 0 at that site), or where the whole frame was '
             'decoded as one term; and the result of decoding the payload is propagated with `?`, never turned into None/default by ok() / unwrap_or*', floor=2)
    from ..ranges import Ranges as _Rg, canon as _cn6
    n_pl = 0
    for fn in (CONN + 'receive_message', CONN + 'receive_message_from_read_half'):
        for RB in bodies_of_fn(P, fn):
            if RB.b['kind'] != 'Closure' or not any(blk['t']['k'] == 'yield' for blk in RB.blocks):
                continue
            Rr = None
            dwt = [(bb, t) for bb, t in RB.calls() if (callee_of(t)[0] or '').endswith('decoder::decode_with_trailing')]
            whole = [(bb, t) for bb, t in RB.calls() if (callee_of(t)[0] or '') in ('erltf::decoder::decode', 'erltf::decode')]
            short = fn.rsplit('::', 1)[1]
            for bb, j, st in RB.stmts():
                if not (st['k'] == '=' and st['rv']['k'] == 'agg' and st['rv'].get('adt') == 'core::option::Option' and st['rv'].get('var') == 'None'):
                    continue
                ty = RB.local_ty(st['pl']['l'])
                if ty != 'core::option::Option<erltf::term::OwnedTerm>':
                    continue
                n_pl += 1
                Rr = Rr or _Rg(RB)
                inst = '%s:None#%d' % (short, n_pl)
                where = ctx.where(RB, ln=st['ln'])
                doms = [(db, dt) for db, dt in dwt if RB.block_dominates(db, bb) and db != bb]
                if doms:
                    facts = Rr.facts_at(bb)
                    zero = [k for k, v in facts.items() if isinstance(k, tuple) and k and k[0] == 'len' and 'decode_with_trailing' in str(k) and v == (0, 0)]
                    if zero:
                        ctx.ok(RULE, inst, 'the remainder after the control term has length 0 here', where)
                    else:
                        ctx.bad(RULE, inst, 'the frame is delivered without payload on a path where bytes may remain after the control term: a message the peer sent with a payload arrives as (control, None)',
                                where, key='PROV:%s:payload-dropped-with-bytes-remaining' % fn)
                elif any(RB.block_dominates(wb, bb) for wb, wt in whole):
                    ctx.ok(RULE, inst, 'the whole frame was decoded as a single term (trailing bytes are an error there)', where)
                else:
                    ctx.undecided(RULE, inst, 'None payload at a site whose relation to the frame bytes is not recognised', where)
            # the payload decode result is not swallowed
            for bb, t in RB.calls():
                nm = callee_of(t)[0] or ''
                if nm.rsplit('::', 1)[-1] in ('ok', 'unwrap_or', 'unwrap_or_default', 'unwrap_or_else', 'map_or', 'map_or_else', 'is_ok', 'is_err', 'err') and nm.startswith('core::result::Result') and t['args']:
                    o = RB.origin(t['args'][0])
                    if o and o[0] == 'call' and ('erltf::decoder::' in str(o[1]) or str(o[1]).endswith('ControlMessage::from_term')):
                        n_pl += 1
                        ctx.bad(RULE, '%s:%s' % (short, nm.rsplit('::', 1)[-1]), 'the result of %s is consumed by %s(): a decoding error becomes "nothing there" and the frame is delivered as if the peer had sent it that way'
                                % (str(o[1]).rsplit('::', 1)[-1], nm.rsplit('::', 1)[-1]), ctx.where(RB, bb), key='ERR:%s:decode-error-swallowed' % fn)
    ctx.anchor(n_pl >= 2, 'payload None sites in the receive paths')
    # what is decoded is the frame that was just read, no more: a buffer that outlives the frame keeps the tail of a longer earlier frame
    RULE2 = RULE.rsplit('-', 1)[0].split('.')[0] + '.4-decode-exactly-the-frame' if False else RULE + ':frame-extent'
    from ..families import operand_chain as _chain6
    from ..core import receiver_root as _root6
    for RB in bodies_of_fn(P, CONN + 'receive_message_from_read_half'):
        if RB.b['kind'] != 'Closure' or not any(blk['t']['k'] == 'yield' for blk in RB.blocks):
            continue
        reads = [(bb, t) for bb, t in RB.calls() if any(n.endswith('::read_exact') for n in callee_names(t))]
        body = [r for r in reads if any(RB.block_dominates(o[0], r[0]) and o[0] != r[0] for o in reads)]
        decs = [(bb, t) for bb, t in RB.calls() if (callee_of(t)[0] or '').endswith('decoder::decode_with_trailing')]
        if not body or not decs:
            ctx.undecided(RULE, 'frame-extent', 'body read / decode call not found in the split receive function')
            continue
        rb, rt = body[-1]
        buf_arg = rt['args'][-1]
        ch = _chain6(RB, buf_arg)
        root = _root6(RB, buf_arg)[0]
        fresh = root is not None and root[0] == 'call' and (str(root[1]).endswith('vec::from_elem') or str(root[1]).endswith('::with_capacity') or str(root[1]).endswith('Vec::<T>::new')) \
            and any(RB.block_dominates(lp[0], root[2]) for lp in reads if lp not in body)
        sub = [c_ for c_ in ch if str(c_).endswith('::index_mut') or str(c_).endswith('::index') or 'split_at' in str(c_) or 'get_mut' in str(c_)]
        where = ctx.where(RB, rb)
        if fresh and not sub:
            ctx.ok(RULE, 'frame-extent', 'the body is read into a vector created for this frame with the declared length; the decoder sees that vector', where)
        elif sub:
            # the read fills a part of a larger buffer: every decode input must be cut to the same end
            db, dt = decs[0]
            dch = ' '.join(str(x) for x in _chain6(RB, dt['args'][0])) + str(_cn6(RB, dt['args'][0]))
            bounded = False
            o = RB.origin(dt['args'][0])
            if o and o[0] == 'call' and str(o[1]).endswith('::index'):
                ro = RB.origin(RB.blocks[o[2]]['t']['args'][1])
                if ro[0] == 'agg' and ('Range' in str(ro[1].get('adt')) and 'RangeFrom' not in str(ro[1].get('adt'))):
                    bounded = True
            if bounded:
                ctx.ok(RULE, 'frame-extent', 'the read fills a prefix of a buffer and the decoder is given a slice with an upper bound', where)
            else:
                ctx.bad(RULE, 'frame-extent', 'the body is read into a part of a buffer (%s) but the decoder is handed the buffer from an offset to its END: bytes of an earlier, longer frame that lie behind the current one '
                        'are decoded as its payload' % ', '.join(str(x).rsplit('::', 1)[-1] for x in sub[:2]), where, key='PROV:%sreceive_message_from_read_half:decodes-beyond-the-frame' % CONN)
        else:
            ctx.bad(RULE, 'frame-extent', 'the body is read into a buffer that is not created for this frame (%s): its length need not be the declared length, so the decoder may see bytes that are not part of the frame'
                    % (root,), where, key='PROV:%sreceive_message_from_read_half:buffer-outlives-frame' % CONN)


def run(ctx):
    P = ctx.P
    # ---------------- clause 1: PANIC over the receive glue ---------------------------------------------
    ctx.rule('C06.1-no-panic', 'no indexing / slicing / arithmetic / unwrap in the receive path glue (receive_message, receive_message_from_read_half, decode_complete_fragment) can panic on a peer-supplied frame', floor=3)
    for p in (RECV, RECV2, DCF):
        B = ctx.body(p)
        if B is not None:
            check_panics(ctx, B, 'C06.1-no-panic')

    # ---------------- clause 2: a tick is never surfaced ----------------------------------------------------
    ctx.rule('C06.2-tick-skipped', 'in both receive loops the zero-length-frame edge leads back to the next read without passing a return', floor=2)
    for p, readname in ((RECV, CONN + 'read_message'), (RECV2, 'read_exact')):
        B = P.B(p)
        if B is None:
            continue
        reads = [bb for bb, t in B.calls() if any(n == readname or n.endswith('::' + readname) for n in callee_names(t))]
        if not ctx.anchor(bool(reads), p + ':' + readname):
            continue
        first_read = min(reads)
        found = False
        # The tick edge is found semantically: the first branch after the read on one of whose edges the interval analysis
        # knows the frame length to be 0 - whatever the test is spelt like (is_empty(), len() == 0, len() < 1, match 0 => ..).
        from ..ranges import Ranges
        R = Ranges(B)
        rn = readname.rsplit('::', 1)[-1]

        def is_frame_len(k_):
            txt = str(k_)
            return ('from_be_bytes' in txt and p == RECV2) or (isinstance(k_, tuple) and k_ and k_[0] == 'len' and rn in txt)
        cands = []
        # breadth-first from the read: the first branch found is the one closest to the read (the others lie behind it)
        from collections import deque
        order_, seen_, dq_ = [], {first_read}, deque([first_read])
        while dq_:
            x_ = dq_.popleft()
            order_.append(x_)
            for y_ in B.succ(x_):
                if y_ not in seen_:
                    seen_.add(y_)
                    dq_.append(y_)
        for bb in order_:
            if B.blocks[bb]['t']['k'] != 'switch':
                continue
            for s_ in B.succ(bb):
                if any(is_frame_len(k_) and v_ == (0, 0) for k_, v_ in R.facts_at(s_).items()) and not any(is_frame_len(k_) and v_ == (0, 0) for k_, v_ in R.facts_at(bb).items()):
                    cands.append((bb, s_))
            if cands:
                break
        if cands:
            found = True
            bb, tick_edge = cands[0]
            reach = B.reachable(tick_edge, removed_blocks=reads)
            rets = [r for r in B.return_blocks() if r in reach]
            inst = p.split('::')[-2]
            if rets:
                ctx.bad('C06.2-tick-skipped', inst, 'a zero-length frame (tick) can reach a return without another read: ticks are surfaced to the caller', ctx.where(B, bb),
                        key='CFG:%s:tick-returns' % p)
            elif any(r in B.reachable(tick_edge) for r in reads):
                ctx.ok('C06.2-tick-skipped', inst, 'the edge on which the frame length is 0 goes back to the read', ctx.where(B, bb))
            else:
                ctx.bad('C06.2-tick-skipped', inst, 'tick edge does not lead back to a read', ctx.where(B, bb), key='CFG:%s:tick-dead-end' % p)
        if found:
            continue
        for bb in sorted(B.live_blocks()):
            sb = B.switch_bool_edges(bb)
            if not sb:
                continue
            source, t_t, f_t = sb
            tick_edge = None
            if source[0] == 'call' and (callee_of(source[2])[0] or '').endswith('is_empty'):
                o = unwrap(B.origin(source[2]['args'][0]))[0]
                if o[0] == 'call' and o[2] in reads:
                    tick_edge = t_t
            if source[0] == 'bin' and source[2]['op'] == 'Eq' and fold(B.origin(source[2]['b'])) == 0:
                c = str(canon(B, source[2]['a']))
                if 'from_be_bytes' in c:
                    tick_edge = t_t
            if tick_edge is None:
                continue
            if found:
                continue      # later tests of the same frame are dominated by the first one's non-empty edge
            found = True
            # from the tick edge, can a return be reached without passing a read?
            reach = B.reachable(tick_edge, removed_blocks=reads)
            rets = [r for r in B.return_blocks() if r in reach]
            inst = p.split('::')[-2]
            if rets:
                ctx.bad('C06.2-tick-skipped', inst, 'a zero-length frame (tick) can reach a return without another read: ticks are surfaced to the caller', ctx.where(B, bb),
                        key='CFG:%s:tick-returns' % p)
            elif any(r in B.reachable(tick_edge) for r in reads):
                ctx.ok('C06.2-tick-skipped', inst, 'tick edge goes back to the read', ctx.where(B, bb))
            else:
                ctx.bad('C06.2-tick-skipped', inst, 'tick edge does not lead back to a read', ctx.where(B, bb), key='CFG:%s:tick-dead-end' % p)
        if not found:
            ctx.bad('C06.2-tick-skipped', p.split('::')[-2], 'no zero-length (tick) test found on the freshly read frame: an empty frame is handed to the decoder and fails', ctx.where(B),
                    key='CFG:%s:no-tick-test' % p)

    # ---------------- clause 3: markers -----------------------------------------------------------------------
    ctx.rule('C06.3-markers', 'the wire-form markers (131 version, 68 header, 69 first fragment, 70 continuation, 112 pass-through) have the same value in connection.rs, fragmentation.rs, erltf::tags and the format; each form has a branch in receive_message', floor=9)
    for path, c in sorted(ctx.F.consts.items()):
        name = path.rsplit('::', 1)[1]
        if name in MARKERS and (path.startswith('edp_client::connection::') or path.startswith('edp_client::fragmentation::') or path.startswith('erltf::tags::')):
            if c.get('v') == MARKERS[name]:
                ctx.ok('C06.3-markers', path, '= %d' % c['v'])
            else:
                ctx.bad('C06.3-markers', path, '%s = %s, the format says %d' % (name, c.get('v'), MARKERS[name]), key='CONST:%s' % path)
    B = P.B(RECV)
    if B is not None:
        cmp_consts = set()
        for bb, j, st in B.stmts():
            if st['k'] == '=' and st['rv']['k'] == 'bin' and st['rv']['op'] in ('Eq', 'Ne') and st['rv'].get('ty') == 'u8':
                for o in (st['rv']['a'], st['rv']['b']):
                    v = fold(B.origin(o))
                    if v is not None:
                        cmp_consts.add(v)
        # a slice pattern (`[131, 69, ..] =>`) tests the same bytes with a switch on the byte instead of ==
        for bb in sorted(B.live_blocks()):
            t_ = B.blocks[bb]['t']
            if t_['k'] == 'switch' and t_.get('dty') == 'u8':
                cmp_consts |= {v for v, _ in t_['cases'] if isinstance(v, int)}
        # `tag == Some(68)` / `data.first() == Some(&112)`: the byte is compared inside an Option
        for bb, t_ in B.calls():
            if any(n_.endswith('PartialEq::eq') or n_.endswith('PartialEq::ne') for n_ in callee_names(t_)) and all('Option<u8>' in a_ or 'Option<&u8>' in a_ for a_ in (t_.get('aty') or ['']) [:2]):
                for a_ in t_['args'][:2]:
                    o_ = B.origin(a_)
                    if o_[0] == 'agg' and o_[1].get('var') == 'Some' and o_[1].get('ops'):
                        v_ = fold(B.origin(o_[1]['ops'][0]))
                        if v_ is not None:
                            cmp_consts.add(v_)
        need = {69: 'first fragment', 70: 'continuation', 112: 'pass-through', 68: 'distribution header'}
        for v, nm in need.items():
            if v in cmp_consts:
                ctx.ok('C06.3-markers', 'branch:%d' % v, '%s form is recognised' % nm)
            else:
                ctx.bad('C06.3-markers', 'branch:%d' % v, 'receive_message has no branch testing marker %d (%s)' % (v, nm), ctx.where(B), key='TABLE:%s:no-branch:%d' % (RECV, v))
    # the continuation decoder tests the right tag
    DB = P.B('erltf::decoder::decode_fragment_cont')
    if DB is not None:
        consts = set()
        for bb, j, st in DB.stmts():
            if st['k'] == '=' and st['rv']['k'] == 'bin' and st['rv']['op'] in ('Eq', 'Ne'):
                for o in (st['rv']['a'], st['rv']['b']):
                    v = fold(DB.origin(o))
                    if v is not None:
                        consts.add(v)
        if 70 in consts and 131 in consts:
            ctx.ok('C06.3-markers', 'decode_fragment_cont', 'checks 131 and 70')
        else:
            ctx.bad('C06.3-markers', 'decode_fragment_cont', 'continuation decoder compares against %s (expected 131 and 70)' % sorted(consts), ctx.where(DB), key='CONST:decode_fragment_cont')

    # ---------------- clause 4: per-connection assembler ----------------------------------------------------------
    ctx.rule('C06.4-own-assembler', 'fragments are fed to the connection\'s own assembler (state kept across frames)', floor=2)
    if B is not None:
        for bb, t in B.calls():
            for m in ('start_fragment', 'add_fragment'):
                if is_call_to(t, 'edp_client::fragmentation::FragmentAssembler::' + m):
                    base, projs = unwrap(B.origin(t['args'][0]))
                    names = [x for x in projs if isinstance(x, str)]
                    if 'fragment_assembler' in names:
                        ctx.ok('C06.4-own-assembler', m, 'self.fragment_assembler', ctx.where(B, bb))
                    else:
                        ctx.bad('C06.4-own-assembler', m, 'fragment handed to %s %s instead of self.fragment_assembler' % (base[:2], names), ctx.where(B, bb),
                                key='PROV:%s:%s:assembler' % (RECV, m))

    # ---------------- clause 5: error discipline ---------------------------------------------------------------------
    ctx.rule('C06.5-bad-frame-isolated', 'decoders receive the bytes of a frame that was already read completely (never the stream), and a decode error returns without another read: a bad frame cannot desynchronise framing', floor=4)
    for p in (RECV, RECV2):
        B = P.B(p)
        if B is None:
            continue
        reads = [bb for bb, t in B.calls() if any(n.endswith('read_message') or n.endswith('read_exact') for n in callee_names(t))]
        k = 0
        for bb, t in B.calls():
            names = callee_names(t)
            if not any(n.startswith('erltf::decoder::decode') or n == 'edp_client::control::ControlMessage::from_term' for n in names):
                continue
            k += 1
            inst = '%s:%s#%d' % (p.split('::')[-2], names[0].rsplit('::', 1)[1], k)
            # argument types: slices / terms, never the socket
            tys = ' '.join(t.get('aty') or [])
            if 'OwnedReadHalf' in tys or 'TcpStream' in tys or 'FramedTransport' in tys:
                ctx.bad('C06.5-bad-frame-isolated', inst, 'a decoder is handed the stream itself', ctx.where(B, bb), key='TYPE:%s:decoder-gets-stream' % p)
                continue
            # error edge: the `?` residual block reachable from this call returns without passing a read
            okd = True
            for b2, t2 in B.calls():
                if callee_of(t2)[0] == 'core::ops::try_trait::FromResidual::from_residual' and t2['dst']['l'] == 0:
                    src = str(B.origin(t2['args'][0]))
                    if ("', %d," % bb) in src or (', %d, ' % bb) in src:
                        r = B.reachable(b2)
                        if any(x in r for x in reads):
                            okd = False
            if okd:
                ctx.ok('C06.5-bad-frame-isolated', inst, 'operates on the frame bytes; its error edge returns without reading', ctx.where(B, bb))
            else:
                ctx.bad('C06.5-bad-frame-isolated', inst, 'after a decode error the function reads from the transport again before returning', ctx.where(B, bb),
                        key='CFG:%s:read-after-decode-error' % p)

    # ---------------- clause 6: nothing read ahead is thrown away ----------------------------------------------------
    ctx.rule('C06.6-reader-identity', 'every socket read on the receive path is issued on the connection\'s own reader (a parameter or a field of self), never on a buffering adaptor '
             'created per call: bytes such an adaptor reads beyond the current frame would be dropped with it, i.e. the next message lost', floor=4)
    from .c05 import read_calls, reader_identity, READ_FILES, write_discipline
    for B in P.all('edp_client'):
        if B.b['file'] not in READ_FILES:
            continue
        seen = {}
        for bb, t, m in read_calls(B):
            k = seen.get(m, 0) + 1
            seen[m] = k
            reader_identity(ctx, 'C06.6-reader-identity', B, bb, t, m, '%s:%s%s' % (B.path, m, '' if k == 1 else '#%d' % k))

    ctx.rule('C06.6-no-unwrapped-buffer', 'no buffering adaptor around the socket is unwrapped on the receive path (bytes it already holds - the next message - would be lost); writes are complete-write primitives', floor=6)
    write_discipline(ctx, 'C06.6-no-unwrapped-buffer')

    # ---------------- dependencies outside connection.rs -----------------------------------------------------------------
    # "every later frame is still delivered intact" with an atom cache: what one message adds to the cache must be there for the next
    from .c14 import cache_threading
    cache_threading(ctx, 'C06.7-cache-kept-across-frames')
    # fragments: the assembler rules that "exactly once, intact" of a fragmented message rests on (C09 re-run)
    ctx.rule('C06.9-fragment-assembly', 'fragmented messages are reassembled by the connection\'s FragmentAssembler: its rules (duplicates never count, completion consumes, own key, no bulk discard, header data kept, '
             'constructor timeout ...) re-run here', floor=20)
    from . import c09
    from ..order import SubCtx as _Sub
    c09.run(_Sub(ctx, 'C06.9-fragment-assembly', 'assembler'))
    # "control message ... equal to what the peer sent": the tuple -> ControlMessage table used on the receive path
    ctx.rule('C06.8-control-parse-table', 'the receive path turns the control tuple into a ControlMessage with ControlMessage::from_term / ControlMessageType::try_from: '
             'per tag the arity and the field positions are the protocol\'s (rules C08.1-tryfrom and C08.2-* re-run here)', floor=90)
    from ..order import SubCtx
    from . import c08
    c08.run(SubCtx(ctx, 'C06.8-control-parse-table', 'control', allow=('C08.1-tryfrom', 'C08.2-')))

    # dependency: Atom::new
    ctx.rule('C06.8-atom-interning', 'atoms of the control message and payload are created with Atom::new while decoding: its interning tables agree entry by entry ("equal to what the peer sent")', floor=1)
    from ..etf import check_atom_tables
    check_atom_tables(ctx, 'C06.8-atom-interning')

    # distribution-header frames are read by erltf's header reader: its layout / LongAtoms rules (C14.1, C14.2) and the atom-position rule
    ctx.rule('C06.7-dist-header-reader', 'a conforming DIST_HEADER frame is read as the format prescribes (flag bytes, LongAtoms bit by parity of the reference count, entries): rules C14.1 / C14.2 re-run here', floor=5)
    from . import c14 as _c14
    _c14.header_rules(SubCtx(ctx, 'C06.7-dist-header-reader', 'header'))

    payload_rules(ctx, 'C06.4-payload-iff-bytes-remain')

    from ..families import check_error_swallow as _swallow
    ctx.rule('C06.4-errors-surface', 'in the functions of this property that can themselves report failure, the Result of one of the repository\'s own fallible functions is never turned into "nothing" or a default (ok(), unwrap_or*, map_or*): an error must surface as an error, not as a value the callee never produced; a rule about what must not be there (exercised on the fixture every run)', floor=0)
    _swallow(ctx, P, 'C06.4-errors-surface', ('edp_client::connection::Connection::receive', 'edp_client::connection::Connection::read_message', 'edp_client::fragmentation::', 'erltf::decoder::decode_with_atom_cache', 'erltf::decoder::decode_fragment'))

    from .c05 import transport_rules as _tr6
    _tr6(ctx, 'C06.5-transport-discipline')

    # "never panics the task": the fragment-frame decoders of erltf run on peer bytes before anything else looks at them
    ctx.rule('C06.1-fragment-decoders-total', 'decode_fragment_header / decode_fragment_cont (and helpers inlined into them) have no undischarged panic-capable site: a truncated fragment frame is an error, not a panic', floor=1)
    n_fd = 0
    for fn_ in ('erltf::decoder::decode_fragment_header', 'erltf::decoder::decode_fragment_cont'):
        for FB_ in bodies_of_fn(P, fn_):
            n_fd += check_panics(ctx, FB_, 'C06.1-fragment-decoders-total')
            ctx.ok('C06.1-fragment-decoders-total', FB_.path, 'every panic-capable site of the body is discharged (%d blocks examined)' % len(FB_.blocks))
    ctx.anchor(P.B('erltf::decoder::decode_fragment_header') is not None, 'erltf::decoder::decode_fragment_header')

    # "every later frame is still delivered": through a Node the frames are read by the receiver task, which has to go on after an error that concerns one frame
    ctx.rule('C06.4-receiver-goes-on', 'the node\'s receiver loop continues on every kind of error the receive function raises after a whole frame was consumed (decode, control-parse and marker errors) and '
             'stops only where the stream is lost (rules C19.3-exit-classification and C19.3-sync-after-error re-run): a frame-local error that ends the loop loses every later frame of that peer', floor=4)
    from ..order import SubCtx as _Sub06
    from . import c19 as _c19_06
    if type(ctx).__name__ != 'SubCtx':
        _c19_06.run(_Sub06(ctx, 'C06.4-receiver-goes-on', 'c19', allow=('C19.3-exit-classification', 'C19.3-sync-after-error')))


_run_before_teardown_rule = run


def run(ctx):
    _run_before_teardown_rule(ctx)
    teardown_owners(ctx, 'C06.8-teardown-only-on-close')


def teardown_owners(ctx, rule):
    """who may drop the socket halves / reset the handshake state of a connection"""
    P = ctx.P
    ctx.rule(rule, 'the connection gives up its socket and its handshake state only in close(): no read or write wrapper does so on an error of the transport - '
             'a read that timed out at a frame boundary has consumed nothing, the caller simply reads again, and every frame the peer sends afterwards must still be delivered', floor=1)
    OWNED = ('edp_client::transport::FramedTransport::close', 'edp_client::state_machine::HandshakeStateMachine::disconnect')
    # (connect: giving up the socket of a handshake that failed concerns a connection that was never up)
    OWNERS = ('edp_client::connection::Connection::close', 'edp_client::connection::Connection::disconnect', 'edp_client::connection::Connection::connect', '<edp_client::connection::Connection as core::ops::Drop>::drop')
    n = 0
    for q in sorted(ctx.F.bodies):
        if not q.startswith(('edp_client::connection::', '<edp_client::connection::')) or '::tests::' in q or ctx.F.bodies[q]['kind'] not in ('Fn', 'AssocFn', 'Closure'):
            continue
        DB = P.B(q)
        host = q.split('::{')[0]
        for bb, t in DB.calls():
            if bb not in DB.live_blocks():
                continue
            for nm in callee_names(t):
                if nm in OWNED:
                    n += 1
                    short = '::'.join(nm.rsplit('::', 2)[1:])
                    if host in OWNERS:
                        ctx.ok(rule, '%s<-%s' % (short, host.rsplit('::', 1)[1]), 'called from %s' % host.rsplit('::', 1)[1], ctx.where(DB, bb))
                    else:
                        ctx.bad(rule, '%s<-%s' % (short, host.rsplit('::', 1)[1]), '%s calls %s: a transport error (an idle timeout among them) now costs the socket and the connected state, '
                                'and whatever the peer sends afterwards is never delivered' % (host.rsplit('::', 1)[1], short), ctx.where(DB, bb), key='WHO:%s:calls-%s' % (host, short))
    if n == 0:
        ctx.ok(rule, 'none', 'nothing tears the connection down')
