"""C03 — every valid external encoding of a value decodes to exactly that value.

TABLE: tags dispatched by the owned decoder vs the format table; WIRE: the layout
read for each tag vs the format table; Latin-1 path rule for the legacy atom tags;
DOM: trailing-data test before Ok in the single-term entry points and for nested
buffers; CAST over the decoder.
"""
from ..core import callee_of, callee_names, is_call_to, unwrap, dominating_edges
from ..ranges import Ranges, canon
from ..families import check_casts, bodies_of_fn, describe
from ..wire import fmt_sig, error_blocks
from ..etf import load_spec, dispatch_table, DEC, OWNED, BORROWED


def _ascii_guarded(PB, bb):
    """is block bb dominated by the true edge of an is_ascii() test?"""
    for (src, vals, dst) in dominating_edges(PB, bb):
        sb = PB.switch_bool_edges(src)
        if sb and sb[0][0] == 'call' and (callee_of(sb[0][2])[0] or '').endswith('::is_ascii') and dst == sb[1]:
            return True
    return False


def _remainder_empty_at(ctx, FB, bb, only_call=None):
    """Is the unconsumed input of the parser call that last precedes block bb known to have length 0 at bb
    (whatever form the test takes: is_empty(), len() == 0, a slice pattern ...)?  Returns a description or None."""
    from ..etf import is_parser_sig
    calls = []
    for cb, t in FB.calls():
        if any(n.startswith(DEC) and is_parser_sig(ctx.F.fns.get(n)) for n in callee_names(t)) and FB.block_dominates(cb, bb):
            calls.append(cb)
    if only_call is not None:
        calls = [c for c in calls if c == only_call]
    if not calls:
        return None
    last = [c for c in calls if not any(c != d and FB.block_dominates(c, d) for d in calls)]
    R = Ranges(FB)
    facts = R.facts_at(bb)
    for k, v in facts.items():
        if isinstance(k, tuple) and k and k[0] == 'len' and v == (0, 0):
            txt = str(k)
            inner = k[1]
            first_component = isinstance(inner, tuple) and inner and inner[0] == 'place' and inner[2] and inner[2][-1] == '0'
            if first_component and any((", %d)" % c) in txt for c in last):
                return 'len(remainder of the call at bb%d) = 0' % last[0]
    return None


def _parser_result_returned(ctx, FB):
    """A definition of the function's result that is not built here (no Ok(..)/Err(..) literal, no `?`) but handed on from a parser call
    through adaptors that cannot test anything (`parse_x(..).map(|(_, t)| t).map_err(..)`, unwrapped from an Option on the way): the block of
    that parser call, or None."""
    from ..etf import is_parser_sig
    live = FB.live_blocks()
    todo, seen = list(FB.ret_sources()), set()
    while todo and len(seen) < 64:
        l = todo.pop()
        if l in seen:
            continue
        seen.add(l)
        for d in FB.defs().get(l, []):
            if d[1] not in live:
                continue
            if d[0] == 's':
                rv = d[3]['rv']
                if rv['k'] == 'agg' and rv.get('var') in ('Ok', 'Err'):
                    continue
                if rv['k'] == 'use' and rv['op'].get('k') in ('cp', 'mv'):
                    todo.append(rv['op']['pl']['l'])
                elif rv['k'] == 'agg' and rv.get('var') == 'Some':
                    todo.extend(l2 for o in rv.get('ops') or [] for l2 in FB._op_locals(o))
                continue
            t = d[3] if len(d) > 3 else d[2]
            names = callee_names(t)
            if any(n.endswith('FromResidual::from_residual') for n in names):
                continue
            if any(n.startswith(DEC) and is_parser_sig(ctx.F.fns.get(n)) for n in names):
                return d[1]
            if any(n.startswith('core::result::Result::<T, E>::') or n.startswith('core::option::Option::<T>::') for n in names) and t['args']:
                todo.extend(FB._op_locals(t['args'][0]))
    return None


def run(ctx):
    P = ctx.P
    spec = load_spec()
    by_tag = {r['tag']: r for r in spec['tags']}
    table, B = dispatch_table(ctx, DEC + 'parse_term_from_tag', OWNED)
    if table is None:
        return
    # ---------------- clause 1: tag coverage ------------------------------------------------
    ctx.rule('C03.1-tags-covered', 'every tag of the External Term Format that an OTP 26+ peer may emit, and every legacy tag the format defines, is dispatched to a parser', floor=31)
    ctx.rule('C03.1-no-alien-tags', 'every dispatched tag exists in the format', floor=30)
    for r in spec['tags']:
        t = r['tag']
        ent = table.get(t)
        if ent is None or ent['error_arm']:
            sev = 'emitted by current OTP releases' if r['otp26_emits'] else 'legacy'
            ctx.bad('C03.1-tags-covered', '%d %s' % (t, r['name']), 'tag %d (%s, %s) is %s: every term using it is rejected' % (
                t, r['name'], sev, 'not dispatched' if ent is None else 'dispatched to an error arm'), ctx.where(B), key='TABLE:%sparse_term_from_tag:missing:%d' % (DEC, t))
        else:
            ctx.ok('C03.1-tags-covered', '%d %s' % (t, r['name']), '-> %s' % (ent['parser'] or 'inline arm'), ctx.where(B, ent['bb']))
    for t, ent in sorted(table.items()):
        if t in by_tag:
            ctx.ok('C03.1-no-alien-tags', str(t), by_tag[t]['name'])
        elif str(t) in spec['not_terms']:
            if ent['error_arm']:
                ctx.ok('C03.1-no-alien-tags', str(t), '%s is not a term tag and is rejected explicitly' % spec['not_terms'][str(t)])
            else:
                ctx.bad('C03.1-no-alien-tags', str(t), '%s accepted as a term tag' % spec['not_terms'][str(t)], ctx.where(B, ent['bb']),
                        key='TABLE:%sparse_term_from_tag:alien:%d' % (DEC, t))
        else:
            ctx.bad('C03.1-no-alien-tags', str(t), 'tag %d is not defined by the External Term Format' % t, ctx.where(B, ent['bb']),
                    key='TABLE:%sparse_term_from_tag:alien:%d' % (DEC, t))

    # ---------------- clause 2: layout per tag -------------------------------------------------
    ctx.rule('C03.2-layout', 'the byte layout read for each dispatched tag equals the format\'s layout (widths, order, which field counts which repetition / byte run)', floor=29)
    ctx.rule('C03.2-variant', 'each tag constructs a term of the value kind the format assigns to it', floor=25)
    for t, ent in sorted(table.items()):
        r = by_tag.get(t)
        if r is None or ent['error_arm']:
            continue
        got = sorted(fmt_sig(s) for s in ent['sigs'])
        inst = '%d %s' % (t, r['name'])
        where = ctx.where(P.B(ent['parser'])) if ent['parser'] else ctx.where(B, ent['bb'])
        if len(got) == 1 and got[0] == r['layout']:
            ctx.ok('C03.2-layout', inst, got[0] or '(nothing)', where)
        elif len(got) == 1 and _same_modulo_refs(got[0], r['layout']):
            ctx.undecided('C03.2-layout', inst, 'widths agree with the format but a length/count reference was not resolved: read `%s`, format `%s`' % (got[0], r['layout']), where)
        else:
            ctx.bad('C03.2-layout', inst, 'reads `%s` after the tag, the format has `%s`' % (' | '.join(got), r['layout']), where,
                    key='WIRE:%s:layout' % (ent['parser'] or ('%sparse_term_from_tag:arm:%d' % (DEC, t))))
        want = set(r['variants'])
        if '*' in want:
            continue
        vs = {v for v in ent['variants']}
        if vs and vs <= want:
            ctx.ok('C03.2-variant', inst, 'constructs %s' % sorted(vs), where)
        elif not vs:
            ctx.undecided('C03.2-variant', inst, 'no OwnedTerm construction recognised', where)
        else:
            ctx.bad('C03.2-variant', inst, 'constructs %s, the format assigns %s' % (sorted(vs), sorted(want)), where,
                    key='TABLE:%s:variant' % (ent['parser'] or str(t)))

    # ---------------- clause 2b: field order -------------------------------------------------------
    ctx.rule('C03.2-field-order', 'same-width fields are not transposed: the k-th value read flows into the k-th parameter of the identifier/fun constructor, and constructors store each parameter in the field of the same name', floor=12)
    field_order(ctx, [ent['parser'] for t, ent in sorted(table.items()) if ent['parser']])
    constructors_identity(ctx)

    # ---------------- clause 3: Latin-1 atoms ---------------------------------------------------
    ctx.rule('C03.3-latin1', 'the legacy atom tags carry Latin-1 text: their parsers must have a success path that does not validate the raw bytes as UTF-8', floor=2)
    for t in spec['latin1_tags']:
        ent = table.get(t)
        if ent is None or ent.get('error_arm'):
            continue
        # the parser of the tag, or - when it was folded into the dispatcher - the dispatcher's arm
        PB = P.B(ent['parser']) if ent['parser'] else ent.get('host')
        region = None if ent['parser'] else ent.get('blocks')
        if PB is None:
            continue
        if not ent['parser']:
            ent = dict(ent, parser='%s:arm:%d' % (PB.path, t))
        inst = '%d %s' % (t, by_tag[t]['name'])
        err = error_blocks(PB)
        utf8_calls = [bb for bb, tt in PB.calls() if (region is None or bb in region) and any(n in ('core::str::converts::from_utf8', 'core::str::from_utf8', 'alloc::string::String::from_utf8',
                                                             'core::str::<impl str>::from_utf8') or n.endswith('::from_utf8') for n in callee_names(tt))]
        if not utf8_calls:
            ctx.ok('C03.3-latin1', inst, 'no UTF-8 validation of the raw atom bytes', ctx.where(PB))
            continue
        # is there a success path avoiding every from_utf8 on the raw bytes?
        rets = [bb for bb in PB.return_blocks()]
        reach = PB.reachable(0 if region is None else table[t]['bb'], removed_blocks=set(utf8_calls) | err)
        oks = [bb for bb, j, st in PB.stmts() if (region is None or bb in region) and st['k'] == '=' and PB.is_ret_slot(st['pl']['l']) and st['rv']['k'] == 'agg' and st['rv'].get('var') == 'Ok']
        unguarded = [bb for bb in utf8_calls if not _ascii_guarded(PB, bb)]
        if unguarded:
            ctx.bad('C03.3-latin1', inst, '%s reads the raw bytes of a Latin-1 atom as UTF-8 without having established that they are ASCII: bytes >= 0x80 that happen to form a valid UTF-8 sequence '
                    '(0xC3 0xA9) become one character instead of two' % ent['parser'].rsplit('::', 1)[1], ctx.where(PB, unguarded[0]), key='SHAPE:%s:latin1-as-utf8' % ent['parser'])
        elif any(b in reach for b in oks):
            ctx.ok('C03.3-latin1', inst, 'from_utf8 only under is_ascii(); a success path exists that does not go through it', ctx.where(PB))
        else:
            ctx.bad('C03.3-latin1', inst, 'every success path of %s validates the raw bytes with str::from_utf8: a Latin-1 atom containing a byte >= 0x80 (e.g. 0xE9) is rejected' % ent['parser'].rsplit('::', 1)[1],
                    ctx.where(PB, utf8_calls[0]), key='SHAPE:%s:latin1-as-utf8' % ent['parser'])

    # ---------------- clause 4: trailing data ---------------------------------------------------------
    ctx.rule('C03.4-trailing-data', 'in every single-term entry point the Ok return is dominated by the remaining.is_empty() test; no parser discards the remainder of a nested buffer', floor=5)
    for fn in ('decode', 'decode_raw_term', 'decode_with_atom_cache', 'decode_borrowed'):
        FB = ctx.body(DEC + fn)
        if FB is None:
            continue
        oks = [(bb, st) for bb, j, st in FB.stmts() if st['k'] == '=' and FB.is_ret_slot(st['pl']['l']) and st['rv']['k'] == 'agg' and st['rv'].get('var') == 'Ok']
        ctx.anchor(len(oks) >= 1, DEC + fn + ':Ok return')
        k = 0
        for bb, st in oks:
            k += 1
            inst = '%s:Ok%s' % (fn, '' if len(oks) == 1 else '#%d' % k)
            good = _remainder_empty_at(ctx, FB, bb)
            if good:
                ctx.ok('C03.4-trailing-data', inst, 'the remainder of the last parser call before it is known to be empty there (%s)' % good, ctx.where(FB, bb))
            else:
                ctx.bad('C03.4-trailing-data', inst, 'Ok is returned without testing that no bytes remain after the term', ctx.where(FB, bb),
                        key='DOM:%s%s:ok-without-trailing-check' % (DEC, fn))
        pb = _parser_result_returned(ctx, FB)
        if pb is not None:
            ctx.bad('C03.4-trailing-data', '%s:passed-on' % fn, 'the result of the parser call is handed to the caller as it comes (through map / map_err): on this way out nothing tests that no bytes remain after the term',
                    ctx.where(FB, pb), key='DOM:%s%s:ok-without-trailing-check' % (DEC, fn))
    # nested buffers: a parser that parses a term out of a buffer it created itself must test that term's remainder
    from ..etf import is_parser_sig
    n_inner = 0
    for p_ in sorted(q for q in ctx.F.bodies if q.startswith(DEC) and ctx.F.bodies[q]['kind'] in ('Fn', 'Closure')):
        PC = P.B(p_)
        for bb, tt in PC.calls():
            names = [n for n in callee_names(tt) if n.startswith(DEC) and is_parser_sig(ctx.F.fns.get(n))]
            if not names or not tt['args']:
                continue
            o = unwrap(PC.origin(tt['args'][0]))[0]
            own_buffer = (o[0] == 'local' and 'Vec<u8>' in PC.local_ty(o[1])) or (o[0] == 'call' and str(o[1]).startswith('alloc::vec::Vec'))
            if not own_buffer:
                continue
            n_inner += 1
            inst = '%s:inner-remainder' % p_.rsplit('::', 1)[1]
            d = PC.derived_locals([tt['dst']['l']])
            oks = [b3 for b3, j3, st3 in PC.stmts() if st3['k'] == '=' and PC.is_ret_slot(st3['pl']['l']) and st3['rv']['k'] == 'agg' and st3['rv'].get('var') == 'Ok'
                   and b3 in PC.reachable(bb)]
            tested = bool(oks) and all(_remainder_empty_at(ctx, PC, b3, only_call=bb) for b3 in oks)
            if tested:
                ctx.ok('C03.4-trailing-data', inst, 'every Ok return after it is dominated by is_empty() of the remainder of the buffer this function built (the inflated data)', ctx.where(PC, bb))
            else:
                ctx.bad('C03.4-trailing-data', inst, 'bytes left in the inflated buffer after the term are ignored', ctx.where(PC, bb),
                        key='DOM:%s:inner-remainder-ignored' % p_)
    ctx.anchor(n_inner >= 1, 'a parser call on a locally built buffer (parse_compressed)')

    # ---------------- clause 6: atoms keep their text through interning -------------------------------------------
    ctx.rule('C03.6-atom-interning', 'every decoded atom goes through Atom::new, which interns a few common names through two parallel tables: each (text, index) entry points at the cached entry with the same text', floor=1)
    from ..etf import check_atom_tables
    check_atom_tables(ctx, 'C03.6-atom-interning')

    ctx.rule('C03.2-identifier-fields-verbatim', 'no number changes value: the integers of a pid / port / reference read from the wire reach the constructor unchanged (widening casts only, no mask / shift / arithmetic)', floor=12)
    from ..etf import check_identifier_fields_verbatim
    check_identifier_fields_verbatim(ctx, 'C03.2-identifier-fields-verbatim')

    ctx.rule('C03.2-scalars-verbatim', 'no number changes value: the Float / Integer a parser builds is the number it read from the wire (widened at most), not the result of arithmetic or of a normalising helper', floor=6)
    from ..etf import check_scalars_verbatim
    check_scalars_verbatim(ctx, 'C03.2-scalars-verbatim')

    ctx.rule('C03.2-field-ranges', 'a field the format restricts to a range is accepted for exactly that range (Bits of BIT_BINARY_EXT: 1..8)', floor=2)
    from ..etf import check_field_ranges
    check_field_ranges(ctx, 'C03.2-field-ranges')

    # ---------------- clause 7: the order that keys decoded maps ---------------------------------------------------
    ctx.rule('C03.7-map-key-order', 'MAP_EXT entries are collected into a BTreeMap keyed by the term type: "no map entry is dropped or merged" needs an order under which two different keys never compare Equal - '
             'the comparator rules of C11/C12 (no self-comparison, big integers by sign, length and digits from the most significant end, no truncating reads, lists with the length as tie-break ...) re-run here', floor=60)
    from ..order import map_key_order_rules
    map_key_order_rules(ctx, 'C03.7-map-key-order')

    # ---------------- clause 5: CAST over the decoder ----------------------------------------------------
    ctx.rule('C03.5-cast', 'wire numbers are widened, never narrowed, except under a range guard', floor=3)
    REVIEWED = {}
    seen = set()
    for p in sorted(ctx.F.bodies):
        if p.startswith(DEC) and ctx.F.bodies[p]['kind'] in ('Fn', 'AssocFn', 'Closure'):
            check_casts(ctx, P.B(p), 'C03.5-cast', include_float=False, reviewed=REVIEWED)

    # ---------------- the second decoder ------------------------------------------------------------------------------------
    # decode_borrowed is a decoder of the same format: per common tag it must read what the owned parser reads (layout, guards,
    # variant, atom text) - the twin rules of C13 re-run here, so a change to a *_borrowed parser is reported under C03 as well
    ctx.rule('C03.8-zero-copy-decoder', 'the zero-copy decoder reads every tag it accepts exactly as the owned decoder (whose layouts are checked against the format above): twin rules C13.2-* re-run here', floor=60)
    from ..order import SubCtx as _Sub
    from . import c13 as _c13
    _c13.run(_Sub(ctx, 'C03.8-zero-copy-decoder', 'c13', allow=('C13.2-',)))
    # big-integer digits are little-endian wherever they are turned into machine integers (NEW_FUN_EXT OldIndex/OldUniq as bignum)
    ctx.rule('C03.2-bigint-digit-order', 'no number changes value: every conversion between big-integer digits and machine integers treats the first digit as the least significant', floor=5)
    from ..families import check_bigint_endianness
    check_bigint_endianness(ctx, P, 'C03.2-bigint-digit-order')

    # the k-th value a parser reads lands in the field the encoder writes k-th
    from ..fieldorder import check_field_order
    ctx.rule('C03.2-field-order', 'for every structure built by a parser through its constructor (funs, exports, pids, ports, references): the constructor argument for field f derives from the wire read '
             'at the position where the encoder writes f; constructor parameter->field map from the constructor body, read positions from the parser\'s data flow, write order from the encoder\'s success paths', floor=10)
    n_fo = check_field_order(ctx, 'C03.2-field-order')
    ctx.anchor(n_fo >= 10, 'parsers that build a structure through erltf::types::*::new with an encoder for it')

    # what follows a compressed term: the remainder handed back must start where the zlib stream ended
    ctx.rule('C03.4-compressed-remainder', 'parse_compressed returns as remainder the input advanced by exactly the bytes the inflater consumed: either the buffer given to the inflater sliced from total_in(), '
             'or a reader the inflater advances byte-exactly (flate2::bufread); a buffering reader (flate2::read over a slice) drains the whole input, so the bytes after the term would vanish', floor=1)
    from ..ranges import canon as _cn
    PCB_ = P.B(DEC + 'parse_compressed')
    if ctx.anchor(PCB_ is not None, DEC + 'parse_compressed'):
        news = [(bb, t) for bb, t in PCB_.calls() if 'flate2' in (callee_of(t)[0] or '') and (callee_of(t)[0] or '').endswith('::new')]
        n_cr = 0
        # the (remainder, term) pairs handed back: the payload of every `Ok(..)` assigned to the return slot
        res_pairs = []
        for bb, j, st in PCB_.stmts():
            if st['k'] == '=' and PCB_.is_ret_slot(st['pl']['l']) and not st['pl'].get('p') and st['rv']['k'] == 'agg' and st['rv'].get('var') == 'Ok' and st['rv'].get('ops'):
                o_ = PCB_.origin(st['rv']['ops'][0], at=(bb, j))
                if o_[0] == 'agg' and o_[1].get('ak') == 'tuple' and len(o_[1]['ops']) == 2:
                    res_pairs.append((o_[2], {'k': '=', 'rv': o_[1], 'ln': st.get('ln')}))
        for bb, st in res_pairs:
            c = _cn(PCB_, st['rv']['ops'][0])
            n_cr += 1
            where = ctx.where(PCB_, ln=st['ln'])
            txt = str(c)
            if c[0] == 'call' and str(c[1]).endswith('::index'):
                it = PCB_.blocks[c[2]]['t']
                ro_ = PCB_.origin(it['args'][1])
                rng = str(_cn(PCB_, it['args'][1]))
                if ro_[0] == 'agg':
                    rng += ' '.join(str(_cn(PCB_, o_)) + str(PCB_.origin(o_)) for o_ in ro_[1]['ops'])
                same = news and _cn(PCB_, it['args'][0]) == _cn(PCB_, news[0][1]['args'][0])
                if 'total_in' in rng and same:
                    ctx.ok('C03.4-compressed-remainder', 'remainder', 'input of the inflater sliced from total_in()', where)
                elif 'total_in' in rng:
                    ctx.bad('C03.4-compressed-remainder', 'remainder', 'a buffer other than the one handed to the inflater is sliced by total_in()', where, key='PROV:%sparse_compressed:remainder-other-buffer' % DEC)
                else:
                    ctx.bad('C03.4-compressed-remainder', 'remainder', 'the remainder is a slice of the input that does not depend on how much the inflater consumed (%s)' % describe(PCB_, c), where,
                            key='PROV:%sparse_compressed:remainder-not-consumed-count' % DEC)
            elif news and any('flate2::zlib::read::' in (callee_of(t)[0] or '') or 'flate2::read::' in (callee_of(t)[0] or '') for bb2, t in news):
                ctx.bad('C03.4-compressed-remainder', 'remainder', 'the remainder is taken from the reader given to flate2::read::ZlibDecoder, which reads ahead through its own buffer: everything after the zlib stream is consumed with it, '
                        'so trailing bytes (or a following term) are reported as absent', where, key='PROV:%sparse_compressed:remainder-from-buffered-reader' % DEC)
            elif news and any('bufread' in (callee_of(t)[0] or '') for bb2, t in news):
                ctx.ok('C03.4-compressed-remainder', 'remainder', 'reader advanced byte-exactly by flate2::bufread', where)
            else:
                ctx.undecided('C03.4-compressed-remainder', 'remainder', 'provenance of the remainder not recognised: %s' % describe(PCB_, c), where)
        ctx.anchor(n_cr >= 1, DEC + 'parse_compressed: the (remainder, term) result')

    # floats: the text form accepts what the format can carry - zero and subnormals included
    ctx.rule('C03.2-float-acceptance', 'no parser turns a float away (or rewrites it) by a classification that excludes values the format carries: is_normal / is_subnormal / classify are false for 0.0 and subnormals, '
             'which FLOAT_EXT and NEW_FLOAT_EXT both carry; only the non-finite tests (is_finite / is_nan / is_infinite) are a legitimate filter', floor=0)
    n_fl = 0
    for q in sorted(ctx.F.bodies):
        if not q.startswith(DEC):
            continue
        FB = P.B(q)
        for bb, t in FB.calls():
            nm = callee_of(t)[0] or ''
            if nm.startswith('core::f64::<impl f64>::') or nm.startswith('std::f64::<impl f64>::') or nm.startswith('core::num::<impl f64>::'):
                short = nm.rsplit('::', 1)[-1]
                if short in ('is_normal', 'is_subnormal', 'classify'):
                    n_fl += 1
                    ctx.bad('C03.2-float-acceptance', '%s:%s' % (q.rsplit('::', 1)[-1], short), '%s decides about a decoded float with %s(): zero and subnormal values, which the format carries, fall on the other side of it' % (q.rsplit('::', 1)[-1], short),
                            ctx.where(FB, bb), key='SHAPE:%s:float-%s' % (q.split('::{')[0], short))
    if n_fl == 0:
        ctx.ok('C03.2-float-acceptance', 'decoder', 'no is_normal / is_subnormal / classify on decoded floats')

    from ..families import check_error_swallow as _swallow
    ctx.rule('C03.5-errors-surface', 'in the functions of this property that can themselves report failure, the Result of one of the repository\'s own fallible functions is never turned into "nothing" or a default (ok(), unwrap_or*, map_or*): an error must surface as an error, not as a value the callee never produced; a rule about what must not be there (exercised on the fixture every run)', floor=0)
    _swallow(ctx, P, 'C03.5-errors-surface', ('erltf::decoder::',))

    # LIST_EXT: elements, then a tail.  The tail is dropped only when it is the empty list itself.
    ctx.rule('C03.2-list-tail-kept', 'the LIST_EXT parsers answer a proper list (elements only) exactly on the branch where the tail term is NIL (an equality test against Nil, or the Nil arm of a match on the tail); '
             'on every other branch the tail is kept: a test that is also true of non-empty lists drops the elements of a list-valued tail', floor=2)
    from ..core import dominating_edges as _dom3
    for fn, adt_ in ((DEC + 'parse_list', OWNED), (DEC + 'parse_list_borrowed', BORROWED)):
        LB = P.B(fn)
        if not ctx.anchor(LB is not None, fn):
            continue
        sites = [(bb, st) for bb, j, st in LB.stmts() if st['k'] == '=' and st['rv']['k'] == 'agg' and st['rv'].get('adt') == adt_ and st['rv'].get('var') == 'List']
        if not sites:
            ctx.undecided('C03.2-list-tail-kept', fn.rsplit('::', 1)[1], 'no List(..) construction found')
            continue
        for bb, st in sites:
            okk = False
            why = []
            for (src, vals, dst) in _dom3(LB, bb):
                sb = LB.switch_bool_edges(src)
                if sb and sb[0][0] == 'call':
                    ct = sb[0][2]
                    nm = callee_of(ct)[0] or ''
                    last = nm.rsplit('::', 1)[-1]
                    if last in ('eq', 'ne') and len(ct['args']) > 1:
                        others = [LB.origin(a) for a in ct['args']]
                        nil = any(o[0] == 'agg' and o[1].get('var') == 'Nil' for o in others)
                        if nil and ((last == 'eq' and dst == sb[1]) or (last == 'ne' and dst == sb[2])):
                            okk = True
                        why.append('%s(.., %s)' % (last, 'Nil' if nil else '?'))
                    else:
                        why.append(last + '()')
                sd = LB.switch_on_discr(src)
                if sd and sd[1].replace('&', '').split('<')[0] == adt_:
                    names = {int(v['discr']): v['n'] for v in ctx.F.adts[adt_]['variants']}
                    hit = [v for v, b_ in sd[2] if b_ == dst]
                    if hit and all(names.get(v) == 'Nil' for v in hit):
                        okk = True
                    why.append('match on the tail')
                # `matches!(tail, Nil)`: a bool that is set to true only behind the Nil arm of a match on the tail
                t_ = LB.blocks[src]['t']
                if sb and t_['k'] == 'switch' and t_['d'].get('k') in ('cp', 'mv') and not t_['d']['pl'].get('p'):
                    bl = t_['d']['pl']['l']
                    defs_ = LB.defs().get(bl, [])
                    trues = [d for d in defs_ if d[0] == 's' and d[3]['rv']['k'] == 'use' and d[3]['rv']['op'].get('k') == 'c' and d[3]['rv']['op'].get('v') == 1]
                    falses = [d for d in defs_ if d[0] == 's' and d[3]['rv']['k'] == 'use' and d[3]['rv']['op'].get('k') == 'c' and d[3]['rv']['op'].get('v') == 0]
                    if trues and len(trues) + len(falses) == len(defs_) and dst == t_['else']:
                        names = {int(v['discr']): v['n'] for v in ctx.F.adts[adt_]['variants']}
                        all_nil = True
                        for d in trues:
                            found = False
                            for (s2, v2, d2) in _dom3(LB, d[1]):
                                sd2 = LB.switch_on_discr(s2)
                                if sd2 and sd2[1].replace('&', '').split('<')[0] == adt_:
                                    hit2 = [v for v, b_ in sd2[2] if b_ == d2]
                                    if hit2 and all(names.get(v) == 'Nil' for v in hit2):
                                        found = True
                            all_nil = all_nil and found
                        if all_nil:
                            okk = True
                        why.append('matches!')
            inst = '%s:List' % fn.rsplit('::', 1)[1]
            if okk:
                ctx.ok('C03.2-list-tail-kept', inst, 'proper list only behind tail == Nil', ctx.where(LB, bb))
            else:
                ctx.bad('C03.2-list-tail-kept', inst, 'the proper-list result is not guarded by a test that the tail IS the empty list (conditions on the way: %s): a tail that is a non-empty list (LIST_EXT or STRING_EXT) is discarded with its elements'
                        % (why or 'none'), ctx.where(LB, bb), key='SHAPE:%s:tail-dropped-unless-nil' % fn)


def read_order(PB):
    """block of every read primitive / sub-parser call in the order they occur on success paths"""
    from ..wire import success_sequences, io_events
    from ..etf import SUBCALLS_R
    seqs, _ = success_sequences(PB, lambda B_, bb: [(bb,)] if io_events(B_, bb, detail=False, subcalls=SUBCALLS_R) else [])
    best = max(seqs, key=len) if seqs else ()
    out = []
    for e in best:
        if e and e[0] == 'rep':
            out += [x[0] for x in e[1] if x and x[0] != 'rep']
        else:
            out.append(e[0])
    return out


def field_order(ctx, parsers):
    P = ctx.P
    TYPES = ('erltf::types::ExternalPid::new', 'erltf::types::ExternalPort::new', 'erltf::types::ExternalReference::new',
             'erltf::types::InternalFun::new', 'erltf::types::ExternalFun::new', 'erltf::types::BigInt::new')
    for p in parsers:
        PB = P.B(p)
        if PB is None:
            continue
        order = read_order(PB)
        for bb, t in PB.calls():
            names = callee_names(t)
            if not any(n in TYPES for n in names):
                continue
            pos = []
            for i, a in enumerate(t['args']):
                base, projs = unwrap(PB.origin(a))
                site = None
                cur = base
                for _ in range(6):
                    if cur is None:
                        break
                    if cur[0] == 'call' and cur[2] in order:
                        site = order.index(cur[2])
                        break
                    if cur[0] == 'cast':
                        cur = unwrap(cur[3])[0]
                        continue
                    if cur[0] == 'agg' and cur[1].get('ops'):
                        cur = unwrap(PB.origin(cur[1]['ops'][0]))[0]
                        continue
                    if cur[0] == 'bin':
                        cur = unwrap(cur[2])[0]
                        continue
                    break
                pos.append(site)
            known = [(i, s_) for i, s_ in enumerate(pos) if s_ is not None]
            inst = '%s:%s' % (p.rsplit('::', 1)[1], names[0].split('::')[-2] + '::new')
            # arguments fed from reads must appear in read order (the `len`-first reference formats read the count before the node)
            seq = [s_ for i, s_ in known]
            if p.endswith('reference_ext') or p.endswith('newer_reference') or p.endswith('newer_reference_borrowed') or p.endswith('new_reference_ext'):
                seq = [s_ for i, s_ in known if s_ != 0] if seq and 0 in seq else seq
            if len(seq) >= 2 and seq == sorted(seq) and len(set(seq)) == len(seq):
                ctx.ok('C03.2-field-order', inst, 'constructor arguments %s come from reads %s (in wire order)' % ([i for i, _ in known], seq), ctx.where(PB, bb))
            elif len(seq) < 2:
                ctx.ok('C03.2-field-order', inst, 'at most one argument comes directly from a read', ctx.where(PB, bb))
            else:
                ctx.bad('C03.2-field-order', inst, 'constructor arguments are fed from reads out of wire order: argument->read positions %s' % known, ctx.where(PB, bb),
                        key='PROV:%s:field-order' % p)


def constructors_identity(ctx):
    P = ctx.P
    for ty in ('ExternalPid', 'ExternalPort', 'ExternalReference', 'ExternalFun', 'InternalFun'):
        for fn in ('new', 'with_local_ext_bytes'):
            path = 'erltf::types::%s::%s' % (ty, fn)
            B = P.B(path)
            if B is None:
                continue
            aggs = [(bb, st) for bb, j, st in B.stmts() if st['k'] == '=' and st['rv']['k'] == 'agg' and st['rv'].get('adt') == 'erltf::types::' + ty]
            if not aggs:
                ctx.undecided('C03.2-field-order', '%s::%s' % (ty, fn), 'no struct literal found')
                continue
            rv = aggs[0][1]['rv']
            bad = []
            for fname, op in zip(rv['fn'], rv['ops']):
                base, projs = unwrap(B.origin(op))
                if base is not None and base[0] == 'arg':
                    pname = B.local_name(base[1])
                    if pname is not None and pname != fname and not (fname == 'local_ext_bytes'):
                        bad.append((fname, pname))
            inst = '%s::%s' % (ty, fn)
            if bad:
                ctx.bad('C03.2-field-order', inst, 'constructor stores parameters in differently named fields: %s' % bad, ctx.where(B), key='PROV:%s:param-field' % path)
            else:
                ctx.ok('C03.2-field-order', inst, 'each parameter is stored in the field of the same name', ctx.where(B))


def _same_modulo_refs(a, b):
    import re
    strip = lambda s: re.sub(r'\[[^\]]*\]', '[]', s)
    return strip(a) == strip(b)


_run_before_cache_rules = run


def run(ctx):
    _run_before_cache_rules(ctx)
    # an atom named through the cache is the atom an earlier header entered (C14 rules re-run)
    from .c14 import cache_threading
    cache_threading(ctx, 'C03.9-cache-kept')
