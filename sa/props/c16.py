"""C16 — allocated pids and references are unique under any interleaving.

LOCK: every access to next_id / next_serial lies inside the live range of the
wrap_lock guard; WHO: leaking accessors have no caller; per-path store/PROV
rules in allocate; atomic-RMW discipline on reference_counter; creation PROV.
"""
from ..core import callee_names, callee_of, is_call_to, fold, root_fields
from ..ranges import canon
from ..families import guard_flow

PA = 'edp_client::pid_allocator::PidAllocator'
ATOMIC_ACCESS = ('::load', '::store', '::fetch_add', '::fetch_sub', '::swap', '::compare_exchange',
                 '::compare_exchange_weak', '::fetch_update', '::fetch_max', '::fetch_min',
                 '::fetch_or', '::fetch_and', '::fetch_xor', '::fetch_nand', '::get_mut', '::into_inner', '::as_ptr')
RMW = ('::fetch_add',)


def is_atomic_call(t):
    for n in callee_names(t):
        if 'core::sync::atomic::Atomic' in n and any(n.endswith(s) for s in ATOMIC_ACCESS):
            return n.rsplit('::', 1)[1]
    return None


def field_of_self(B, op):
    """If the operand denotes self.<field> (through refs/derefs): the field name."""
    o = B.origin(op)
    if o[0] == 'arg' and o[1] == 1 and len(o[2]) >= 1:
        return o[2][0]
    return None


def _called_under_lock(P, fn, depth=0):
    """every call site of the private helper fn lies inside the live range of a wrap_lock guard of its caller (or the caller is
    itself such a helper)"""
    sig = P.F.fns.get(fn)
    if sig is None or sig.get('vis') == 'pub' or depth > 3:
        return False
    sites = P.callers_of(lambda n, fn=fn: n == fn)
    if not sites:
        return False
    for c, cbb, t in sites:
        CB = P.B(c)
        locks = [bb for bb, t2 in CB.calls() if any(n.endswith('Mutex::<T>::lock') or n.endswith('Mutex::<T>::try_lock') for n in callee_names(t2)) and t2['args']
                 and field_of_self(CB, t2['args'][0]) == 'wrap_lock']
        if any(guard_flow(CB, lb)[1].get(cbb) for lb in locks):
            continue
        if not locks and _called_under_lock(P, c.split('::{')[0], depth + 1):
            continue
        return False
    return True


def helper_accesses(P, fn):
    """atomic accesses a small straight-line helper of the allocator performs, as (kind, field, index of the parameter stored | ('const', v) | None)"""
    HB = P.B(fn)
    if HB is None or not fn.startswith('edp_client::pid_allocator::'):
        return None
    out = []
    for bb, t in HB.calls():
        kind = is_atomic_call(t)
        if not kind or not t['args']:
            continue
        f = field_of_self(HB, t['args'][0])
        val = None
        if kind in ('store', 'fetch_add') and len(t['args']) > 1:
            o = HB.origin(t['args'][1])
            if o[0] == 'arg' and not o[2]:
                val = o[1] - 1          # index among the call's arguments
            elif fold(o) is not None:
                val = ('const', fold(o))
        out.append((kind, f, val))
    return out


def _only_called_from(P, fn, allowed, depth=0):
    """is every (transitive) caller of fn one of `allowed`?  (a function nobody calls does not qualify)"""
    callers = sorted({c.split('::{')[0] for c, bb, t in P.callers_of(lambda n, fn=fn: n == fn)})
    if not callers or depth > 4:
        return False
    return all(c in allowed or _only_called_from(P, c, allowed, depth + 1) for c in callers)


def counter_writers(ctx, rule):
    """next_id / next_serial only ever move forward: the only functions that write them are allocate (under the rules
    below) and the constructor. A reset anywhere else re-issues identifiers that are still in use."""
    P = ctx.P
    ctx.rule(rule, 'the id / serial counters are written only by allocate() and the constructor: no other function stores to, swaps or resets them (a reset re-issues pids that may still be in use, '
             'e.g. as reply addresses of outstanding calls)', floor=2)
    n = 0
    for B in P.all('edp_client'):
        if not B.path.startswith('edp_client::pid_allocator::'):
            continue
        seen = {}
        for bb, t in B.calls():
            kind = is_atomic_call(t)
            if not kind or kind == 'load' or not t['args']:
                continue
            f = field_of_self(B, t['args'][0])
            if f not in ('next_id', 'next_serial'):
                continue
            n += 1
            k = seen.get((kind, f), 0) + 1
            seen[(kind, f)] = k
            inst = '%s:%s(%s)%s' % (B.path.rsplit('::', 1)[1], kind, f, '' if k == 1 else '#%d' % k)
            base = B.path.split('::{')[0]
            if base in (PA + '::allocate', PA + '::new'):
                ctx.ok(rule, inst, 'written by %s' % base.rsplit('::', 1)[1], ctx.where(B, bb))
            elif _only_called_from(P, base, (PA + '::allocate', PA + '::new')):
                ctx.ok(rule, inst, 'written by %s, a helper that only allocate() / the constructor call' % base.rsplit('::', 1)[1], ctx.where(B, bb))
            else:
                ctx.bad(rule, inst, '%s writes the counter %s (%s): identifiers handed out before are issued again afterwards' % (base.rsplit('::', 1)[1], f, kind), ctx.where(B, bb),
                        key='WHO:%s:writes:%s' % (base, f))
    # the same question for code outside the allocator's module: a function that did not exist on the reviewed tree is looked at where it
    # was spliced in, so a new `release()` / `reset()` called from the node shows up as a store to the counter in the node's own body
    for B in P.all():
        if B.path.startswith('edp_client::pid_allocator::') or B.b.get('crate') not in ('edp_client', 'edp_node'):
            continue
        for bb, t in B.calls():
            kind = is_atomic_call(t)
            if not kind or kind == 'load' or not t['args'] or t['args'][0].get('k') not in ('cp', 'mv'):
                continue
            f = None
            l_ = t['args'][0]['pl']['l']
            for _ in range(4):
                d0 = B.single_def(l_) or B.reaching_def(l_, (bb, None))
                if not (d0 and d0[0] == 's'):
                    break
                rv = d0[3]['rv']
                if rv['k'] == 'ref':
                    last = (rv['pl'].get('p') or [None])[-1]
                    if isinstance(last, dict) and last.get('adt') == PA and last.get('n') in ('next_id', 'next_serial'):
                        f = last['n']
                        break
                    if (rv['pl'].get('p') or []) == ['*']:
                        l_ = rv['pl']['l']
                        continue
                    break
                if rv['k'] == 'use' and rv['op'].get('k') in ('cp', 'mv') and not rv['op']['pl'].get('p'):
                    l_ = rv['op']['pl']['l']
                    continue
                break
            if f is None:
                continue
            n += 1
            who = t.get('inl') or B.path.split('::{')[0]
            ctx.bad(rule, '%s:%s(%s)' % (B.path.split('::{')[0].rsplit('::', 1)[1], kind, f), 'code outside allocate() / the constructor writes the counter %s (%s), reached from %s: identifiers handed out before are issued again afterwards'
                    % (f, kind, B.path.split('::{')[0]), ctx.where(B, bb), key='WHO:%s:writes:%s' % (B.path.split('::{')[0], f))
    ctx.anchor(n >= 2, PA + ': writes of next_id / next_serial')


def creation_writers(ctx, rule):
    """the creation in force is whatever was set last: set_creation / new store their argument unconditionally"""
    P = ctx.P
    ctx.rule(rule, 'the creation atomic is written only by an unconditional store of the caller\'s value (constructor, set_creation): a conditional update (fetch_max, compare_exchange ...) '
             'can silently keep the old creation, so later pids do not carry the creation in force', floor=1)
    n = 0
    for B in P.all('edp_client'):
        if not B.path.startswith('edp_client::pid_allocator::'):
            continue
        for bb, t in B.calls():
            kind = is_atomic_call(t)
            if not kind or kind == 'load' or not t['args'] or field_of_self(B, t['args'][0]) != 'creation':
                continue
            n += 1
            inst = '%s:%s(creation)' % (B.path.rsplit('::', 1)[1], kind)
            if kind == 'store':
                ctx.ok(rule, inst, 'unconditional store', ctx.where(B, bb))
            else:
                ctx.bad(rule, inst, 'creation is updated with %s, which does not always take the new value' % kind, ctx.where(B, bb), key='ATOMIC:%s:creation:%s' % (B.path.split('::{')[0], kind))
    ctx.anchor(n >= 1, PA + ': write of creation')


def run(ctx):
    P = ctx.P
    adt = ctx.F.adts.get(PA)
    if not ctx.anchor(adt is not None, PA):
        return
    fields = {f['n']: f for f in adt['variants'][0]['fields']}
    protected = [n for n in ('next_id', 'next_serial') if n in fields]
    ctx.anchor(len(protected) == 2, PA + '.{next_id,next_serial}')
    ctx.anchor('wrap_lock' in fields and 'Mutex' in fields['wrap_lock']['ty'], PA + '.wrap_lock: Mutex')
    ctx.rule('C16.0-private', 'the counters and the lock are private fields', floor=3)
    for n in protected + ['wrap_lock']:
        f = fields.get(n)
        if f is None:
            continue
        if f['vis'] == 'pub':
            ctx.bad('C16.0-private', n, 'field %s is public: any code can touch it outside the lock' % n, key='WHO:%s.%s:public' % (PA, n))
        else:
            ctx.ok('C16.0-private', n, 'visibility %s' % f['vis'])

    # ---- clause 1: LOCK ------------------------------------------------------------
    ctx.rule('C16.1-lock', 'every atomic access to next_id/next_serial (in any function of the workspace) happens while a wrap_lock guard is held on all paths', floor=5)
    ctx.rule('C16.2-escape', 'functions that hand out a reference to a protected counter have no caller in any library or example crate', floor=2)
    n_access = 0
    for B in P.all():
        if not B.path.startswith('edp_client::pid_allocator::'):
            # the fields are private to the module; accesses elsewhere are impossible (compiler-checked)
            continue
        accesses = []
        for bb, t in B.calls():
            kind = is_atomic_call(t)
            if kind and t['args']:
                f = field_of_self(B, t['args'][0])
                if f in protected:
                    accesses.append((bb, t, kind, f))
        # escapes: `&self.next_id` flowing into the return value
        for bb, j, st in B.stmts():
            if st['k'] == '=' and st['pl']['l'] == 0 and not st['pl'].get('p'):
                o = B.origin_place(st['pl']) if False else None
                rv = st['rv']
                src = None
                if rv['k'] == 'ref':
                    src = B.origin_place(rv['pl'])
                elif rv['k'] == 'use':
                    src = B.origin(rv['op'])
                if src and src[0] == 'arg' and src[1] == 1 and src[2] and src[2][0] in protected and B.path != PA + '::new':
                    callers = P.callers_of(lambda n, p=B.path: n == p)
                    inst = B.path
                    if callers:
                        ctx.bad('C16.2-escape', inst, 'returns a reference to %s and is called from %s' % (src[2][0], sorted({c[0] for c in callers})),
                                ctx.where(B), key='WHO:%s:called' % B.path)
                    else:
                        ctx.ok('C16.2-escape', inst, 'returns &%s; no caller in the analysed crates' % src[2][0], ctx.where(B))
        if not accesses:
            continue
        if B.path == PA + '::new':
            continue
        # lock acquisitions on self.wrap_lock in this body
        locks = []
        for bb, t in B.calls():
            if any(n.endswith('Mutex::<T>::lock') or n.endswith('Mutex::<T>::try_lock') for n in callee_names(t)) and t['args']:
                if field_of_self(B, t['args'][0]) == 'wrap_lock':
                    locks.append(bb)
        flows = [guard_flow(B, lb) for lb in locks]
        seen = {}
        for bb, t, kind, f in accesses:
            n_access += 1
            inst0 = '%s:%s(%s)' % (B.path, kind, f)
            k = seen.get(inst0, 0) + 1
            seen[inst0] = k
            inst = inst0 if k == 1 else '%s#%d' % (inst0, k)
            held = any(bt.get(bb) for (_, bt) in flows)
            if held:
                ctx.ok('C16.1-lock', inst, 'guard held on every path reaching the access', ctx.where(B, bb))
            elif not locks and _called_under_lock(P, B.path.split('::{')[0]):
                ctx.ok('C16.1-lock', inst, 'a helper that takes no lock itself; every call of it (in this module, and nobody else can call it) happens while the caller holds the wrap_lock guard', ctx.where(B, bb))
            else:
                ctx.bad('C16.1-lock', inst, 'access to %s not covered by a live wrap_lock guard on all paths (locks acquired in this function: %d)' % (f, len(locks)),
                        ctx.where(B, bb), key='LOCK:' + inst)

    counter_writers(ctx, 'C16.3-counter-writers')
    creation_writers(ctx, 'C16.5-creation-writers')

    # ---- clause 3: per-path discipline in allocate ------------------------------------
    # Evaluated path by path (allocate has no loop): on each path every variable has the value assigned on that path,
    # so it does not matter whether the two cases build the pid separately or join before one constructor call.
    B = ctx.body(PA + '::allocate')
    ctx.rule('C16.3-alloc-paths', 'allocate, on every path that returns a pid: exactly one store to next_id; the stored value is the loaded id + 1, or the reset constant together with '
             'one fetch_add on next_serial; the pid carries the loaded id and the serial of that path (loaded, or advanced on the wrap path)', floor=6)
    ctx.rule('C16.5-creation', 'every pid / reference carries the creation read from the creation atomic', floor=3)
    if B is not None:
        from ..core import acyclic_paths, path_eval, expr_mentions
        paths = acyclic_paths(B)
        if not ctx.anchor(paths is not None and len(paths) >= 1, PA + '::allocate: loop-free paths'):
            paths = []

        def atomic(ev, kind, field):
            bb, names, args, e = ev
            if names and names[0].startswith('<helper:'):
                return names[0] == '<helper:%s:%s>' % (kind, field)
            t = B.blocks[bb]['t']
            return is_atomic_call(t) == kind and args and _field_expr(args[0]) == field

        def is_call_at(e, bbs):
            return isinstance(e, tuple) and e and e[0] == 'call' and e[2] in bbs
        n_pid_paths = 0
        seen_kinds = {}
        for path in paths:
            env, events0 = path_eval(B, path)
            # a call of a private helper of the module counts as the atomic accesses the helper performs
            events = []
            for ev in events0:
                hs = None
                for n_ in ev[1]:
                    if n_.startswith(PA + '::') and n_ not in (PA + '::allocate',) and not is_atomic_call(B.blocks[ev[0]]['t']):
                        hs = helper_accesses(P, n_)
                if hs:
                    for kind_, f_, val_ in hs:
                        varg = ev[2][val_] if isinstance(val_, int) and val_ < len(ev[2]) else (('const', val_[1]) if isinstance(val_, tuple) else ('opaque', ev[0]))
                        events.append((ev[0], ['<helper:%s:%s>' % (kind_, f_)], (('field', ('arg', 1), f_), varg), ('call', '<helper>', ev[0], ())))
                else:
                    events.append(ev)
            news = [ev for ev in events if any(n == 'erltf::types::ExternalPid::new' for n in ev[1])]
            if not news:
                continue
            n_pid_paths += 1
            stores = [ev for ev in events if atomic(ev, 'store', 'next_id')]
            id_loads = [ev[0] for ev in events if atomic(ev, 'load', 'next_id')]
            ser_loads = [ev[0] for ev in events if atomic(ev, 'load', 'next_serial')]
            fadds = [ev[0] for ev in events if atomic(ev, 'fetch_add', 'next_serial')]
            cre_loads = [ev[0] for ev in events if atomic(ev, 'load', 'creation')]
            wrap = bool(stores) and stores[0][2][1][0] == 'const'
            kind = 'wrap' if wrap else 'normal'
            seen_kinds[kind] = seen_kinds.get(kind, 0) + 1
            inst = 'pid-construction@%s-path%s' % (kind, '' if seen_kinds[kind] == 1 else '#%d' % seen_kinds[kind])
            nb = news[0][0]
            if len(stores) == 1 and len(news) == 1:
                ctx.ok('C16.3-alloc-paths', inst + ':one-store', 'exactly one next_id store and one pid on this path', ctx.where(B, nb))
            else:
                ctx.bad('C16.3-alloc-paths', inst + ':one-store', 'this path performs %d stores to next_id and builds %d pids (must be exactly one each)' % (len(stores), len(news)),
                        ctx.where(B, nb), key='PATH:%s::allocate:%s:one-store' % (PA, inst))
                continue
            _, _, nargs, _ = news[0]
            id_arg, ser_arg, cr_arg = nargs[1], nargs[2], nargs[3]
            if is_call_at(id_arg, id_loads):
                ctx.ok('C16.3-alloc-paths', inst + ':id-prov', 'pid id is the value loaded from next_id', ctx.where(B, nb))
            else:
                ctx.bad('C16.3-alloc-paths', inst + ':id-prov', 'pid id does not come from the next_id load: %s' % _short(id_arg), ctx.where(B, nb),
                        key='PROV:%s::allocate:%s:id' % (PA, inst))
            val = stores[0][2][1]
            if wrap:
                if len(fadds) == 1 and _wrapping_fn_of(ser_arg, fadds):
                    ctx.ok('C16.3-alloc-paths', inst + ':serial', 'reset to %s together with one fetch_add on next_serial; pid serial derives from the advanced serial' % (val[1],), ctx.where(B, nb))
                else:
                    ctx.bad('C16.3-alloc-paths', inst + ':serial', 'wrap path: next_id reset with %d fetch_add(s) on next_serial and the returned serial %s' % (
                        len(fadds), 'deriving from it only through a lossy conversion (%s): distinct counter values map to the same serial' % _short(ser_arg)
                        if expr_mentions(ser_arg, lambda e: is_call_at(e, fadds)) else 'NOT deriving from the advanced serial (%s)' % _short(ser_arg)),
                            ctx.where(B, nb), key='PROV:%s::allocate:%s:serial' % (PA, inst))
            else:
                good = val[0] == 'bin' and val[1].startswith('Add') and is_call_at(val[2], id_loads) and val[3] == ('const', 1)
                if good:
                    ctx.ok('C16.3-alloc-paths', inst + ':store-value', 'stores loaded id + 1', ctx.where(B, stores[0][0]))
                else:
                    ctx.bad('C16.3-alloc-paths', inst + ':store-value', 'stored next_id is not (loaded id + 1): %s' % _short(val), ctx.where(B, stores[0][0]),
                            key='PROV:%s::allocate:%s:store-value' % (PA, inst))
                if _wrapping_fn_of(ser_arg, ser_loads) and not fadds:
                    ctx.ok('C16.3-alloc-paths', inst + ':serial', 'pid serial is the next_serial counter reduced modulo 2^32 (casts / remainder / constant offsets only)', ctx.where(B, nb))
                else:
                    ctx.bad('C16.3-alloc-paths', inst + ':serial', 'pid serial is not the next_serial counter modulo 2^32 (%s)%s%s' % (_short(ser_arg),
                            ': it passes through a conversion that is not a wrap-around (saturating / fallible), so different counter values yield the same serial'
                            if expr_mentions(ser_arg, lambda e: is_call_at(e, ser_loads)) else '',
                            ', and the serial is advanced although the id did not wrap' if fadds else ''),
                            ctx.where(B, nb), key='PROV:%s::allocate:%s:serial' % (PA, inst))
            if is_call_at(cr_arg, cre_loads):
                ctx.ok('C16.5-creation', inst, 'creation read from the creation atomic', ctx.where(B, nb))
            else:
                ctx.bad('C16.5-creation', inst, 'pid creation does not come from self.creation: %s' % _short(cr_arg), ctx.where(B, nb),
                        key='PROV:%s::allocate:%s:creation' % (PA, inst))
        ctx.anchor(n_pid_paths >= 2 and set(seen_kinds) == {'wrap', 'normal'}, PA + '::allocate: a wrap path and a normal path that return a pid')

    # ---- clause 4: reference_counter discipline -----------------------------------------
    ctx.rule('C16.4-atomic-rmw', 'reference_counter is only touched through atomic read-modify-write (fetch_add); never load+store', floor=1)
    n = 0
    for B in P.all('edp_node'):
        seen = {}
        for bb, t in B.calls():
            kind = is_atomic_call(t)
            if not kind or not t['args']:
                continue
            o = B.origin(t['args'][0])
            names = o[2] if o[0] in ('arg', 'local') else (o[3] if o[0] == 'call' else ())
            if 'reference_counter' not in names:
                continue
            n += 1
            inst0 = '%s:%s' % (B.path, kind)
            k = seen.get(inst0, 0) + 1
            seen[inst0] = k
            inst = inst0 if k == 1 else '%s#%d' % (inst0, k)
            if kind == 'fetch_add':
                ctx.ok('C16.4-atomic-rmw', inst, 'atomic RMW', ctx.where(B, bb))
            else:
                ctx.bad('C16.4-atomic-rmw', inst, 'reference_counter accessed with %s (not an atomic read-modify-write)' % kind, ctx.where(B, bb),
                        key='ATOMIC:' + inst)
    # make_reference: three distinct words, creation from the atomic
    B = ctx.body('edp_node::node::Node::make_reference')
    if B is not None:
        news = [(bb, t) for bb, t in B.calls() if is_call_to(t, 'erltf::types::ExternalReference::new')]
        ctx.anchor(len(news) == 1, 'make_reference:ExternalReference::new')
        for nb, nt in news:
            cr = B.origin(nt['args'][1])
            via_accessor = False
            if cr[0] == 'call' and cr[1] == 'edp_node::node::Node::creation' and P.B(cr[1]) is not None:
                # through the accessor `self.creation()`: what the accessor returns
                AB_ = P.B(cr[1])
                lo_ = [AB_.origin(t2['args'][0]) for b2, t2 in AB_.calls() if (callee_of(t2)[0] or '').endswith('::load') and t2['args']]
                if len(lo_) == 1 and lo_[0][0] == 'arg' and 'creation' in lo_[0][2] and B.origin(B.blocks[cr[2]]['t']['args'][0])[:2] == ('arg', 1):
                    via_accessor = True
            okc = cr[0] == 'call' and cr[1] and cr[1].endswith('::load')
            if okc:
                o2 = B.origin(B.blocks[cr[2]]['t']['args'][0])
                okc = o2[0] == 'arg' and 'creation' in o2[2]
            if via_accessor:
                ctx.ok('C16.5-creation', 'make_reference', 'creation read from the creation atomic through self.creation()', ctx.where(B, nb))
            elif okc:
                ctx.ok('C16.5-creation', 'make_reference', 'creation read from the creation atomic', ctx.where(B, nb))
            else:
                ctx.bad('C16.5-creation', 'make_reference', 'reference creation does not come from self.creation', ctx.where(B, nb),
                        key='PROV:edp_node::node::Node::make_reference:creation')
            # id words: each from its own fetch_add
            ids = B.origin(nt['args'][2])
            words = _vec_elems(B, nt['args'][2])
            if words is None:
                ctx.undecided('C16.4-ref-words', 'make_reference', 'id vector shape not recognised')
            else:
                srcs = []
                for w in words:
                    o = B.origin(w)
                    srcs.append(o[2] if (o[0] == 'call' and o[1] and o[1].endswith('::fetch_add')) else None)
                if None not in srcs and len(set(srcs)) == len(srcs) and len(srcs) >= 1:
                    ctx.ok('C16.4-ref-words', 'make_reference', '%d id words, each from its own fetch_add' % len(srcs), ctx.where(B, nb))
                else:
                    ctx.bad('C16.4-ref-words', 'make_reference', 'id words do not each come from a distinct atomic fetch_add: %s' % (srcs,), ctx.where(B, nb),
                            key='PROV:edp_node::node::Node::make_reference:words')
    ctx.rule('C16.4-ref-words', 'each word of a fresh reference comes from its own fetch_add on reference_counter', floor=1)

    # the creation handed to the allocator travels through the Creation newtype (PidAllocator::new / set_creation take Into<Creation>)
    ctx.rule('C16.5-creation-conversions', 'Creation::new / From<u32> store the value they are given: a mask or a narrowing there makes pids carry a creation other than the one in force', floor=1)
    from ..families import check_newtype_verbatim
    check_newtype_verbatim(ctx, P, 'C16.5-creation-conversions', ['edp_client::types::Creation'])

    # the node keeps the creation in two places (its own field, used for references, and the allocator, used for pids): whoever
    # stores one stores the other
    ctx.rule('C16.5-creation-stores-paired', 'every function of the node that stores a value into the node\'s `creation` field also hands that value to PidAllocator::set_creation on every path from the store to its return: '
             'otherwise references carry the creation in force while pids keep the allocator\'s initial one', floor=1)
    n_cs = 0
    for NB in P.all('edp_node'):
        stores = []
        for bb, t in NB.calls():
            nm = callee_of(t)[0] or ''
            if nm.startswith('core::sync::atomic::') and nm.endswith('::store') and t['args'] and 'creation' in root_fields(NB, t['args'][0]):
                stores.append((bb, t))
        if not stores:
            continue
        sets = set(bb for bb, t in NB.calls() if any(n.endswith('PidAllocator::set_creation') for n in callee_names(t)))
        rets = set(NB.return_blocks())
        for sb, st_ in stores:
            n_cs += 1
            inst = '%s:creation.store#%d' % (NB.path.split('::{')[0].rsplit('::', 1)[-1], n_cs)
            before = [x for x in sets if NB.block_dominates(x, sb)]
            after = sets & (NB.reachable(sb) - {sb})
            if before or (after and NB.all_paths_pass(sb, after, rets)):
                # same value?
                vals_ok = True
                for x in (before or sorted(after)):
                    xt = NB.blocks[x]['t']
                    if len(xt['args']) > 1 and len(st_['args']) > 1 and canon(NB, xt['args'][1]) != canon(NB, st_['args'][1]):
                        vals_ok = False
                if vals_ok:
                    ctx.ok('C16.5-creation-stores-paired', inst, 'the same value goes to PidAllocator::set_creation', ctx.where(NB, sb))
                else:
                    ctx.bad('C16.5-creation-stores-paired', inst, 'the node field and the allocator are given different creation values', ctx.where(NB, sb), key='PAIR:%s:creation-values-differ' % NB.path.split('::{')[0])
            else:
                ctx.bad('C16.5-creation-stores-paired', inst, 'the node\'s creation field is stored here on a path that never calls PidAllocator::set_creation: pids made afterwards carry the allocator\'s old creation, references the new one',
                        ctx.where(NB, sb), key='PAIR:%s:creation-store-without-allocator' % NB.path.split('::{')[0])
    ctx.anchor(n_cs >= 1, 'stores to Node.creation')

    # one number space, one counter: a second allocator for the same node name hands out the same pids again
    ctx.rule('C16.6-single-allocator', 'the node owns exactly one PidAllocator (one field of that type, one construction per node constructor): two allocators over the same (node, creation) number the same pid space independently, '
             'so the k-th pid of one equals the k-th pid of the other', floor=2)
    ND = ctx.F.adts.get('edp_node::node::Node')
    if ctx.anchor(ND is not None, 'edp_node::node::Node'):
        fl = [f['n'] for f in ND['variants'][0]['fields'] if 'PidAllocator' in f['ty']]
        if len(fl) == 1:
            ctx.ok('C16.6-single-allocator', 'field', 'Node.%s' % fl[0])
        else:
            ctx.bad('C16.6-single-allocator', 'field', 'Node holds %d PidAllocator fields (%s): pids come from more than one counter' % (len(fl), fl), key='TYPE:edp_node::node::Node:allocator-fields:%d' % len(fl))
        for NB in P.all('edp_node'):
            news = [bb for bb, t in NB.calls() if any(n.endswith('PidAllocator::new') for n in callee_names(t))]
            if not news:
                continue
            inst = NB.path.split('::{')[0].rsplit('::', 1)[-1]
            if len(news) == 1:
                ctx.ok('C16.6-single-allocator', inst + ':new', 'one PidAllocator::new', ctx.where(NB, news[0]))
            else:
                ctx.bad('C16.6-single-allocator', inst + ':new', '%s constructs %d pid allocators for one node' % (inst, len(news)), ctx.where(NB, news[1]), key='WHO:%s:allocators-constructed:%d' % (NB.path.split('::{')[0], len(news)))

    # "references are pairwise distinct": whatever hands a reference to a caller hands out the one it has just made
    ctx.rule('C16.4-returned-references-fresh', 'every Ok(reference) returned by Node::monitor carries the value of the make_reference() call of that very invocation: a reference looked up from an earlier call and returned again is handed out twice',
             floor=1)
    MB = ctx.body('edp_node::node::Node::monitor::{closure#0}')
    if MB is not None:
        mrs = [bb for bb, t in MB.calls() if is_call_to(t, 'edp_node::node::Node::make_reference')]
        if ctx.anchor(len(mrs) == 1, 'Node::monitor: one make_reference call'):
            from ..core import unwrap as _unw16
            k16 = 0
            for bb, j, st in MB.stmts():
                if st['k'] == '=' and st['rv']['k'] == 'agg' and st['rv'].get('adt') == 'core::result::Result' and st['rv'].get('var') == 'Ok' and (st['pl']['l'] == 0 or 0 in MB.derived_locals([st['pl']['l']])):
                    k16 += 1
                    ro = _unw16(MB.origin(st['rv']['ops'][0]))[0]
                    if ro[0] == 'call' and ro[2] == mrs[0]:
                        ctx.ok('C16.4-returned-references-fresh', 'monitor:Ok#%d' % k16, 'the reference made by this call', ctx.where(MB, ln=st['ln']))
                    else:
                        ctx.bad('C16.4-returned-references-fresh', 'monitor:Ok#%d' % k16, 'Node::monitor returns a reference that does not come from its own make_reference() call (%s): the same reference is handed out by two calls' % (ro[:2],),
                                ctx.where(MB, ln=st['ln']), key='PROV:edp_node::node::Node::monitor:returns-old-reference')


def _vec_elems(B, op):
    """operands of a `vec![a,b,c]` literal feeding op"""
    o = B.origin(op)
    if o[0] != 'call' or not o[1] or 'into_vec' not in o[1]:
        return None
    t = B.blocks[o[2]]['t']
    boxo = B.origin(t['args'][0])
    # find the array aggregate stored through the box
    for bb, j, st in B.stmts():
        if st['k'] == '=' and st['rv']['k'] == 'agg' and st['rv']['ak'] == 'array' and st['pl'].get('p'):
            return st['rv']['ops']
    return None


def _field_expr(e):
    """field of self an argument expression denotes (path_eval form): ('field', ('arg', 1), name)"""
    while isinstance(e, tuple) and e and e[0] in ('cast',):
        e = e[2]
    if isinstance(e, tuple) and e and e[0] == 'field' and e[1] == ('arg', 1):
        return e[2]
    return None


def _wrapping_fn_of(e, bbs, depth=0):
    """is expression e the value returned by the call at one of `bbs`, passed only through wrap-around arithmetic
    (integer casts, remainder / mask / offset by constants, wrapping_* methods)?  A saturating or fallible conversion
    (try_from + unwrap_or, min, clamp, saturating_*) maps many counter values to one and does not qualify."""
    if depth > 10 or not isinstance(e, tuple) or not e:
        return False
    if e[0] == 'call':
        if e[2] in bbs:
            return True
        nm = str(e[1]).rsplit('::', 1)[-1]
        if nm.startswith('wrapping_') and e[3]:
            return _wrapping_fn_of(e[3][0], bbs, depth + 1)
        return False
    if e[0] == 'cast':
        return _wrapping_fn_of(e[2], bbs, depth + 1)
    if e[0] == 'bin' and e[1] in ('Rem', 'BitAnd', 'Add', 'AddUnchecked', 'Sub') and e[3][0] in ('const', 'bin', 'cast'):
        return _wrapping_fn_of(e[2], bbs, depth + 1) and not expr_mentions_call(e[3])
    return False


def expr_mentions_call(e):
    if isinstance(e, tuple) and e and e[0] == 'call':
        return True
    return isinstance(e, tuple) and any(expr_mentions_call(x) for x in e if isinstance(x, tuple))


def _short(e, depth=0):
    if not isinstance(e, tuple) or depth > 4:
        return str(e)
    if e[0] == 'call':
        return '%s(..)@bb%d' % (str(e[1]).rsplit('::', 1)[-1], e[2])
    if e[0] in ('bin',):
        return '%s(%s, %s)' % (e[1], _short(e[2], depth + 1), _short(e[3], depth + 1))
    if e[0] in ('cast', 'un'):
        return '%s(%s)' % (e[1], _short(e[2], depth + 1))
    if e[0] == 'field':
        return '%s.%s' % (_short(e[1], depth + 1), e[2])
    return str(e)


def _is_load_plus_one(binv, load_bbs):
    a, b = binv[2], binv[3]
    return a[0] == 'call' and a[2] in load_bbs and fold(b) == 1


def _derives_from_call(B, o, bbs, depth=0):
    if depth > 12 or o is None:
        return False
    if o[0] == 'call':
        return o[2] in bbs
    if o[0] == 'cast':
        return _derives_from_call(B, o[3], bbs, depth + 1)
    if o[0] == 'bin':
        return _derives_from_call(B, o[2], bbs, depth + 1) or _derives_from_call(B, o[3], bbs, depth + 1)
    if o[0] == 'proj':
        return _derives_from_call(B, o[1], bbs, depth + 1)
    if o[0] == 'un':
        return _derives_from_call(B, o[2], bbs, depth + 1)
    return False


_run_before_reset_rule = run


def run(ctx):
    _run_before_reset_rule(ctx)
    counters_never_replaced(ctx, 'C16.6-counters-never-replaced')


def counters_never_replaced(ctx, rule):
    """the node's counters live as long as the node: no method puts new ones in their place"""
    P = ctx.P
    ctx.rule(rule, 'no method of a live node assigns the node as a whole, or its pid allocator / reference counter field: a fresh counter starts again at the values already handed out '
             '(references and pids may be made before start() and after a failed one). A rule about what must not be there', floor=0)
    FIELDS = ('pid_allocator', 'reference_counter')
    n = 0
    for q in sorted(ctx.F.bodies):
        if not q.startswith('edp_node::node::Node::') or '::tests::' in q or ctx.F.bodies[q]['kind'] not in ('Fn', 'AssocFn', 'Closure'):
            continue
        DB = P.B(q)
        for bb, j, st in DB.stmts():
            if st['k'] != '=' or bb not in DB.live_blocks():
                continue
            pl = st['pl']
            pp = [x for x in (pl.get('p') or [])]
            names = [x.get('n') if isinstance(x, dict) else x for x in pp]
            lty = DB.local_ty(pl['l'])
            # `*self = ...` in a method is (*_1); in the body of an async method it is (*(_1.self)) - a deref of the captured &mut Node
            plain = [str(x).replace('upvar:', '') for x in names]
            whole = bool(plain) and plain[-1] == '*' and set(plain) <= {'*', 'self'} and ((lty.replace(' ', '').endswith('mutedp_node::node::Node')) or (pl['l'] == 1 and 'self' in plain))
            fld = [x for x in names if x in FIELDS]
            if fld and names[-1] in FIELDS:
                n += 1
                ctx.bad(rule, '%s:%s' % (q.split('::{')[0].rsplit('::', 1)[1], fld[0]), '%s assigns the node\'s %s: the new counter starts at values the old one has already handed out' % (q.split('::{')[0].rsplit('::', 1)[1], fld[0]),
                        ctx.where(DB, ln=st['ln']), key='SHAPE:%s:replaces-%s' % (q.split('::{')[0], fld[0]))
            elif whole:
                n += 1
                ctx.bad(rule, '%s:self' % q.split('::{')[0].rsplit('::', 1)[1], '%s assigns the whole node (*self = ...): allocator and reference counter are replaced by fresh ones that start at values already handed out' % q.split('::{')[0].rsplit('::', 1)[1],
                        ctx.where(DB, ln=st['ln']), key='SHAPE:%s:replaces-self' % q.split('::{')[0])
    if n == 0:
        ctx.ok(rule, 'none', 'no method assigns the node or one of its counters')
