"""C16 — allocated pids and references are unique under any interleaving.

LOCK: every access to next_id / next_serial lies inside the live range of the
wrap_lock guard; WHO: leaking accessors have no caller; per-path store/PROV
rules in allocate; atomic-RMW discipline on reference_counter; creation PROV.
"""
from ..core import callee_names, is_call_to, fold
from ..families import guard_flow

PA = 'edp_client::pid_allocator::PidAllocator'
ATOMIC_ACCESS = ('::load', '::store', '::fetch_add', '::fetch_sub', '::swap', '::compare_exchange',
                 '::compare_exchange_weak', '::fetch_update', '::fetch_max', '::fetch_min',
                 '::fetch_or', '::fetch_and', '::fetch_xor', '::fetch_nand', '::get_mut', '::into_inner', '::as_ptr')
RMW = ('::fetch_add',)


def is_atomic_call(t):
    for n in callee_names(t):
        if 'core::sync::atomic::Atomic' in n and any(n.endswith(s) for s in ATOMIC_ACCESS):
            return n.rsplit('::', 1)[1]
    return None


def field_of_self(B, op):
    """If the operand denotes self.<field> (through refs/derefs): the field name."""
    o = B.origin(op)
    if o[0] == 'arg' and o[1] == 1 and len(o[2]) >= 1:
        return o[2][0]
    return None


def run(ctx):
    P = ctx.P
    adt = ctx.F.adts.get(PA)
    if not ctx.anchor(adt is not None, PA):
        return
    fields = {f['n']: f for f in adt['variants'][0]['fields']}
    protected = [n for n in ('next_id', 'next_serial') if n in fields]
    ctx.anchor(len(protected) == 2, PA + '.{next_id,next_serial}')
    ctx.anchor('wrap_lock' in fields and 'Mutex' in fields['wrap_lock']['ty'], PA + '.wrap_lock: Mutex')
    ctx.rule('C16.0-private', 'the counters and the lock are private fields', floor=3)
    for n in protected + ['wrap_lock']:
        f = fields.get(n)
        if f is None:
            continue
        if f['vis'] == 'pub':
            ctx.bad('C16.0-private', n, 'field %s is public: any code can touch it outside the lock' % n, key='WHO:%s.%s:public' % (PA, n))
        else:
            ctx.ok('C16.0-private', n, 'visibility %s' % f['vis'])

    # ---- clause 1: LOCK ------------------------------------------------------------
    ctx.rule('C16.1-lock', 'every atomic access to next_id/next_serial (in any function of the workspace) happens while a wrap_lock guard is held on all paths', floor=5)
    ctx.rule('C16.2-escape', 'functions that hand out a reference to a protected counter have no caller in any library or example crate', floor=2)
    n_access = 0
    for B in P.all():
        if not B.path.startswith('edp_client::pid_allocator::'):
            # the fields are private to the module; accesses elsewhere are impossible (compiler-checked)
            continue
        accesses = []
        for bb, t in B.calls():
            kind = is_atomic_call(t)
            if kind and t['args']:
                f = field_of_self(B, t['args'][0])
                if f in protected:
                    accesses.append((bb, t, kind, f))
        # escapes: `&self.next_id` flowing into the return value
        for bb, j, st in B.stmts():
            if st['k'] == '=' and st['pl']['l'] == 0 and not st['pl'].get('p'):
                o = B.origin_place(st['pl']) if False else None
                rv = st['rv']
                src = None
                if rv['k'] == 'ref':
                    src = B.origin_place(rv['pl'])
                elif rv['k'] == 'use':
                    src = B.origin(rv['op'])
                if src and src[0] == 'arg' and src[1] == 1 and src[2] and src[2][0] in protected and B.path != PA + '::new':
                    callers = P.callers_of(lambda n, p=B.path: n == p)
                    inst = B.path
                    if callers:
                        ctx.bad('C16.2-escape', inst, 'returns a reference to %s and is called from %s' % (src[2][0], sorted({c[0] for c in callers})),
                                ctx.where(B), key='WHO:%s:called' % B.path)
                    else:
                        ctx.ok('C16.2-escape', inst, 'returns &%s; no caller in the analysed crates' % src[2][0], ctx.where(B))
        if not accesses:
            continue
        if B.path == PA + '::new':
            continue
        # lock acquisitions on self.wrap_lock in this body
        locks = []
        for bb, t in B.calls():
            if any(n.endswith('Mutex::<T>::lock') or n.endswith('Mutex::<T>::try_lock') for n in callee_names(t)) and t['args']:
                if field_of_self(B, t['args'][0]) == 'wrap_lock':
                    locks.append(bb)
        flows = [guard_flow(B, lb) for lb in locks]
        seen = {}
        for bb, t, kind, f in accesses:
            n_access += 1
            inst0 = '%s:%s(%s)' % (B.path, kind, f)
            k = seen.get(inst0, 0) + 1
            seen[inst0] = k
            inst = inst0 if k == 1 else '%s#%d' % (inst0, k)
            held = any(bt.get(bb) for (_, bt) in flows)
            if held:
                ctx.ok('C16.1-lock', inst, 'guard held on every path reaching the access', ctx.where(B, bb))
            else:
                ctx.bad('C16.1-lock', inst, 'access to %s not covered by a live wrap_lock guard on all paths (locks acquired in this function: %d)' % (f, len(locks)),
                        ctx.where(B, bb), key='LOCK:' + inst)

    # ---- clause 3: per-path discipline in allocate ------------------------------------
    B = ctx.body(PA + '::allocate')
    ctx.rule('C16.3-alloc-paths', 'allocate: one store to next_id per path; stored value is loaded id + 1 (or the reset together with a serial advance); returned pid carries the loaded id and the matching serial', floor=6)
    if B is not None:
        stores, loads, fadds, news = [], [], [], []
        for bb, t in B.calls():
            kind = is_atomic_call(t)
            f = field_of_self(B, t['args'][0]) if (kind and t['args']) else None
            if kind == 'store' and f == 'next_id':
                stores.append((bb, t))
            if kind == 'load' and f in ('next_id', 'next_serial'):
                loads.append((bb, t, f))
            if kind == 'fetch_add' and f == 'next_serial':
                fadds.append((bb, t))
            if is_call_to(t, 'erltf::types::ExternalPid::new'):
                news.append((bb, t))
        ctx.anchor(len(stores) >= 1 and len(news) >= 1 and any(f == 'next_id' for _, _, f in loads), PA + '::allocate:{load,store,ExternalPid::new}')
        id_load = [bb for bb, t, f in loads if f == 'next_id']
        # exactly one store on every path to each pid construction
        for nb, nt in news:
            through = [sb for sb, _ in stores]
            # (a) every path entry -> construction passes a store
            reach_wo = B.reachable(0, removed_blocks=through)
            passes = nb not in reach_wo
            # (b) no path passes two stores
            twice = any(s2 in B.reachable(B.blocks[s1]['t']['t']) for s1, _ in stores for s2, _ in stores if B.blocks[s1]['t'].get('t') is not None)
            which = [sb for sb, _ in stores if nb in B.reachable(sb)]
            inst = 'pid-construction@%s-path' % ('wrap' if any(fold(B.origin(st['args'][1])) is not None for sb, st in stores if sb in which) else 'normal')
            if passes and not twice and len(which) == 1:
                ctx.ok('C16.3-alloc-paths', inst + ':one-store', 'exactly one next_id store precedes the construction', ctx.where(B, nb))
            else:
                ctx.bad('C16.3-alloc-paths', inst + ':one-store', 'paths to the construction pass %s stores (must be exactly one)' % ('no' if not passes else 'several'),
                        ctx.where(B, nb), key='PATH:%s::allocate:%s:one-store' % (PA, inst))
            if len(which) != 1:
                continue
            sb = which[0]
            st = [t for b, t in stores if b == sb][0]
            val = B.origin(st['args'][1])
            cval = fold(val)
            id_arg = B.origin(nt['args'][1])
            ser_arg = B.origin(nt['args'][2])
            # returned id is the loaded id
            id_ok = id_arg[0] == 'call' and id_arg[2] in id_load
            if id_ok:
                ctx.ok('C16.3-alloc-paths', inst + ':id-prov', 'pid id is the value loaded from next_id', ctx.where(B, nb))
            else:
                ctx.bad('C16.3-alloc-paths', inst + ':id-prov', 'pid id does not come from the next_id load: %s' % (id_arg,), ctx.where(B, nb),
                        key='PROV:%s::allocate:%s:id' % (PA, inst))
            if cval is not None:
                # wrap path: reset + serial advance, returned serial derives from the advanced one
                fa = [fb for fb, _ in fadds if nb in B.reachable(fb)]
                if fa and _derives_from_call(B, ser_arg, fa):
                    ctx.ok('C16.3-alloc-paths', inst + ':serial', 'reset to %d together with fetch_add on next_serial; pid serial derives from the advanced serial' % cval, ctx.where(B, nb))
                else:
                    ctx.bad('C16.3-alloc-paths', inst + ':serial', 'wrap path: next_id reset without the returned serial deriving from an advance of next_serial',
                            ctx.where(B, nb), key='PROV:%s::allocate:%s:serial' % (PA, inst))
            else:
                # normal path: stored value = loaded id + 1
                good = (val[0] == 'proj' and val[1][0] == 'bin' and val[1][1].startswith('Add')
                        and _is_load_plus_one(val[1], id_load)) or (val[0] == 'bin' and val[1].startswith('Add') and _is_load_plus_one(val, id_load))
                if good:
                    ctx.ok('C16.3-alloc-paths', inst + ':store-value', 'stores loaded id + 1', ctx.where(B, sb))
                else:
                    ctx.bad('C16.3-alloc-paths', inst + ':store-value', 'stored next_id is not (loaded id + 1): %s' % (val,), ctx.where(B, sb),
                            key='PROV:%s::allocate:%s:store-value' % (PA, inst))
                ser_load = [bb for bb, t, f in loads if f == 'next_serial']
                if _derives_from_call(B, ser_arg, ser_load):
                    ctx.ok('C16.3-alloc-paths', inst + ':serial', 'pid serial derives from the next_serial load', ctx.where(B, nb))
                else:
                    ctx.bad('C16.3-alloc-paths', inst + ':serial', 'pid serial does not derive from next_serial', ctx.where(B, nb),
                            key='PROV:%s::allocate:%s:serial' % (PA, inst))
            # creation
            cr = B.origin(nt['args'][3])
            if cr[0] == 'call' and cr[1] and cr[1].endswith('::load') and field_of_self(B, B.blocks[cr[2]]['t']['args'][0]) == 'creation':
                ctx.ok('C16.5-creation', inst, 'creation read from the creation atomic', ctx.where(B, nb))
            else:
                ctx.bad('C16.5-creation', inst, 'pid creation does not come from self.creation: %s' % (cr,), ctx.where(B, nb),
                        key='PROV:%s::allocate:%s:creation' % (PA, inst))
        # the wrap test compares the loaded id
    ctx.rule('C16.5-creation', 'every pid / reference carries the creation read from the creation atomic', floor=3)

    # ---- clause 4: reference_counter discipline -----------------------------------------
    ctx.rule('C16.4-atomic-rmw', 'reference_counter is only touched through atomic read-modify-write (fetch_add); never load+store', floor=4)
    n = 0
    for B in P.all('edp_node'):
        seen = {}
        for bb, t in B.calls():
            kind = is_atomic_call(t)
            if not kind or not t['args']:
                continue
            o = B.origin(t['args'][0])
            names = o[2] if o[0] in ('arg', 'local') else (o[3] if o[0] == 'call' else ())
            if 'reference_counter' not in names:
                continue
            n += 1
            inst0 = '%s:%s' % (B.path, kind)
            k = seen.get(inst0, 0) + 1
            seen[inst0] = k
            inst = inst0 if k == 1 else '%s#%d' % (inst0, k)
            if kind == 'fetch_add':
                ctx.ok('C16.4-atomic-rmw', inst, 'atomic RMW', ctx.where(B, bb))
            else:
                ctx.bad('C16.4-atomic-rmw', inst, 'reference_counter accessed with %s (not an atomic read-modify-write)' % kind, ctx.where(B, bb),
                        key='ATOMIC:' + inst)
    # make_reference: three distinct words, creation from the atomic
    B = ctx.body('edp_node::node::Node::make_reference')
    if B is not None:
        news = [(bb, t) for bb, t in B.calls() if is_call_to(t, 'erltf::types::ExternalReference::new')]
        ctx.anchor(len(news) == 1, 'make_reference:ExternalReference::new')
        for nb, nt in news:
            cr = B.origin(nt['args'][1])
            okc = cr[0] == 'call' and cr[1] and cr[1].endswith('::load')
            if okc:
                o2 = B.origin(B.blocks[cr[2]]['t']['args'][0])
                okc = o2[0] == 'arg' and 'creation' in o2[2]
            if okc:
                ctx.ok('C16.5-creation', 'make_reference', 'creation read from the creation atomic', ctx.where(B, nb))
            else:
                ctx.bad('C16.5-creation', 'make_reference', 'reference creation does not come from self.creation', ctx.where(B, nb),
                        key='PROV:edp_node::node::Node::make_reference:creation')
            # id words: each from its own fetch_add
            ids = B.origin(nt['args'][2])
            words = _vec_elems(B, nt['args'][2])
            if words is None:
                ctx.undecided('C16.4-ref-words', 'make_reference', 'id vector shape not recognised')
            else:
                srcs = []
                for w in words:
                    o = B.origin(w)
                    srcs.append(o[2] if (o[0] == 'call' and o[1] and o[1].endswith('::fetch_add')) else None)
                if None not in srcs and len(set(srcs)) == len(srcs) and len(srcs) >= 1:
                    ctx.ok('C16.4-ref-words', 'make_reference', '%d id words, each from its own fetch_add' % len(srcs), ctx.where(B, nb))
                else:
                    ctx.bad('C16.4-ref-words', 'make_reference', 'id words do not each come from a distinct atomic fetch_add: %s' % (srcs,), ctx.where(B, nb),
                            key='PROV:edp_node::node::Node::make_reference:words')
    ctx.rule('C16.4-ref-words', 'each word of a fresh reference comes from its own fetch_add on reference_counter', floor=1)


def _vec_elems(B, op):
    """operands of a `vec![a,b,c]` literal feeding op"""
    o = B.origin(op)
    if o[0] != 'call' or not o[1] or 'into_vec' not in o[1]:
        return None
    t = B.blocks[o[2]]['t']
    boxo = B.origin(t['args'][0])
    # find the array aggregate stored through the box
    for bb, j, st in B.stmts():
        if st['k'] == '=' and st['rv']['k'] == 'agg' and st['rv']['ak'] == 'array' and st['pl'].get('p'):
            return st['rv']['ops']
    return None


def _is_load_plus_one(binv, load_bbs):
    a, b = binv[2], binv[3]
    return a[0] == 'call' and a[2] in load_bbs and fold(b) == 1


def _derives_from_call(B, o, bbs, depth=0):
    if depth > 12 or o is None:
        return False
    if o[0] == 'call':
        return o[2] in bbs
    if o[0] == 'cast':
        return _derives_from_call(B, o[3], bbs, depth + 1)
    if o[0] == 'bin':
        return _derives_from_call(B, o[2], bbs, depth + 1) or _derives_from_call(B, o[3], bbs, depth + 1)
    if o[0] == 'proj':
        return _derives_from_call(B, o[1], bbs, depth + 1)
    if o[0] == 'un':
        return _derives_from_call(B, o[2], bbs, depth + 1)
    return False
