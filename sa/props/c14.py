"""C14 — distribution headers and the atom cache resolve every atom correctly.

WIRE: header writer <-> header reader <-> spec; parity rule for the LongAtoms bit;
type/PROV rules on the atom cache (key width, position vs internal index); CAST on
what the header writes; cache lifetime; the fragment-header consumer.
"""
from ..core import callee_of, callee_names, is_call_to, unwrap, receiver_root, fold, dominating_edges, value_path
from ..ranges import canon, Ranges
from ..families import describe, check_casts, check_panics, operand_chain, bodies_of_fn
from ..etf import DEC, ENC, writer_paths, dispatch_table, OWNED
from ..wire import signature, fmt_sig, _sccs

W = ENC + 'encode_with_dist_header_multi'
R = DEC + 'parse_dist_header_with_cache'
RECV = 'edp_client::connection::Connection::receive_message::{closure#0}'


def header_rules(ctx):
    """clauses 1 and 2 (and the CAST clause): what the header writer emits and the reader expects"""
    P = ctx.P
    WB, RB = ctx.body(W), ctx.body(R)
    if WB is None or RB is None:
        return
    # ---------------- clause 1: layouts -----------------------------------------------------------
    ctx.rule('C14.1-header-layout', 'header writer, header reader and the format agree: 131 68 u8(n) [flags(n/2+1) n x (u8 index [, len, text])] terms; with no atoms a header with n = 0 is still written', floor=4)
    paths = writer_paths(P, W)
    starts = []
    for pth in paths:
        raw = pth['raw']
        head = []
        for e in raw[:3]:
            if isinstance(e, tuple) and e and e[0] == 'w':
                head.append((e[1], e[2]))
        starts.append(head)
    # every writer path must begin 131, 68, <count>
    k = 0
    for head in starts:
        k += 1
        inst = 'writer-path-%d' % k
        ok = len(head) >= 3 and head[0] == ('u8', 131) and head[1] == ('u8', 68) and head[2][0] == 'u8'
        if ok:
            ctx.ok('C14.1-header-layout', inst, 'starts with 131, 68, u8(%s)' % (head[2][1],), ctx.where(WB))
        else:
            ctx.bad('C14.1-header-layout', inst, 'a path of the header encoder does not start with 131, 68, count (it writes %s): an independent implementation of the header layout cannot read it' % head,
                    ctx.where(WB), key='WIRE:%s:no-header:%s' % (W, '-'.join(str(h[1]) for h in head[:2])))
    # ... and the flags section exists only when there is at least one reference (the reader goes straight to the terms when n = 0)
    from ..ranges import Ranges as _R14, canon as _canon14
    RW = _R14(WB)
    n_fl = 0
    for bb in sorted(WB.live_blocks()):
        cands = []
        for st in WB.blocks[bb]['s']:
            if st['k'] == '=' and st['rv']['k'] == 'agg' and str(st['rv'].get('adt', '')).endswith('ops::range::Range') and len(st['rv']['ops']) == 2:
                cands.append(st['rv']['ops'][1])
        t_ = WB.blocks[bb]['t']
        if t_['k'] == 'call' and (callee_of(t_)[0] or '').endswith('::put_bytes') and len(t_['args']) > 2:
            cands.append(t_['args'][2])
        for op_ in cands:
            WB._cur_at = (bb, None)
            c_ = _canon14(WB, op_)
            WB._cur_at = None
            if c_[0] == 'bin' and c_[1] == 'Add' and c_[3] == ('const', 1) and c_[2][0] == 'bin' and c_[2][1] == 'Div' and c_[2][3] == ('const', 2):
                n_fl += 1
                r_ = RW._range_canon(c_[2][2], bb, None, True, 0)
                if r_[0] >= 1:
                    ctx.ok('C14.1-header-layout', 'flags-only-with-references', 'the n/2 + 1 flag bytes are written with n known to be at least 1 (n in [%s, %s])' % (r_[0], r_[1]), ctx.where(WB, bb))
                else:
                    ctx.bad('C14.1-header-layout', 'flags-only-with-references', 'the n/2 + 1 flag bytes are written also when there is no atom cache reference (n may be 0): the format has no flags section then, '
                            'and a reader takes the stray byte for the first term', ctx.where(WB, bb), key='WIRE:dist-header:flags-when-empty')
    ctx.anchor(n_fl >= 1, W + ': the write of the n/2 + 1 flag bytes')
    # flags length n/2 + 1 on both sides
    wl = None
    for pth in paths:
        for e in pth['raw']:
            if isinstance(e, tuple) and e and e[0] == 'rep':
                pass
    wsig = [p_['layout'] for p_ in paths if p_['layout'] and 'rep[' in p_['layout']]
    rsig, _ = signature(RB, subcalls={DEC + 'parse_term': ('term',)})
    rs = sorted(fmt_sig(s) for s in rsig)
    flags_w = any('Add(Div(' in (l or '') and ',2),1)' in l for l in wsig)
    flags_r = any('Add(Div(' in l and ',2),1)' in l for l in rs)
    if flags_w and flags_r:
        ctx.ok('C14.1-header-layout', 'flags-length', 'both sides use n/2 + 1 flag bytes (writer `%s`)' % wsig[0][:90], ctx.where(RB))
    else:
        ctx.bad('C14.1-header-layout', 'flags-length', 'flag-byte count is not n/2 + 1 on both sides: writer %s, reader %s' % (wsig, rs), ctx.where(RB), key='WIRE:dist-header:flags-length')
    # entry layout: u8 index, then len (u8|u16), then text; reader loop bounded by n
    entry_w = [l for l in wsig if 'u8 u8 u16 bytes' in l or 'u8 u16 u8 bytes' in l]
    entry_r = [l for l in rs if 'rep[#0](u8 u8 u16 bytes' in l or 'rep[#0](u8 u16 u8 bytes' in l]
    if entry_w and entry_r:
        ctx.ok('C14.1-header-layout', 'entries', 'n entries of u8 index, u8|u16 length, text on both sides', ctx.where(RB))
    else:
        ctx.bad('C14.1-header-layout', 'entries', 'entry layout differs: writer %s, reader %s' % (wsig, rs), ctx.where(RB), key='WIRE:dist-header:entries')

    # ---------------- clause 2: LongAtoms parity ---------------------------------------------------------
    ctx.rule('C14.2-longatoms-parity', 'the LongAtoms bit lives in flag field n: bit 0 of byte n/2 when n is even, bit 4 when n is odd; a mask that is one compile-time constant cannot depend on the parity', floor=2)
    for B, side in ((WB, 'writer'), (RB, 'reader')):
        found = False
        for bb, j, st in B.stmts():
            if st['k'] != '=' or st['rv']['k'] != 'bin' or st['rv']['op'] not in ('BitAnd', 'BitOr'):
                continue
            a, b = st['rv']['a'], st['rv']['b']
            ca, cb = canon(B, a), canon(B, b)
            s = str(ca) + str(cb)
            # the operation on the LAST flag byte: index expression ... - 1
            last = ("'Sub'" in s and "('const', 1)" in s)
            if not last:
                continue
            found = True
            mask = cb if "'Sub'" in str(ca) else ca
            mask_op = b if "'Sub'" in str(ca) else a
            rng = Ranges(B).range_of(mask_op, bb)
            inst = side
            if mask[0] == 'const':
                ctx.bad('C14.2-longatoms-parity', inst, 'the %s tests/sets the LongAtoms bit with the constant mask %#x for every reference count: with an odd count the bit belongs to the high half (0x10), so a real peer\'s long-atom header is misread and ours sets a segment-index bit of the last entry instead' % (side, mask[1]),
                        ctx.where(B, ln=st['ln']), key='SHAPE:dist-header:%s:constant-longatoms-mask' % side)
            elif rng == (1, 16) or (rng[0] == 1 and rng[1] == 16):
                # the mask is 0x01 or 0x10: it must be selected by the parity of the count
                par = _selected_by_parity(B, mask_op)
                if par == 'wrong':
                    ctx.bad('C14.2-longatoms-parity', inst, 'the %s selects the LongAtoms mask with the parity test the wrong way round: 0x01 (low half) for an odd reference count and 0x10 for an even one; '
                            'the flag lives in the low half of the last flag byte when the count is EVEN' % side, ctx.where(B, ln=st['ln']), key='SHAPE:dist-header:%s:longatoms-parity-inverted' % side)
                elif par:
                    ctx.ok('C14.2-longatoms-parity', inst, 'mask is 0x01 / 0x10 selected by the parity of the reference count', ctx.where(B, ln=st['ln']))
                else:
                    ctx.undecided('C14.2-longatoms-parity', inst, 'mask takes the values 0x01/0x10 but the selecting condition was not recognised as a parity test', ctx.where(B, ln=st['ln']))
            else:
                ctx.undecided('C14.2-longatoms-parity', inst, 'mask is not constant (range %s); shape not recognised' % (rng,), ctx.where(B, ln=st['ln']))
        if not found:
            # the flags may be read through an accessor `field(k)` = four-bit field number k; then LongAtoms must be field(n) & 1
            acc = _accessor_calls(ctx.P, B)
            if acc:
                found = True
                cnt = None
                for bb2, t2 in B.calls():
                    if (callee_of(t2)[0] or '').endswith('be_u8') and cnt is None:
                        cnt = ('place', ('payload', ('call', callee_of(t2)[0], bb2)), ('1',))
                for (cb_, ct_, verdict, karg) in acc:
                    r_ = ct_['dst']['l']
                    dl = B.derived_locals([r_]) | {r_}
                    is_long = any(st2['k'] == '=' and st2['rv']['k'] == 'bin' and st2['rv']['op'] == 'BitAnd' and any(l in dl for l in B._op_locals(st2['rv']['a']) + B._op_locals(st2['rv']['b']))
                                  and (fold(B.origin(st2['rv']['a'])) == 1 or fold(B.origin(st2['rv']['b'])) == 1) for _b, _j, st2 in B.stmts())
                    if not is_long:
                        continue
                    k_ = karg
                    while isinstance(k_, tuple) and k_ and k_[0] == 'cast':
                        k_ = k_[2]
                    where_ = ctx.where(B, cb_)
                    if verdict == 'wrong':
                        ctx.bad('C14.2-longatoms-parity', side, 'the flag-field accessor takes the HIGH half of a byte for an even field number and the low half for an odd one', where_, key='SHAPE:dist-header:%s:longatoms-parity-inverted' % side)
                    elif cnt is not None and k_ == cnt:
                        ctx.ok('C14.2-longatoms-parity', side, 'LongAtoms = field(n) & 1 through a four-bit field accessor (low half for even, high half for odd field numbers)', where_)
                    else:
                        ctx.bad('C14.2-longatoms-parity', side, 'the LongAtoms bit is read from flag field %s, not from field n (n = number of references): for one of the two parities of n that is a different half-byte '
                                '(the padding, or the last entry\'s flags), so a long-atom header is read with one-byte lengths' % describe(B, karg), where_, key='SHAPE:dist-header:%s:longatoms-wrong-field' % side)
                    break
                else:
                    found = False
        if not found:
            ctx.undecided('C14.2-longatoms-parity', side, 'no bit operation on the last flag byte found')


    # one decision, two uses: the bool that sets the LongAtoms flag is the bool that picks the width of every length field
    ctx.rule('C14.2-length-width-follows-flag', 'in the header writer every atom length is written with two bytes exactly when the LongAtoms flag is set: the branch that selects put_u16 / put_u8 for the length tests the same value '
             'as the branch that sets the flag (a per-atom choice gives short atoms one length byte in a header that announces two)', floor=1)
    from ..wire import prim_of as _prim14, _val as _val14

    def guards(bb_):
        out_ = []
        for (src, vals, dst) in dominating_edges(WB, bb_):
            sb = WB.switch_bool_edges(src)
            if sb:
                out_.append(((sb[0][0], sb[0][1]), dst == sb[1]))
        return out_
    flag_sites = [bb for bb, j, st in WB.stmts() if st['k'] == '=' and st['rv']['k'] == 'bin' and st['rv']['op'] == 'BitOr' and "'Sub'" in (str(canon(WB, st['rv']['a'])) + str(canon(WB, st['rv']['b'])))]
    name_lens = [t['dst']['l'] for bb, t in WB.calls() if (callee_of(t)[0] or '').endswith('::len') and t['args'] and "'name'" in (str(canon(WB, t['args'][0])) + str(operand_chain(WB, t['args'][0])))]
    dl14 = WB.derived_locals(name_lens) | set(name_lens)
    lens = [(bb, _prim14(t)[1]) for bb, t in WB.calls() if _prim14(t) is not None and _prim14(t)[0] == 'w' and _prim14(t)[1] in ('u8', 'u16') and len(t['args']) > 1
            and (any(l in dl14 for l in WB._op_locals(t['args'][1])) or ('len(' in str(_val14(WB, t['args'][1])) and "'name'" in str(canon(WB, t['args'][1]))))]
    if flag_sites and lens:
        fg = [g for g in guards(flag_sites[0]) if g[1]]
        decided = fg[-1][0] if fg else None
        for bb, w in lens:
            gs = dict(guards(bb))
            inst = 'length:%s' % w
            if decided is not None and decided in gs and gs[decided] == (w == 'u16'):
                ctx.ok('C14.2-length-width-follows-flag', inst, 'selected by the value that sets the LongAtoms flag', ctx.where(WB, bb))
            else:
                ctx.bad('C14.2-length-width-follows-flag', inst, 'the %s-wide atom length is not selected by the decision that sets the LongAtoms flag: in a header with the flag set some lengths are written with one byte (or the other way round) and every reader loses step'
                        % ('two-byte' if w == 'u16' else 'one-byte'), ctx.where(WB, bb), key='SHAPE:dist-header:writer:length-width-not-by-flag')
    else:
        ctx.undecided('C14.2-length-width-follows-flag', 'writer', 'flag site / length writes not located (%d / %d)' % (len(flag_sites), len(lens)))

    # the text of a new cache entry is UTF-8 (the header has no Latin-1 form): every way to the insert validates it as such
    ctx.rule('C14.1-entries-are-utf8', 'in the header reader every path that stores a new cache entry has passed a UTF-8 conversion of the entry bytes (str::from_utf8 ...): a byte-per-character reading, right for the '
             'legacy atom tags, turns every non-ASCII atom of a header into another atom - for every later message that refers to the entry', floor=1)
    for XB in bodies_of_fn(ctx.P, DEC + 'parse_dist_header_with_cache')[:1]:
        ins = [bb for bb, t in XB.calls() if (callee_of(t)[0] or '') == DEC + 'AtomCache::insert' and bb in XB.live_blocks()]
        utf8 = set(bb for bb, t in XB.calls() if any(n.endswith('::from_utf8') or n.endswith('::from_utf8_lossy') for n in callee_names(t)))
        if not ctx.anchor(bool(ins), DEC + 'parse_dist_header_with_cache: AtomCache::insert'):
            continue
        bad_ = [bb for bb in ins if not (utf8 and XB.all_paths_pass(0, utf8, to_blocks=[bb]))]
        if bad_:
            ctx.bad('C14.1-entries-are-utf8', 'header-reader', 'a new atom cache entry can be stored without its bytes having been read as UTF-8: a non-ASCII atom introduced through a distribution header becomes another atom',
                    ctx.where(XB, bad_[0]), key='SHAPE:%sparse_dist_header_with_cache:entry-not-utf8' % DEC)
        else:
            ctx.ok('C14.1-entries-are-utf8', 'header-reader', 'every insert is behind a UTF-8 conversion of the entry text', ctx.where(XB, ins[0]))


def cache_threading(ctx, rule):
    P = ctx.P
    # inside the decoder: the cache parameter itself is what the header parser updates
    ctx.rule(rule, 'a decoder function that receives the persistent cache (&mut AtomCache) hands that very cache to whatever updates it; '
             'if it works on a copy, every return - the error returns too - is preceded by writing the copy back (the peer keeps the entries of a header whose message this side rejects)', floor=3)
    for p in sorted(q for q in ctx.F.bodies if (q.startswith(DEC) and ctx.F.bodies[q]['kind'] == 'Fn') or (q.startswith('edp_client::connection::') and ctx.F.bodies[q]['kind'] in ('Fn', 'AssocFn', 'Closure'))):
        DB = P.B(p)
        params = [i for i in range(1, DB.b['argc'] + 1) if 'mut' in DB.local_ty(i) and 'AtomCache' in DB.local_ty(i)]
        if not params and not p.startswith(DEC):
            # the connection's own cache is the field: `&mut self.atom_cache`
            if not any('AtomCache' in str(t_.get('aty')) for b_, t_ in DB.calls()):
                continue
        elif not params:
            continue
        k = 0
        for bb, t in DB.calls():
            for i, ty in enumerate(t.get('aty') or []):
                if not ('mut' in ty and 'AtomCache' in ty):
                    continue
                k += 1
                inst = '%s->%s%s' % (p.rsplit('::', 1)[1], (callee_of(t)[0] or '?').rsplit('::', 1)[1], '' if k == 1 else '#%d' % k)
                root = receiver_root(DB, t['args'][i])[0]
                vp = value_path(DB, t['args'][i])
                copied = any(isinstance(x, str) and any(x.endswith(y) for y in ('::clone', '::to_owned', '::default', '::new')) for x in vp)
                own_field = root is not None and root[0] == 'arg' and 'atom_cache' in [str(x).replace('upvar:', '') for x in (receiver_root(DB, t['args'][i])[1] or ())]
                if root is not None and root[0] == 'arg' and (root[1] in params or own_field) and not copied:
                    ctx.ok(rule, inst, 'passes its own cache', ctx.where(DB, bb))
                    continue
                if not params and not copied:
                    continue
                # a copy: EVERY return reachable from here - the error returns too - must be dominated by a store through the parameter / field:
                # the peer has entered the header's entries into its own cache whatever this side thinks of the rest of the message
                oks = [b3 for b3, j3, st3 in DB.stmts() if st3['k'] == '=' and DB.is_ret_slot(st3['pl']['l']) and st3['rv']['k'] == 'agg' and st3['rv'].get('var') in ('Ok', 'Err') and b3 in DB.reachable(bb)]
                oks += [b3 for b3, t3 in DB.calls() if b3 in DB.reachable(bb) and DB.is_ret_slot(t3['dst']['l']) and not t3['dst'].get('p') and any(n_.endswith('FromResidual::from_residual') for n_ in callee_names(t3))]
                stores = [b3 for b3, j3, st3 in DB.stmts() if st3['k'] == '=' and ((st3['pl']['l'] in params and st3['pl'].get('p') == ['*'])
                          or ((st3['pl'].get('p') or []) and isinstance(st3['pl']['p'][-1], dict) and st3['pl']['p'][-1].get('n') == 'atom_cache'))]
                missing = [b3 for b3 in oks if not any(DB.block_dominates(s_, b3) for s_ in stores)]
                if oks and not missing:
                    ctx.ok(rule, inst, 'works on a copy that is written back before every return, the error returns included', ctx.where(DB, bb))
                else:
                    ctx.bad(rule, inst, '%s hands a copy (%s) to the cache-updating callee instead of its own cache parameter, and %d of %d returns are not preceded by writing it back: '
                            'entries created or overwritten by this message are lost for the following ones' % (p.rsplit('::', 1)[1], ' <- '.join(str(x).rsplit('::', 1)[-1] for x in vp), len(missing), len(oks)),
                            ctx.where(DB, missing[0] if missing else bb), key='PROV:%s:cache-copy-not-written-back' % p)

    # nothing takes entries out of the persistent cache or replaces it by an empty one
    grow = rule + '/only-added-to'
    ctx.rule(grow, 'the persistent atom cache is only ever added to: no function of the decoder or the connection removes, clears or filters its entries or puts a fresh cache in its place '
             '(the peer refers to every entry it has ever announced by number, whatever became of the message that announced it)', floor=1)
    SHRINK = ('::remove', '::remove_entry', '::clear', '::retain', '::drain', '::extract_if', '::pop_first', '::pop_last', '::truncate', '::split_off', '::take')
    n_ins = 0
    for p in sorted(q for q in ctx.F.bodies if (q.startswith(DEC) or q.startswith('edp_client::connection::')) and '::tests::' not in q):
        DB = P.B(p)
        in_cache_impl = p.startswith(DEC + 'AtomCache::')
        for bb, t in DB.calls():
            if bb not in DB.live_blocks() or not t.get('args'):
                continue
            rty = (t.get('aty') or [''])[0]
            names = callee_names(t)
            rr = receiver_root(DB, t['args'][0])
            path_ = [str(x).replace('upvar:', '') for x in (rr[1] or ())]
            root_is_cache = rr[0] is not None and rr[0][0] == 'arg' and isinstance(rr[0][1], int) and 'AtomCache' in DB.local_ty(rr[0][1])
            on_cache = 'AtomCache' in rty or ((in_cache_impl or root_is_cache) and 'atoms' in path_) or 'atom_cache' in path_
            if not on_cache:
                continue
            if any(n.endswith('::insert') for n in names):
                n_ins += 1
                ctx.ok(grow, '%s:insert' % p.rsplit('::', 1)[1] if not in_cache_impl else 'AtomCache::%s:insert' % p.rsplit('::', 1)[1], 'adds an entry', ctx.where(DB, bb))
            if any(n.endswith(x) for n in names for x in SHRINK) and not any(n.startswith(DEC + 'AtomCache::') and not n.endswith(SHRINK) for n in names):
                ctx.bad(grow, '%s:%s' % (p.rsplit('::', 1)[1], names[0].rsplit('::', 1)[1]),
                        '%s takes entries out of the persistent atom cache (%s): a later message of the peer that refers to such an entry by number resolves to another atom or fails' % (p.replace(DEC, '').replace('edp_client::connection::', ''), names[0].rsplit('::', 1)[1]),
                        ctx.where(DB, bb), key='SHAPE:%s:cache-shrinks:%s' % (p, names[0].rsplit('::', 1)[1]))
        # a fresh cache stored over the existing one
        for bb, j, st in DB.stmts():
            if st['k'] != '=' or bb not in DB.live_blocks():
                continue
            pl = st['pl']
            pp = pl.get('p') or []
            tgt = (pp and isinstance(pp[-1], dict) and pp[-1].get('n') == 'atom_cache') or (pp == ['*'] and 'AtomCache' in DB.local_ty(pl['l']) and 1 <= pl['l'] <= DB.b['argc'])
            if not tgt:
                continue
            vp = value_path(DB, st['rv'].get('op') or st['rv']) if st['rv']['k'] in ('use', 'move', 'copy') or st['rv'].get('op') else []
            if any(isinstance(x, str) and (x.endswith('AtomCache::new') or x.endswith('::default')) for x in vp):
                ctx.bad(grow, '%s:reset' % p.rsplit('::', 1)[1], '%s puts a fresh, empty cache in the place of the persistent one: every entry the peer announced before is gone' % p.rsplit('::', 1)[1],
                        ctx.where(DB, bb), key='SHAPE:%s:cache-reset' % p)
    if n_ins == 0:
        ctx.ok(grow, 'none', 'no insert found (the geometry rule reports a missing writer)')
    # ... and what a header announces is entered where it is read, not parked for a later step that an error return skips
    for p in sorted(q for q in ctx.F.bodies if q.startswith(DEC) and ctx.F.bodies[q]['kind'] == 'Fn'):
        DB = P.B(p)
        if not any('mut' in DB.local_ty(i) and 'AtomCache' in DB.local_ty(i) for i in range(1, DB.b['argc'] + 1)):
            continue
        reads = [bb for bb, t in DB.calls() if bb in DB.live_blocks() and any(n.endswith('::from_utf8') or n.endswith('::from_utf8_lossy') for n in callee_names(t))]
        if not reads:
            continue
        ins = []
        for bb, t in DB.calls():
            if bb in DB.live_blocks() and t.get('args') and any(n.endswith('HashMap::<K, V, S, A>::insert') or n.endswith('::insert') for n in callee_names(t)):
                rr = receiver_root(DB, t['args'][0])
                if rr[0] is not None and rr[0][0] == 'arg' and isinstance(rr[0][1], int) and 'AtomCache' in DB.local_ty(rr[0][1]):
                    ins.append(bb)
        if ins and any(DB.reachable(r) and i_ in DB.reachable(r) for r in reads for i_ in ins):
            ctx.ok(grow, '%s:entered-where-read' % p.rsplit('::', 1)[1], 'the function that reads a header entry\'s text enters it into the cache\'s map itself', ctx.where(DB, ins[0]))
        else:
            ctx.bad(grow, '%s:entered-where-read' % p.rsplit('::', 1)[1], '%s reads the text of new header entries but does not enter them into the cache\'s map: they are parked somewhere and a later step has to move them - '
                    'a step that an error return between the two skips, although the peer has announced them' % p.rsplit('::', 1)[1], ctx.where(DB, reads[0]), key='SHAPE:%s:entries-not-entered-where-read' % p)


def run(ctx):
    P = ctx.P
    WB, RB = ctx.body(W), ctx.body(R)
    if WB is None or RB is None:
        return
    header_rules(ctx)
    # ---------------- clause 3: cache key width and reference resolution --------------------------------------
    ctx.rule('C14.3-cache-geometry', 'the persistent atom cache must distinguish 8 segments x 256 entries (11 bits) and ATOM_CACHE_REF k must resolve through entry k of the current header', floor=2)
    adt = ctx.F.adts.get(DEC + 'AtomCache')
    if ctx.anchor(adt is not None, DEC + 'AtomCache'):
        tys = {f['n']: f['ty'] for f in adt['variants'][0]['fields']}
        kt = tys.get('atoms', '')
        if 'HashMap<u8,' in kt or 'BTreeMap<u8,' in kt:
            ctx.bad('C14.3-cache-geometry', 'key-width', 'AtomCache is keyed by u8 (%s): entries of different cache segments with the same internal index overwrite each other, so a reference to an atom cached by a real peer in segment s > 0 resolves to the wrong atom' % kt,
                    key='TYPE:%sAtomCache:key-u8' % DEC)
        else:
            ctx.ok('C14.3-cache-geometry', 'key-width', 'cache keyed by %s' % kt)
    # ATOM_CACHE_REF arm: what indexes the lookup?
    dec, Bd = dispatch_table(ctx, DEC + 'parse_term_from_tag', OWNED)
    if dec is not None and 82 in dec:
        reg = Bd.reachable(dec[82]['bb'])
        gets = [(bb, t) for bb, t in Bd.calls() if bb in reg and is_call_to(t, DEC + 'AtomCache::get')]
        # does the reader keep a per-header table filled by loop position?
        per_header = False
        for bb, t in RB.calls():
            for n in callee_names(t):
                if n.endswith('Vec::<T, A>::push') or n.endswith('::insert'):
                    # key derived from the loop variable (position) rather than from the byte read
                    if len(t['args']) > 1:
                        kc = str(canon(RB, t['args'][1]))
                        if 'Iterator::next' in kc and 'be_u8' not in kc:
                            per_header = True
        if gets and not per_header:
            ctx.bad('C14.3-cache-geometry', 'ref-resolution', 'ATOM_CACHE_REF k is looked up directly in the persistent cache by k, and the header reader stores entries under their internal index only: k is the POSITION in the current header, which differs from the internal index as soon as a real peer reuses or reorders cache slots',
                    ctx.where(Bd, gets[0][0]), key='PROV:ATOM_CACHE_REF:resolved-by-internal-index')
        elif gets:
            ctx.ok('C14.3-cache-geometry', 'ref-resolution', 'references resolve through a per-header position table')
        else:
            ctx.undecided('C14.3-cache-geometry', 'ref-resolution', 'ATOM_CACHE_REF arm not recognised')

    # inside the header reader the cache is addressed by the index byte of the entry, never by the entry's position in the header
    ctx.rule('C14.3-cache-keyed-by-wire-index', 'every access to the atom cache in the header reader (insert, get, contains ...) is keyed by the internal index byte read for that entry: the position of the entry in the header '
             '(the loop counter) is another number as soon as a peer re-uses a slot at a different position', floor=1)
    n_ck = 0
    for XB in bodies_of_fn(P, DEC + 'parse_dist_header_with_cache'):
        for bb, t in XB.calls():
            nm = callee_of(t)[0] or ''
            if not (nm.startswith(DEC + 'AtomCache::') and nm.rsplit('::', 1)[-1] in ('get', 'insert', 'contains', 'contains_key', 'remove', 'get_mut', 'entry')) or len(t['args']) < 2:
                continue
            n_ck += 1
            kc = str(canon(XB, t['args'][1]))
            inst = 'header-reader:%s' % nm.rsplit('::', 1)[-1]
            if 'be_u8' in kc:
                ctx.ok('C14.3-cache-keyed-by-wire-index', inst, 'keyed by the byte read for this entry', ctx.where(XB, bb))
            else:
                ctx.bad('C14.3-cache-keyed-by-wire-index', inst, 'AtomCache::%s in the header reader is keyed by %s, not by the internal index byte of the entry: a header that re-uses a slot at another position looks at (or fills) the wrong slot'
                        % (nm.rsplit('::', 1)[-1], describe(XB, canon(XB, t['args'][1]))[:60]), ctx.where(XB, bb), key='PROV:%sparse_dist_header_with_cache:cache-keyed-by-position' % DEC)
    ctx.anchor(n_ck >= 1, DEC + 'parse_dist_header_with_cache: AtomCache::insert')

    # ---------------- clause 4: what the header writes is not truncated (CAST) -- shared with C01.3 -----------------
    ctx.rule('C14.4-cast', 'atom count and atom lengths written in the header are guarded', floor=3)
    from .c01 import REVIEWED_CAST, reviewed_premises
    check_casts(ctx, WB, 'C14.4-cast', include_float=False, reviewed=REVIEWED_CAST)
    reviewed_premises(ctx, 'C14.4-cast')

    # ---------------- clause 5: cache lifetime ----------------------------------------------------------------------
    ctx.rule('C14.5-cache-lifetime', 'the cache handed to the header decoder is the connection\'s own field (kept across messages), not a fresh value', floor=2)
    n = 0
    for p in sorted(ctx.F.bodies):
        if not p.startswith('edp_client::connection::'):
            continue
        CB = P.B(p)
        k = 0
        for bb, t in CB.calls():
            if is_call_to(t, DEC + 'decode_with_atom_cache'):
                n += 1
                k += 1
                base, projs = unwrap(CB.origin(t['args'][1]))
                names = [x for x in projs if isinstance(x, str)]
                inst = '%s#%d' % (p.split('::')[-2] if '{' in p.split('::')[-1] else p.split('::')[-1], k)
                if 'atom_cache' in names and any(x in ('upvar:self',) or x == 'self' for x in names) or (base[0] == 'arg' and (CB.local_name(base[1]) or '') == 'atom_cache'):
                    ctx.ok('C14.5-cache-lifetime', inst, 'cache argument is %s' % ('self.atom_cache' if 'atom_cache' in names else 'the caller\'s cache parameter'), ctx.where(CB, bb))
                else:
                    ctx.bad('C14.5-cache-lifetime', inst, 'decode_with_atom_cache is given %s %s, not the connection\'s atom cache: atoms cached by earlier messages cannot be resolved' % (base[:2], names),
                            ctx.where(CB, bb), key='PROV:%s:fresh-cache' % p)
    # decode_complete_fragment's parameter must itself be fed with self.atom_cache
    RC = P.B(RECV)
    if RC is not None:
        for bb, t in RC.calls():
            if is_call_to(t, 'edp_client::connection::Connection::decode_complete_fragment'):
                base, projs = unwrap(RC.origin(t['args'][1]))
                names = [x for x in projs if isinstance(x, str)]
                if 'atom_cache' in names:
                    ctx.ok('C14.5-cache-lifetime', 'receive_message->decode_complete_fragment', 'passes self.atom_cache', ctx.where(RC, bb))
                else:
                    ctx.bad('C14.5-cache-lifetime', 'receive_message->decode_complete_fragment', 'fragment decoding is given %s' % names, ctx.where(RC, bb),
                            key='PROV:%s:fragment-fresh-cache' % RECV)

    cache_threading(ctx, 'C14.5-cache-threading')
    # cached atoms are created with Atom::new (cache.insert(idx, Atom::new(text))): its interning tables must give back the same text
    ctx.rule('C14.3-atom-interning', 'every atom-cache entry and every resolved reference goes through Atom::new, whose two interning tables agree entry by entry', floor=1)
    from ..etf import check_atom_tables
    check_atom_tables(ctx, 'C14.3-atom-interning')
    # every place that accepts an atom accepts a cached-atom reference
    ctx.rule('C14.3-atom-positions', 'under a distribution header an atom may be written as ATOM_CACHE_REF wherever an atom is expected: every tag dispatch of the (cache-aware) owned decoder '
             'that lists the inline atom tags lists tag 82 as well', floor=1)
    ATOM_TAGS = {100, 115, 118, 119}
    n_disp = 0
    for p_ in sorted(q for q in ctx.F.bodies if q.startswith(DEC) and ctx.F.bodies[q]['kind'] in ('Fn', 'Closure') and 'borrowed' not in q):
        DB = P.B(p_)
        for bb in sorted(DB.live_blocks()):
            t = DB.blocks[bb]['t']
            if t['k'] != 'switch' or t.get('dty') != 'u8':
                continue
            vals = {v for v, _ in t['cases']}
            if len(vals & ATOM_TAGS) < 2:
                continue
            n_disp += 1
            inst = '%s:bb%d' % (p_.rsplit('::', 1)[1], bb) if n_disp > 1 else p_.rsplit('::', 1)[1]
            if 82 in vals:
                ctx.ok('C14.3-atom-positions', inst, 'dispatches the atom tags %s and ATOM_CACHE_REF' % sorted(vals & ATOM_TAGS), ctx.where(DB, bb))
            else:
                ctx.bad('C14.3-atom-positions', inst, '%s accepts the inline atom tags %s but not ATOM_CACHE_REF (82): under a distribution header, where the sender (this library\'s encoder included) writes atoms as cache references, '
                        'the term it parses cannot be decoded' % (p_.rsplit('::', 1)[1], sorted(vals & ATOM_TAGS)), ctx.where(DB, bb), key='TABLE:%s:atom-tags-without-cache-ref' % p_)
    ctx.anchor(n_disp >= 1, DEC + ': tag dispatch listing the atom tags')

    # ---------------- clause 6: fragment-header consumer ---------------------------------------------------------------
    ctx.rule('C14.6-fragment-header-section', 'after a fragment header the atom-cache section has the same layout as in a distribution header (u8 n, n/2+1 flag bytes, n entries); treating n as a byte length is wrong', floor=1)
    if RC is not None:
        hits = []
        for bb, t in RC.calls():
            g, r = callee_of(t)
            if g in ('core::ops::index::Index::index',) and len(t['args']) > 1:
                c = str(canon(RC, t['args'][1]))
                o = RC.origin(t['args'][1])
                if o[0] == 'agg' and 'num_atom_cache_refs' in str(canon(RC, o[1]['ops'][0])) if o[0] == 'agg' and o[1].get('ops') else False:
                    hits.append(bb)
        if hits:
            ctx.bad('C14.6-fragment-header-section', 'receive_message', 'the bytes after a fragment header are cut with remaining[..num_atom_cache_refs] / [num_atom_cache_refs..]: the reference COUNT is used as a byte LENGTH, so the flags and entries of a real first fragment end up in the payload',
                    ctx.where(RC, hits[0]), key='WIRE:%s:count-as-byte-length' % RECV)
        else:
            ctx.ok('C14.6-fragment-header-section', 'receive_message', 'the atom-cache section of a first fragment is not sliced by the reference count')

    # a slot of the persistent cache changes only when the sender overwrites THAT slot
    ctx.rule('C14.3-cache-slots', 'AtomCache::insert(index, atom) writes slot `index` and nothing else: no other slot is removed or rewritten as a side effect (the same text may live in two slots)', floor=1)
    for q in sorted(x for x in ctx.F.bodies if x.split('::{')[0] == DEC + 'AtomCache::insert'):
        IB = P.B(q)
        others = []
        good = 0
        for bb, t in IB.calls():
            names = callee_names(t)
            if not t['args'] or not any('HashMap' in n or 'BTreeMap' in n or 'Vec' in n for n in names):
                continue
            m = names[0].rsplit('::', 1)[1]
            if m in ('insert',):
                ko = unwrap(IB.origin(t['args'][1]))[0] if len(t['args']) > 1 else None
                if ko is not None and ko[0] == 'arg' and IB.local_name(ko[1]) in ('index', 'idx', 'slot'):
                    good += 1
                else:
                    others.append((bb, 'insert under another key'))
            elif m in ('remove', 'clear', 'retain', 'drain', 'remove_entry', 'truncate', 'swap_remove'):
                others.append((bb, m))
        if others:
            ctx.bad('C14.3-cache-slots', 'AtomCache::insert', 'inserting into one slot also performs %s on the cache: an entry of ANOTHER slot disappears, and a later reference to it (which the sender may legitimately re-use) cannot be resolved'
                    % sorted({m for _, m in others}), ctx.where(IB, others[0][0]), key='WHO:%sAtomCache::insert:touches-other-slots' % DEC)
        elif good:
            ctx.ok('C14.3-cache-slots', 'AtomCache::insert', 'one insert keyed by the index parameter', ctx.where(IB))
        else:
            ctx.undecided('C14.3-cache-slots', 'AtomCache::insert', 'no map insertion recognised')

    # a reference may only be written for an atom that has a header entry: the index byte is what the lookup found
    ctx.rule('C14.1-ref-only-on-hit', 'wherever the encoder writes ATOM_CACHE_REF the index byte that follows is the value the lookup of that atom in the header map returned (its Some payload): '
             'an atom without a header entry is written inline, never as a reference to a made-up index', floor=1)
    from ..etf import writer_events, encoder_fns
    from ..ranges import canon as _canon
    n_ref = 0
    for fn in sorted(encoder_fns(ctx.F)):
        WB, seqs, trunc = writer_events(P, fn)
        flat_seen = set()
        for seq in seqs:
            evs = [e for e in seq if isinstance(e, tuple) and e and e[0] in ('w', 'call')]
            for i_, e in enumerate(evs):
                if not (e[0] == 'w' and e[1] == 'u8' and e[2] == 82):
                    continue
                nxt = evs[i_ + 1] if i_ + 1 < len(evs) else None
                k_ = (e[-1], nxt[-1] if nxt else None)
                if k_ in flat_seen:
                    continue
                flat_seen.add(k_)
                n_ref += 1
                inst = '%s:ref@%d' % (fn.rsplit('::', 1)[1], n_ref)
                where = ctx.where(WB, e[-1])
                if nxt is None or nxt[0] != 'w' or nxt[1] != 'u8':
                    ctx.bad('C14.1-ref-only-on-hit', inst, 'ATOM_CACHE_REF is not followed by a one-byte index (%s)' % (nxt,), where, key='WIRE:%s:cache-ref-shape' % fn)
                    continue
                c = _canon(WB, WB.blocks[nxt[-1]]['t']['args'][1])
                hit = isinstance(c, tuple) and c[0] == 'place' and isinstance(c[1], tuple) and c[1][0] == 'call' and str(c[1][1]).endswith('::get') and 'HashMap' in str(c[1][1]) \
                    and tuple(c[2])[:2] == ('as:Some', '0')
                if hit:
                    ctx.ok('C14.1-ref-only-on-hit', inst, 'index = payload of the successful map lookup', where)
                else:
                    ctx.bad('C14.1-ref-only-on-hit', inst, 'the index written after ATOM_CACHE_REF is %s, not the value a successful lookup returned: an atom missing from the header is sent as a reference to an unrelated entry and decodes to another atom'
                            % describe(WB, c), where, key='PROV:%s:cache-ref-without-hit' % fn)
    ctx.anchor(n_ref >= 1, 'an encoder function writing ATOM_CACHE_REF')

    # the limit is enforced on the number of distinct atoms of the message, so the walk that counts them must not stop counting
    ctx.rule('C14.4-atom-walk-uncapped', 'the walk that gathers the atoms of a message into the set whose size is then tested against the 255 limit inserts every atom it meets: '
             'no branch of it depends on the size of that set (a walk that stops at the limit makes the "too many atoms" error unreachable)', floor=1)
    n_w = 0
    for q, b_ in sorted(ctx.F.bodies.items()):
        if not (q.startswith(ENC) and b_['kind'] == 'Fn'):
            continue
        sets = [i for i in range(1, b_.get('argc', 0) + 1) if 'HashSet<' in b_['locals'][i]['ty'] and 'Atom' in b_['locals'][i]['ty'] and b_['locals'][i]['ty'].startswith('&mut')]
        if not sets:
            continue
        n_w += 1
        WB = P.B(q)
        offending = []
        Rw = Ranges(WB)
        work = set(bb for bb, t in WB.calls() if any(n.endswith('::insert') or n == q for n in callee_names(t)))
        for bb, t in WB.calls():
            nm = callee_of(t)[0] or ''
            if nm.rsplit('::', 1)[-1] in ('len', 'is_empty') and 'HashSet' in nm and t['args']:
                root = receiver_root(WB, t['args'][0])[0]
                if not (root and root[0] == 'arg' and root[1] in sets):
                    continue
                # a branch decided by that size whose one side inserts nothing any more: the walk is cut short there
                ldst = t['dst']['l']
                dl = WB.derived_locals([ldst]) | {ldst}
                for sw in sorted(WB.live_blocks()):
                    e = WB.switch_bool_edges(sw)
                    if not e:
                        continue
                    src = e[0]
                    if src[0] == 'bin':
                        used = set(WB._op_locals(src[2]['a'])) | set(WB._op_locals(src[2]['b']))
                    elif src[0] == 'call':
                        used = set(l for a in src[2]['args'] for l in WB._op_locals(a)) | ({ldst} if src[1] == bb else set())
                    else:
                        used = set()
                    if not (used & dl):
                        continue
                    for side in (e[1], e[2]):
                        if WB.reachable(side) & work:
                            continue
                        lo, hi = Rw.range_of({'k': 'cp', 'pl': t['dst']}, side)
                        if nm.endswith('is_empty') or lo <= 255:
                            offending.append((side, lo))
        if offending:
            ctx.bad('C14.4-atom-walk-uncapped', q.rsplit('::', 1)[1], 'the walk stops once the set it is filling holds %s atoms: atoms beyond that point are not counted, so the `more than 255` test after the walk cannot fire'
                    % offending[0][1], ctx.where(WB, offending[0][0]), key='SHAPE:%s:walk-capped-below-limit' % q)
        else:
            ctx.ok('C14.4-atom-walk-uncapped', q.rsplit('::', 1)[1], 'the walk is not cut short while the set holds 255 atoms or fewer', ctx.where(WB))
    ctx.anchor(n_w >= 1, 'an encoder function that fills a &mut HashSet<&Atom>')


def _accessor_calls(P, B):
    """calls in B of a closure that is a four-bit-field accessor: [(bb, call, 'ok'|'wrong', canon of the field number)]"""
    out = []
    for bb, t in B.calls():
        nm = callee_of(t)[0] or ''
        if not (nm.endswith('Fn::call') or nm.endswith('FnMut::call_mut') or nm.endswith('FnOnce::call_once')) or len(t['args']) < 2:
            continue
        o = B.origin(t['args'][0])
        if not (o[0] == 'agg' and o[1].get('ak') == 'closure'):
            continue
        CB = P.B(o[1]['def'])
        if CB is None:
            continue
        v = _is_nibble_accessor(CB)
        if not v:
            continue
        ao = B.origin(t['args'][1])
        if ao[0] == 'agg' and ao[1].get('ak') == 'tuple' and ao[1]['ops']:
            out.append((bb, t, v, canon(B, ao[1]['ops'][0])))
    return out


def _is_nibble_accessor(CB):
    """closure |k| { let b = bytes[k / 2]; if k % 2 == 0 { b & 0x0F } else { b >> 4 } }: 'ok', 'wrong' (halves exchanged) or None"""
    has_half = any(st['k'] == '=' and st['rv']['k'] == 'bin' and ((st['rv']['op'] == 'Div' and fold(CB.origin(st['rv']['b'])) == 2) or (st['rv']['op'] == 'Shr' and fold(CB.origin(st['rv']['b'])) == 1))
                   for bb, j, st in CB.stmts())
    if not has_half:
        return None
    for sw in sorted(CB.live_blocks()):
        sb = CB.switch_bool_edges(sw)
        if not sb or sb[0][0] != 'bin':
            continue
        rv = sb[0][2]
        s_ = str(canon(CB, rv['a'])) + str(canon(CB, rv['b']))
        if not (("'Rem'" in s_ and "('const', 2)" in s_) or ("'BitAnd'" in s_ and "('const', 1)" in s_)) or rv['op'] not in ('Eq', 'Ne'):
            continue
        ca, cb = canon(CB, rv['a']), canon(CB, rv['b'])
        k = cb[1] if cb[0] == 'const' else (ca[1] if ca[0] == 'const' else None)
        if k not in (0, 1):
            continue
        even_t = sb[1] if ((rv['op'] == 'Eq') == (k == 0)) else sb[2]
        odd_t = sb[2] if even_t == sb[1] else sb[1]

        def ops_in(start, other):
            reg = CB.reachable(start) - CB.reachable(other)
            low = any(st['k'] == '=' and st['rv']['k'] == 'bin' and st['rv']['op'] == 'BitAnd' and 15 in (fold(CB.origin(st['rv']['a'])), fold(CB.origin(st['rv']['b']))) for bb, j, st in CB.stmts() if bb in reg)
            high = any(st['k'] == '=' and st['rv']['k'] == 'bin' and st['rv']['op'] == 'Shr' and fold(CB.origin(st['rv']['b'])) == 4 for bb, j, st in CB.stmts() if bb in reg)
            return low, high
        el, eh = ops_in(even_t, odd_t)
        ol, oh = ops_in(odd_t, even_t)
        if el and oh and not eh:
            return 'ok'
        if eh and ol and not el:
            return 'wrong'
    return None


def _selected_by_parity(B, mask_op):
    """the mask local is assigned 0x01 under "the count is even" and 0x10 under "the count is odd" (a test of count % 2 or
    count & 1 against 0 or 1, in either polarity)"""
    if mask_op['k'] not in ('cp', 'mv'):
        return False
    l = mask_op['pl']['l']
    # follow copies to the multi-def local
    for _ in range(4):
        d = B.single_def(l)
        if d and d[0] == 's' and d[3]['rv']['k'] in ('use', 'cast') and d[3]['rv']['op']['k'] in ('cp', 'mv'):
            l = d[3]['rv']['op']['pl']['l']
            continue
        break
    defs = B.defs().get(l, [])
    if len(defs) < 2:
        return False
    for d in defs:
        val = None
        if d[0] == 's' and d[3]['rv']['k'] == 'use' and d[3]['rv']['op']['k'] == 'c':
            val = d[3]['rv']['op'].get('v')
        okd = False
        for (src, vals, dst) in dominating_edges(B, d[1]):
            sb = B.switch_bool_edges(src)
            if not sb or sb[0][0] != 'bin':
                continue
            rv = sb[0][2]
            s = str(canon(B, rv['a'])) + str(canon(B, rv['b']))
            if not (("'Rem'" in s and "('const', 2)" in s) or ("'BitAnd'" in s and "('const', 1)" in s)):
                continue
            truth = (dst == sb[1])
            ca, cb = canon(B, rv['a']), canon(B, rv['b'])
            k = cb[1] if cb[0] == 'const' else (ca[1] if ca[0] == 'const' else None)
            if rv['op'] not in ('Eq', 'Ne') or k not in (0, 1):
                continue
            # (n % 2 == k) is true  <=>  parity(n) == k
            parity = k if (truth == (rv['op'] == 'Eq')) else 1 - k
            if val in (1, 16):
                if not ((val == 1 and parity == 0) or (val == 16 and parity == 1)):
                    return 'wrong'
            okd = True
        if not okd:
            return False
    return True
